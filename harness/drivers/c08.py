"""C08 — correspondence of model/GPLin.v (binary64 instance NumF, evaluated by coqc/vm_compute) with
syne_tune/optimizer/schedulers/searchers/bayesopt/gpautograd/{posterior_utils,posterior_state,kernel/base,
mean,custom_op,gp_model,gp_regression}.py, and an independent dense numpy reference run on every
implementation output (the checker that yields `property` violations).

Unit steps compared with the model (all inputs handed over as float.hex() literals, so both sides
start from bit-identical numbers; agreement within c * cond(K + sigsq I) * 2^-52 * scale):
  kernel   : Matern52.forward / diagonal  (X, X) and (X, X_test)      vs  kernel_matrix / matern52_diagonal
  chol     : GaussProcPosteriorState.chol_fact, pred_mat              vs  cholesky_computations (from K_impl)
  predict  : state.predict(X_test)                                     vs  predict_posterior_marginals (from L_impl, P_impl)
  nlml     : state.neg_log_likelihood()                                vs  nlml
  update   : IncrementalUpdateGPPosteriorState.update                  vs  cholesky_update (from L_impl, P_impl)
  jointcov : sample_joint with scripted N(0,1) draws -> covariance     vs  posterior_cov
"""
import math
import random

import numpy as np
import scipy.linalg as spl

from common import lst

EPS = 2.0 ** -52
C_TOL = 64.0

IMPORTS = ("From Verif Require Import model.Base model.GPLin.\n"
           "From Coq Require Import PrimFloat.\nOpen Scope float_scope.\n")

PRELUDE = r"""
Definition fclose (tol a b : float) : bool := PrimFloat.leb (PrimFloat.abs (PrimFloat.sub a b)) tol.
Fixpoint vclose (tol : float) (a b : list float) : bool :=
  match a, b with
  | [], [] => true
  | x :: a', y :: b' => fclose tol x y && vclose tol a' b'
  | _, _ => false
  end.
Fixpoint mclose (tol : float) (a b : list (list float)) : bool :=
  match a, b with
  | [], [] => true
  | x :: a', y :: b' => vclose tol x y && mclose tol a' b'
  | _, _ => false
  end.
Definition oclose (tol : float) (a : float) (b : option float) : bool :=
  match b with None => true | Some y => fclose tol a y end.

(* kernel case: ard, d, inverse bandwidths, covariance scale, jitter, X, Xtest,
   implementation: K(X,X), K(X,Xtest), diagonal(Xtest); tolerance *)
Definition kcase := (bool * nat * list float * float * float * list (list float) * list (list float)
                     * list (list float) * list (list float) * list float * float)%type.
Definition chk_kernel (c : kcase) : bool :=
  let '(ard, d, ibs, cs, jit, X, Xt, Kxx, Kxt, dg, tol) := c in
  let ib := ib_vector NumF ard d ibs in
  mclose tol (kernel_matrix NumF ib cs jit X X) Kxx &&
  mclose tol (kernel_matrix NumF ib cs jit X Xt) Kxt &&
  vclose 0 (matern52_diagonal NumF cs Xt) dg.

(* AddJitterOp's search run by the MODEL (add_jitter): the Cholesky-test oracle accepts exactly the matrix the
   implementation returned, so the model finds it iff it is K + (sigsq + k-th jitter of 0, j0, 10 j0, ...) Id *)
Definition chk_jit (c : list (list float) * float * float * list (list float)) : bool :=
  let '(K, sigsq, j0, sys) := c in
  match add_jitter NumF (fun A => mclose 0 A sys) (fun _ => true) K sigsq j0 10 24 with
  | Some (A, _) => mclose 0 A sys
  | None => false
  end.

(* linear-algebra case *)
Record upd := mkU { u_kvec : list float; u_kscal : float; u_noise : float; u_mscal : float;
                    u_target : list float; u_clamp2 : float;
                    u_L2 : list (list float); u_P2 : list (list float); u_tolL : float; u_tolP : float;
                    (* sample_and_update with scripted N(0,1) draws *)
                    u_z : list float; u_floor : float; u_starget : list float;
                    u_L3 : list (list float); u_P3 : list (list float);
                    u_tolT : float; u_tolL3 : float; u_tolP3 : float }.
Record gpc := mkC { g_K : list (list float); g_sigsq : float; g_sys : list (list float); g_Y : list (list float); g_mvec : list float;
                    g_kcols : list (list float); g_mstar : list float; g_kdiag : list float; g_floor : float;
                    g_Kss : list (list float);
                    g_L : list (list float); g_P : list (list float);
                    g_means : list (list float); g_vars : list float; g_nlml : option float;
                    g_cov : option (list (list float));
                    g_upd : option upd;
                    g_tolL : float; g_tolP : float; g_tolM : float; g_tolV : float; g_tolN : float; g_tolC : float }.
Definition chk_chol (c : gpc) : bool :=
  let '(L, P) := cholesky_computations NumF (g_K c) (g_sigsq c) (g_Y c) (g_mvec c) in
  mclose 0 (add_diag NumF (g_K c) (g_sigsq c)) (g_sys c) &&
  mclose (g_tolL c) L (g_L c) && mclose (g_tolP c) P (g_P c).
Definition chk_predict (c : gpc) : bool :=
  let '(mu, var) := predict_posterior_marginals NumF (g_L c) (g_P c) (g_kcols c) (g_mstar c) (g_kdiag c) (g_floor c) in
  mclose (g_tolM c) mu (g_means c) && vclose (g_tolV c) var (g_vars c).
Definition chk_nlml (c : gpc) : bool :=
  match g_nlml c with
  | None => true
  | Some v => fclose (g_tolN c) (nlml NumF (g_L c) (hd [] (g_P c))) v
  end.
Definition chk_cov (c : gpc) : bool :=
  match g_cov c with
  | None => true
  | Some Sg => mclose (g_tolC c) (posterior_cov NumF (g_L c) (g_kcols c) (g_Kss c)) Sg
  end.
Definition chk_upd (c : gpc) : bool :=
  match g_upd c with
  | None => true
  | Some u =>
      let '(L2, P2) := cholesky_update NumF (g_L c) (g_P c) (u_kvec u) (u_kscal u) (u_noise u) (u_mscal u)
                                       (u_target u) (u_clamp2 u) in
      mclose (u_tolL u) L2 (u_L2 u) && mclose (u_tolP u) P2 (u_P2 u)
  end.
Definition chk_su (c : gpc) : bool :=
  match g_upd c with
  | None => true
  | Some u =>
      let '((L3, P3), tgt) := sample_and_cholesky_update NumF (g_L c) (g_P c) (u_kvec u) (u_kscal u) (u_noise u)
                                (u_mscal u) (u_z u) (u_floor u) (u_clamp2 u) in
      vclose (u_tolT u) tgt (u_starget u) && mclose (u_tolL3 u) L3 (u_L3 u) && mclose (u_tolP3 u) P3 (u_P3 u)
  end.
Definition chk_all (c : gpc) : bool :=
  chk_chol c && chk_predict c && chk_nlml c && chk_cov c && chk_upd c && chk_su c.

(* the MCMC surrogate: one state per retained sample (mcmc_states), predictions per state (mcmc_predict) *)
Fixpoint chk_preds (ps : list (option (list (list float) * list float)))
         (os : list (list (list float) * list float * float * float)) : bool :=
  match ps, os with
  | [], [] => true
  | Some (mu', var') :: ps', (mu, var, tm, tv) :: os' => mclose tm mu' mu && vclose tv var' var && chk_preds ps' os'
  | _, _ => false
  end.
Definition chk_mcmc (c : float * float * list (gparams NumF) * gdata NumF * list (list float)
                         * list (list (list float) * list float * float * float)) : bool :=
  let '(jit, floor, samples, d, Xt, obs) := c in
  chk_preds (mcmc_predict NumF jit floor (mcmc_states NumF jit samples d) Xt) obs.

(* joint samples for a fantasy matrix: lfact, mean columns, draws zc[j][s], samples[j][s] (vectors over test points) *)
Fixpoint tclose (tol : float) (a b : list (list (list float))) : bool :=
  match a, b with
  | [], [] => true
  | x :: a', y :: b' => mclose tol x y && tclose tol a' b'
  | _, _ => false
  end.
Definition chk_joint (c : list (list float) * list (list float) * list (list (list float)) * nat
                          * list (list (list float)) * float) : bool :=
  let '(lf, mc, zc, ns, smp, tol) := c in tclose tol (joint_samples NumF lf mc zc ns) smp.

(* composite kernels: the kernel expressions of model/GPLin.v (kexpr / keval) evaluated at binary64:
   forward matrices, diagonal and the diagonal_depends_on_X flag against the real kernel objects *)
Definition ccase := (kexpr NumF * list (list float) * list (list float) * list (list float)
                     * list (list float) * list float * bool * float)%type.
Definition chk_ckernel (c : ccase) : bool :=
  let '(e, X, Xt, Kxx, Kxt, dg, dep, tol) := c in
  let k := keval NumF e in
  mclose tol (kmatrix NumF (k_fwd NumF k) X X) Kxx && mclose tol (kmatrix NumF (k_fwd NumF k) X Xt) Kxt &&
  vclose tol (kdiagonal NumF k Xt) dg && Bool.eqb (k_dep NumF k) dep.

(* GaussianProcessRegression sequences: the model state machine of model/GPLin.v run on the recorded operations
   (parameters after fit / reset are oracle values read back from the real model); after every step that
   computes the state, gpredict is compared with model.predict *)
Definition sobs := option (list (list float) * list float * float * float).
Fixpoint chk_steps (jit floor : float) (m : gmodel NumF) (Xt : list (list float))
         (steps : list (gop NumF * sobs)) : bool :=
  match steps with
  | [] => true
  | (o, obs) :: r =>
      let m' := gstep NumF jit m o in
      match obs with
      | None => true
      | Some (mu, var, tm, tv) =>
          match gpredict NumF jit floor m' Xt with
          | None => false
          | Some (mu', var') => mclose tm mu' mu && vclose tv var' var
          end
      end && chk_steps jit floor m' Xt r
  end.
Definition chk_model (c : float * float * gparams NumF * list (list float) * list (gop NumF * sobs)) : bool :=
  let '(jit, floor, p0, Xt, steps) := c in chk_steps jit floor (mkGM NumF p0 None) Xt steps.
"""


# --------------------------------------------------------------------------
# literals
# --------------------------------------------------------------------------
def fl(x):
    x = float(x)
    if math.isnan(x):
        return "nan"
    if math.isinf(x):
        return "infinity" if x > 0 else "neg_infinity"
    h = x.hex()
    return "(%s)" % h if h.startswith("-") else h


def fvec(v):
    return lst([fl(x) for x in np.asarray(v, dtype=float).reshape(-1)])


def fmat(M):
    M = np.asarray(M, dtype=float)
    return lst([fvec(r) for r in M])


def fcols(M):
    return fmat(np.asarray(M, dtype=float).T)


def fopt(x, f):
    return "None" if x is None else "(Some %s)" % f(x)


# --------------------------------------------------------------------------
# case generation
# --------------------------------------------------------------------------
def loguniform(rng, lo, hi):
    return math.exp(rng.uniform(math.log(lo), math.log(hi)))


def gen_spec(rng, nmax=12):
    n = rng.choice([1, 2, 3, 4, 5, 6, 8, 10, 12, rng.randint(1, nmax)])
    d = rng.randint(1, 4)
    m = rng.choice([1, 1, 2, 3, 4])
    t = rng.randint(1, 4)
    ard = rng.random() < 0.5 and d > 1 or (d == 1 and rng.random() < 0.3)
    if rng.random() < 0.04:
        # high input dimension with ARD: parameter names inv_bw10.. (the dict interface must keep them in place)
        d, ard, n = rng.randint(11, 14), True, min(n, 4)
    nib = d if ard else 1
    box = rng.random() < 0.25   # values across the full box constraints, otherwise a typical range
    ibs = [loguniform(rng, 1e-4, 100) if box else loguniform(rng, 0.1, 10) for _ in range(nib)]
    if ard and rng.random() < 0.15:
        ibs = [ibs[0]] * nib     # ARD with all bandwidths equal
    cs = loguniform(rng, 1e-3, 1e3) if box else loguniform(rng, 0.1, 10)
    noise = loguniform(rng, 1e-9, 1e6) if box else loguniform(rng, 1e-6, 1.0)
    if rng.random() < 0.05:
        noise = 1e-9
    style = rng.choice(["random", "random", "dup", "neardup", "grid"])
    X = []
    for i in range(n):
        if style == "grid":
            X.append([rng.randint(0, 3) / 3.0 for _ in range(d)])
        elif style in ("dup", "neardup") and X and rng.random() < 0.5:
            base = list(rng.choice(X))
            if style == "neardup":
                base = [min(1.0, max(0.0, v + rng.choice([1e-9, -1e-9, 1e-7, 1e-12]))) for v in base]
            X.append(base)
        else:
            X.append([rng.random() for _ in range(d)])
    Y = [[rng.gauss(0, 1) * rng.choice([1.0, 1.0, 5.0]) for _ in range(m)] for _ in range(n)]
    Xt = []
    for _ in range(t):
        r = rng.random()
        if r < 0.2:
            Xt.append(list(rng.choice(X)))
        elif r < 0.3:
            Xt.append([min(1.0, max(0.0, v + 1e-8)) for v in rng.choice(X)])
        else:
            Xt.append([rng.random() for _ in range(d)])
    mean = None if rng.random() < 0.3 else rng.uniform(-2, 2)
    cs2 = None if rng.random() < 0.6 else loguniform(rng, 1e-3, 1e3) if box else loguniform(rng, 0.2, 5)
    if rng.random() < 0.06:
        # hyper-parameters AT the lower end of their boxes (the bound itself, just above, within 0.1%)
        cs = 1e-3 * rng.choice([1.0, 1.0 + 1e-6, 1.0 + 5e-4])
        if rng.random() < 0.5:
            ibs[rng.randrange(len(ibs))] = 1e-4 * rng.choice([1.0, 1.0 + 1e-6, 1.0 + 5e-4])
    directed = rng.random()
    if directed < 0.05 and n >= 2:
        # variance floor: tiny noise, large scale, long length scales, test points = training points, so that
        # k** - |L^-1 k*|^2 is pure round-off (either sign) and MIN_POSTERIOR_VARIANCE decides
        style = "floor"
        noise, cs = 1e-9, loguniform(rng, 100, 1000)
        ibs = [loguniform(rng, 1e-3, 0.05) for _ in range(nib)]
        Xt = [list(rng.choice(X)) for _ in range(t)]
    elif directed < 0.09 and n >= 2:
        # jitter search: exact duplicates, noise at its lower bound, scale 1e6 (kernel 1e3 x tuple 1e3):
        # noise < eps * |K|, potrf fails on K + noise*Id
        style = "jitter"
        noise, cs, cs2 = 1e-9, 1e3, 1e3
        X = [list(X[0]) if rng.random() < 0.8 else list(X[1]) for _ in range(n)]
    r = rng.random()
    xnew = list(rng.choice(X)) if r < 0.2 else ([min(1.0, v + 1e-9) for v in rng.choice(X)] if r < 0.3 else
                                                 [rng.random() for _ in range(d)])
    ynew = [rng.gauss(0, 1) for _ in range(m)]
    return dict(n=n, d=d, m=m, t=t, ard=bool(ard), ibs=ibs, cs=cs, noise=noise, style=style, X=X, Y=Y, Xt=Xt,
                mean=mean, cs2=cs2, xnew=xnew, ynew=ynew, box=box)


class ScriptedNormal:
    """stands in for numpy.random.RandomState: .normal(size) returns the scripted arrays in order"""

    def __init__(self, arrays):
        self.arrays = list(arrays)
        self.k = 0

    def normal(self, size=None):
        a = self.arrays[self.k]
        self.k += 1
        assert tuple(a.shape) == tuple(size), (a.shape, size)
        return a.copy()


# --------------------------------------------------------------------------
# independent reference: textbook formulas written without looking at the implementation's factorisation
# --------------------------------------------------------------------------
JITTER = 1e-9   # documented constant NUMERICAL_JITTER inside the Matern square root


def ref_kernel(ib, cs, A, B):
    A = np.asarray(A, dtype=float)
    B = np.asarray(B, dtype=float)
    ib = np.asarray(ib, dtype=float).reshape(1, 1, -1)
    diff = (A[:, None, :] - B[None, :, :]) * ib
    r2 = np.sum(diff * diff, axis=2)
    D = 5.0 * r2
    Bm = np.sqrt(D + JITTER)
    return cs * (1.0 + Bm + D / 3.0) * np.exp(-Bm)


def kernel_tol(ib, cs, A, B):
    A = np.asarray(A, dtype=float) * np.asarray(ib).reshape(1, -1)
    B = np.asarray(B, dtype=float) * np.asarray(ib).reshape(1, -1)
    s = float(np.max(np.sum(A * A, axis=1))) + float(np.max(np.sum(B * B, axis=1)))
    return C_TOL * EPS * cs * (1.0 + 5.0 * s) * (2 + A.shape[1])


def run_case(ctx, spec, cases_k, cases_g, meta, kmeta, jit_cases, jit_meta, jt_cases, jt_meta):
    from syne_tune.optimizer.schedulers.searchers.bayesopt.gpautograd.kernel import Matern52
    from syne_tune.optimizer.schedulers.searchers.bayesopt.gpautograd.mean import (
        ScalarMeanFunction, ZeroMeanFunction)
    from syne_tune.optimizer.schedulers.searchers.bayesopt.gpautograd.posterior_state import (
        GaussProcPosteriorState, IncrementalUpdateGPPosteriorState)
    from syne_tune.optimizer.schedulers.searchers.bayesopt.gpautograd.gp_regression import (
        GaussianProcessRegression)
    from syne_tune.optimizer.schedulers.searchers.bayesopt.gpautograd.custom_op import (
        AddJitterOp, flatten_and_concat)
    from syne_tune.optimizer.schedulers.searchers.bayesopt.gpautograd.constants import (
        NOISE_VARIANCE_LOWER_BOUND, MIN_POSTERIOR_VARIANCE, MIN_CHOLESKY_DIAGONAL_VALUE, NUMERICAL_JITTER)

    n, d, m, t = spec["n"], spec["d"], spec["m"], spec["t"]
    X = np.array(spec["X"], dtype=float).reshape(n, d)
    Y = np.array(spec["Y"], dtype=float).reshape(n, m)
    Xt = np.array(spec["Xt"], dtype=float).reshape(t, d)
    xnew = np.array(spec["xnew"], dtype=float).reshape(1, d)
    ynew = np.array(spec["ynew"], dtype=float).reshape(1, m)

    def viol(what, quantity, **extra):
        sig = dict(component="gp_posterior", quantity=quantity)
        sig.update(extra)
        ctx.violation("property", what, case=dict(kind="gp", spec=spec), signature=sig)

    def corr(what, name):
        ctx.violation("correspondence", what, case=dict(kind="gp", spec=spec), failing_input=False,
                      broken="correspondence %s (model/GPLin.v)" % name)

    # ---- build the real objects -------------------------------------------------
    def make_kernel():
        kern = Matern52(d, ARD=spec["ard"])
        kern.collect_params().initialize()
        params = {"covariance_scale": spec["cs"]}
        if len(spec["ibs"]) == 1 and (d == 1 or not spec["ard"]):
            params["inv_bw"] = spec["ibs"][0]
        else:
            for k_, v in enumerate(spec["ibs"]):
                params["inv_bw%d" % k_] = v
        kern.set_params(params)
        return kern

    def make_mean():
        if spec["mean"] is None:
            return ZeroMeanFunction()
        mf = ScalarMeanFunction()
        mf.collect_params().initialize()
        mf.set_mean_value(spec["mean"])
        return mf

    kern = make_kernel()
    meanf = make_mean()
    got = kern.get_params()     # the values actually used (they went through the parameter encoding)
    cs = float(got["covariance_scale"])
    ibs = [float(got["inv_bw"])] if "inv_bw" in got else [float(got["inv_bw%d" % k_]) for k_ in range(d)]
    ib_full = ibs if len(ibs) == d else [ibs[0]] * d
    want = {"covariance_scale": spec["cs"]}
    want.update({"inv_bw": spec["ibs"][0]} if "inv_bw" in got else
                {"inv_bw%d" % k_: v for k_, v in enumerate(spec["ibs"])})
    bad_p = [k_ for k_, v in want.items() if k_ not in got or not abs(float(got[k_]) - v) <= 16 * EPS * abs(v)]
    if bad_p or len(got) != len(want):
        viol("Matern52.set_params / get_params round trip changes %s (requested %s, read back %s)"
             % (bad_p[:3], [want[k_] for k_ in bad_p[:3]], [float(got.get(k_, float("nan"))) for k_ in bad_p[:3]]),
             "param_roundtrip", ard=spec["ard"], d=d)
    mval = 0.0 if spec["mean"] is None else float(meanf.get_mean_value())
    cs2 = 1.0 if spec["cs2"] is None else float(spec["cs2"])
    kernel_arg = kern if spec["cs2"] is None else (kern, np.array([spec["cs2"]]))
    noise = float(spec["noise"])
    noise_arr = np.array([noise])

    # ---- kernel: implementation vs model vs textbook formula -----------------------
    Kxx0 = np.asarray(kern(X, X))
    Kxt0 = np.asarray(kern(X, Xt))
    Ktt0 = np.asarray(kern(Xt, Xt))
    dg0 = np.asarray(kern.diagonal(Xt)).reshape(-1)
    ktol = kernel_tol(ib_full, cs, np.vstack([X, Xt]), np.vstack([X, Xt]))
    for name, Ki, A_, B_ in (("K(X,X)", Kxx0, X, X), ("K(X,Xtest)", Kxt0, X, Xt)):
        Kr = ref_kernel(ib_full, cs, A_, B_)
        dev = float(np.max(np.abs(Ki - Kr)))
        if not dev <= ktol:
            viol("Matern52 %s deviates from c(1+sqrt(5)r+5r^2/3)exp(-sqrt(5)r) by %.3g (tol %.3g), ARD=%s"
                 % (name, dev, ktol, spec["ard"]), "kernel", ard=spec["ard"])
    if not np.array_equal(Kxx0, Kxx0.T):
        if float(np.max(np.abs(Kxx0 - Kxx0.T))) > ktol:
            viol("kernel matrix K(X,X) is not symmetric", "kernel_symmetry")
    if not np.all(dg0 == cs):
        viol("Matern52.diagonal differs from the covariance scale", "kernel_diagonal")
    kmeta.append(dict(kind="gp", spec=spec))
    cases_k.append("(%s, %d%%nat, %s, %s, %s, %s, %s, %s, %s, %s, %s)" % (
        "true" if spec["ard"] else "false", d, fvec(ibs), fl(cs), fl(NUMERICAL_JITTER), fmat(X), fmat(Xt),
        fmat(Kxx0), fmat(Kxt0), fvec(dg0), fl(ktol)))

    # quantities exactly as posterior_utils forms them (one float multiplication by the tuple's scale)
    K = Kxx0 * cs2
    Kte = Kxt0 * cs2
    Kss = Ktt0 * cs2
    kdiag = dg0 * cs2
    mvec = np.full(n, mval)
    mstar = np.full(t, mval)

    # ---- AddJitterOp: only the diagonal changes, by one constant >= noise ------------
    sys_mat = np.asarray(AddJitterOp(flatten_and_concat(K, noise_arr),
                                     initial_jitter_factor=NOISE_VARIANCE_LOWER_BOUND))
    if n <= 5 or not np.all(np.diag(sys_mat) == np.diag(K) + noise):
        jit_cases.append("(%s, %s, %s, %s)" % (fmat(K), fl(noise), fl(NOISE_VARIANCE_LOWER_BOUND * max(1.0, float(np.mean(np.diag(K))))),
                                               fmat(sys_mat)))
        jit_meta.append(dict(kind="gp", spec=spec))
    off = ~np.eye(n, dtype=bool)
    sigs = np.diag(sys_mat) - np.diag(K)
    sig_final = noise
    jitter_added = not np.all(np.diag(sys_mat) == np.diag(K) + noise)
    if not np.array_equal(sys_mat[off], K[off]) or not np.all(np.diag(sys_mat) >= np.diag(K) + noise):
        viol("AddJitterOp changed off-diagonal entries or lowered the diagonal", "jitter")
    if jitter_added:
        # find the constant that reproduces the diagonal bit for bit
        cands, jit_ = [], NOISE_VARIANCE_LOWER_BOUND * max(1.0, float(np.mean(np.diag(K))))
        for k_ in range(0, 16):     # the documented sequence: initial_jitter * growth^k, growth = 10
            cands.append(noise + jit_)
            jit_ = jit_ * 10.0
        cands = [c_ for c_ in cands if np.all(np.diag(K) + c_ == np.diag(sys_mat))]
        if not cands:
            viol("AddJitterOp diagonal is not K_ii + one constant from the documented sequence", "jitter")
            return
        sig_final = cands[0]
    ctx.h("jitter_added", jitter_added)
    if spec["style"] == "jitter":
        # exercise the search itself: an exactly singular K (duplicate rows) with sigsq_init = 0
        z0 = np.array([0.0])
        sm0 = np.asarray(AddJitterOp(flatten_and_concat(K, z0), initial_jitter_factor=NOISE_VARIANCE_LOWER_BOUND))
        j0, c0 = NOISE_VARIANCE_LOWER_BOUND * max(1.0, float(np.mean(np.diag(K)))), None
        for k_ in range(0, 16):
            if np.all(np.diag(K) + (0.0 + j0) == np.diag(sm0)):
                c0 = 0.0 + j0
                break
            j0 = j0 * 10.0
        ctx.h("jitter_search_steps", "none" if np.array_equal(sm0, K) else (k_ if c0 is not None else "?"))
        if not np.array_equal(sm0[off], K[off]) or (c0 is None and not np.array_equal(sm0, K)):
            viol("AddJitterOp(K, 0) changed off-diagonal entries, or its diagonal is not K_ii + one constant of "
                 "the documented sequence", "jitter")
        elif c0 is not None:
            j_init = NOISE_VARIANCE_LOWER_BOUND * max(1.0, float(np.mean(np.diag(K))))
            jit_cases.append("(%s, %s, %s, %s)" % (fmat(K), fl(0.0), fl(j_init), fmat(sm0)))
            jit_meta.append(dict(kind="gp", spec=spec))
            # "first": every earlier jitter of the sequence really fails the Cholesky test
            jj, tried = j_init, [0.0]
            for _ in range(k_):
                tried.append(jj)
                jj = jj * 10.0
            for jt_ in tried:
                try:
                    spl.cholesky(K + (0.0 + jt_) * np.eye(n), lower=True)
                    viol("AddJitterOp(K, 0) returned jitter %r although the earlier jitter %r of the sequence passes "
                         "the Cholesky test" % (c0, jt_), "jitter_not_first")
                    break
                except spl.LinAlgError:
                    pass

    # ---- implementation: posterior state, predictions, likelihood, update --------------
    state = IncrementalUpdateGPPosteriorState(X, Y, meanf, kernel_arg, noise_arr)
    L = np.asarray(state.chol_fact)
    P = np.asarray(state.pred_mat)
    mu, var = state.predict(Xt)
    mu, var = np.asarray(mu), np.asarray(var).reshape(-1)
    nl = float(state.neg_log_likelihood()) if m == 1 else None
    state2 = state.update(xnew, ynew)
    L2, P2 = np.asarray(state2.chol_fact), np.asarray(state2.pred_mat)
    mu2, var2 = state2.predict(Xt)
    mu2, var2 = np.asarray(mu2), np.asarray(var2).reshape(-1)
    # from scratch on the extended data
    Xe, Ye = np.vstack([X, xnew]), np.vstack([Y, ynew])
    state3 = GaussProcPosteriorState(Xe, Ye, meanf, kernel_arg, noise_arr)
    mu3, var3 = state3.predict(Xt)
    mu3, var3 = np.asarray(mu3), np.asarray(var3).reshape(-1)
    # joint samples with scripted draws: sample s = e_s for column 0 -> columns of the factor
    cov_impl = cov_minus = None
    if m == 1:
        draws = [np.eye(t)[:, s].reshape(t, 1, 1) for s in range(t)]
        smp = np.asarray(state.sample_joint(Xt, num_samples=t, random_state=ScriptedNormal(draws)))
        pm = np.asarray(state.predict(Xt)[0]).reshape(t, 1)
        lf = smp.reshape(t, t) - pm
        cov_impl = lf @ lf.T
    # joint samples for a fantasy MATRIX (m > 1) and several samples at once: sample s of column j must be
    # mean[:, j] + L z[:, j*S+s] (the documented layout), for the plain and the incremental state class
    if m > 1:
        jrng = random.Random("joint" + repr(spec["X"]) + repr(spec["Y"]))
        S_ = jrng.choice([2, 3, 5])
        st_plain = GaussProcPosteriorState(X, Y, meanf, kernel_arg, noise_arr)
        probe = []
        for s_ in range(t):
            a_ = np.zeros((t, m, 1))
            a_[s_, 0, 0] = 1.0
            probe.append(a_)
        pr = np.asarray(state.sample_joint(Xt, num_samples=t, random_state=ScriptedNormal(probe)))
        draws = [np.array([[jrng.gauss(0, 1) for _ in range(m)] for _ in range(t)]).reshape(t, m, 1) for _ in range(S_)]
        zjs = np.concatenate(draws, axis=-1)                       # z[:, j, s]
        joint_bad = False
        for nm_, st_ in (("IncrementalUpdateGPPosteriorState", state), ("GaussProcPosteriorState", st_plain)):
            sm_ = np.asarray(st_.sample_joint(Xt, num_samples=S_, random_state=ScriptedNormal([a_.copy() for a_ in draws])))
            if sm_.shape != (t, m, S_) or pr.shape != (t, m, t):
                viol("%s.sample_joint returns shape %s for m=%d columns and %d samples" % (nm_, sm_.shape, m, S_),
                     "joint_samples_layout", fantasies=m, num_samples=S_)
                joint_bad = True
                continue
            lf_ = pr[:, 0, :] - mu[:, 0:1]                         # columns of the covariance factor
            want_ = mu[:, :, None] + np.einsum("ab,bjs->ajs", lf_, zjs)
            sc_ = float(np.max(np.abs(want_))) + 1e-300
            if not float(np.max(np.abs(sm_ - want_))) <= 1e-9 * sc_:
                joint_bad = True
                viol("%s.sample_joint: sample s of fantasy column j is not mean[:, j] + L z[:, j*S+s] (max deviation "
                     "%.3g, m=%d, num_samples=%d)" % (nm_, float(np.max(np.abs(sm_ - want_))), m, S_),
                     "joint_samples_layout", fantasies=m, num_samples=S_)
            elif nm_.startswith("Incremental"):
                jt_cases.append("(%s, %s, %s, %d%%nat, %s, %s)" % (
                    fmat(lf_), fcols(mu), lst([lst([fvec(zjs[:, j_, s2]) for s2 in range(S_)]) for j_ in range(m)]), S_,
                    lst([lst([fvec(sm_[:, j_, s2]) for s2 in range(S_)]) for j_ in range(m)]), fl(1e-9 * sc_)))
                jt_meta.append(dict(kind="gp", spec=spec))
        if not joint_bad:
            # the factor recovered through column 0 is the factor of the dense posterior covariance (+ jitter Id)
            cov_m = lf_ @ lf_.T
    # marginal samples with scripted draws
    lrng = random.Random(repr(spec["X"]) + repr(spec["Y"]))
    z = np.array([[lrng.gauss(0, 1) for _ in range(m)] for _ in range(t)]).reshape(t, m, 1)
    ms = np.asarray(state.sample_marginals(Xt, num_samples=1, random_state=ScriptedNormal([z])))
    ms = ms.reshape(t, m)
    want = mu + z.reshape(t, m) * np.sqrt(var).reshape(t, 1)
    if not np.allclose(ms, want, rtol=1e-13, atol=1e-13 * (1 + float(np.max(np.abs(want))))):
        viol("sample_marginals != mean + z * sqrt(variance)", "sample_marginals")

    # sample_and_update with scripted draws (and a mean-impute mask): target = posterior mean + z * posterior std,
    # and the new state is the one update() gives for that target
    zs = np.array([lrng.gauss(0, 1) for _ in range(m)])
    mask = [lrng.random() < 0.3 for _ in range(m)] if lrng.random() < 0.5 else None
    starget, state_su = state.sample_and_update(xnew, mean_impute_mask=mask,
                                                random_state=ScriptedNormal([zs.reshape(1, m)]))
    starget = np.asarray(starget).reshape(-1)
    zs_eff = np.where(np.array(mask), 0.0, zs) if mask is not None else zs
    L3, P3 = np.asarray(state_su.chol_fact), np.asarray(state_su.pred_mat)
    mu_x, var_x = state.predict(xnew)
    mu_x, std_x = np.asarray(mu_x).reshape(-1), math.sqrt(float(np.asarray(var_x).reshape(-1)[0]))
    st_u = state.update(xnew, starget.reshape(1, m))
    want_t = mu_x + zs_eff * std_x
    tscale = float(np.max(np.abs(mu_x))) + float(np.max(np.abs(zs_eff))) * std_x + abs(mval) + 1e-300
    if not np.all(np.abs(starget - want_t) <= 1e-12 * tscale):
        viol("sample_and_update target differs from predictive mean + z * predictive std at the new input by %.3g"
             % float(np.max(np.abs(starget - want_t))), "sample_and_update_target")
    if not (np.allclose(L3, np.asarray(st_u.chol_fact), rtol=1e-12, atol=1e-300)
            and np.allclose(P3, np.asarray(st_u.pred_mat), rtol=1e-10, atol=1e-12 * (1 + float(np.max(np.abs(P3)))))):
        viol("state after sample_and_update differs from update(feature, sampled target)", "sample_and_update_state")

    # ---- input dtypes: states built through the public constructor from float32 / int64 / bool features (unit-cube
    # corners, one-hot encodings), then updated with an interior float64 point: the updated state must be the
    # posterior of concatenate([X, x_new]) in float64
    dt = random.Random("dtype" + repr(spec["X"])).choice(["float32", "int64", "bool", "float64"])
    Xd = X.astype(np.float32) if dt == "float32" else (X.copy() if dt == "float64" else np.round(X).astype(dt))
    Xd64 = Xd.astype(np.float64)
    xin = np.clip(xnew, 0.05, 0.95) * 0.9 + 0.037            # interior point, not representable as int / bool
    ctx.h("feature_dtype", dt)
    try:
        st_d = IncrementalUpdateGPPosteriorState(Xd.copy(), Y.copy(), meanf, kernel_arg, noise_arr)
        st_d2 = st_d.update(xin.copy(), ynew.copy())
        tz_, st_d3 = st_d.sample_and_update(xin.copy(), random_state=ScriptedNormal([np.zeros((1, m))]))
        Xe_d = np.vstack([Xd64, xin])
        for nm_, s_ in (("update", st_d2), ("sample_and_update", st_d3)):
            if not np.array_equal(np.asarray(s_.features, dtype=np.float64), Xe_d):
                viol("%s on a state built from %s features stores inputs %s for the new point %s"
                     % (nm_, dt, np.asarray(s_.features)[-1].tolist(), xin.reshape(-1).tolist()),
                     "update_input_dtype", dtype=dt, op=nm_)
        st_ds = GaussProcPosteriorState(Xe_d, np.vstack([Y, ynew]), meanf, kernel_arg, noise_arr)
        mu_u, var_u = [np.asarray(v) for v in st_d2.predict(Xt.copy())]
        mu_s, var_s = [np.asarray(v) for v in st_ds.predict(Xt.copy())]
        Ae_d = np.asarray(kern(Xe_d, Xe_d)) * cs2 + noise * np.eye(n + 1)
        cond_d = float(np.linalg.cond(Ae_d))
        rel_d = 1e-7 + 1e3 * EPS * cond_d + 4 * 5e-10 * cond_d
        sc_d = 1.0 + float(np.max(np.abs(mu_s))) + float(np.max(np.abs(Y))) + abs(mval)
        if not (np.all(np.abs(mu_u - mu_s) <= rel_d * sc_d) and np.all(np.abs(var_u.reshape(-1) - var_s.reshape(-1)) <= rel_d * (sc_d + float(np.max(kdiag))))):
            viol("update of a state built from %s features with an interior float64 point differs from recomputing from "
                 "scratch on concatenate([X, x_new]): mean %.3g, variance %.3g (tol %.3g)"
                 % (dt, float(np.max(np.abs(mu_u - mu_s))), float(np.max(np.abs(var_u.reshape(-1) - var_s.reshape(-1)))),
                    rel_d * sc_d), "update_input_dtype", dtype=dt, op="predict")
    except (AssertionError, ValueError, IndexError, TypeError) as e:
        viol("state classes fail on %s features: %r" % (dt, e), "update_input_dtype", dtype=dt, op="exception")

    # ---- a plain target VECTOR of shape (n,) handed to the state classes directly is one target column ---------
    if m == 1:
        try:
            s1 = GaussProcPosteriorState(X.copy(), Y[:, 0].copy(), meanf, kernel_arg, noise_arr)
            s1i = IncrementalUpdateGPPosteriorState(X.copy(), Y[:, 0].copy(), meanf, kernel_arg, noise_arr)
            m1, v1 = s1.predict(Xt.copy())
            m1, v1 = np.asarray(m1), np.asarray(v1)
            nl1 = float(np.reshape(s1.neg_log_likelihood(), (-1,))[0])
            s1u = s1i.update(xnew.copy(), ynew.reshape(-1).copy())
            ok_shape = (m1.shape == (t, 1) and v1.shape == (t,) and np.asarray(s1.pred_mat).shape == (n, 1)
                        and np.asarray(s1u.pred_mat).shape == (n + 1, 1) and s1.num_fantasies == 1)
            if not ok_shape:
                viol("1-D targets of shape (n,): predict means have shape %s (want (%d, 1)), pred_mat %s (want (%d, 1))"
                     % (m1.shape, t, np.asarray(s1.pred_mat).shape, n), "targets_vector_shape")
            elif not (np.allclose(m1, mu, rtol=1e-12, atol=1e-300) and np.allclose(v1, var, rtol=1e-12, atol=1e-300)
                      and abs(nl1 - nl) <= 1e-12 * (1 + abs(nl))
                      and np.allclose(np.asarray(s1u.chol_fact), L2, rtol=1e-12, atol=1e-300)
                      and np.allclose(np.asarray(s1u.pred_mat), P2, rtol=1e-10, atol=1e-12 * (1 + float(np.max(np.abs(P2)))))):
                viol("state built from a 1-D target vector differs from the state built from the same targets as an "
                     "(n, 1) matrix", "targets_vector_value")
        except (AssertionError, ValueError, IndexError, TypeError) as e:
            viol("state classes fail on a 1-D target vector of shape (n,): %r" % (e,), "targets_vector_exception")

    # ---- the state must not alias the caller's arrays: overwrite every array handed in, results stay bit-identical --
    Xa, Ya, Xta, xna, yna, na_ = X.copy(), Y.copy(), Xt.copy(), xnew.copy(), ynew.copy(), noise_arr.copy()
    karg_a = kern if spec["cs2"] is None else (kern, np.array([spec["cs2"]]))
    st_a = IncrementalUpdateGPPosteriorState(Xa, Ya, meanf, karg_a, na_)

    def observe(st, with_update):
        o = [np.asarray(v).copy() for v in st.predict(Xt.copy())]
        if m == 1:
            o.append(np.asarray(st.neg_log_likelihood()).copy())
        if with_update:
            s2 = st.update(xnew.copy(), ynew.copy())
            o += [np.asarray(s2.chol_fact).copy(), np.asarray(s2.pred_mat).copy()]
            o += [np.asarray(v).copy() for v in s2.predict(Xt.copy())]
        return o
    st_a.predict(Xta)                       # an earlier call whose test-input array is overwritten as well
    st_b = st_a.update(xna, yna)
    before, before_b = observe(st_a, True), observe(st_b, False)
    for arr in (Xa, Xta, xna):
        arr[...] = 1.0 - arr                # still valid inputs, but different ones
    Ya[...] = Ya * -3.0 + 100.0
    yna[...] = yna + 50.0
    na_[...] = na_ * 7.0 + 1.0
    if isinstance(karg_a, tuple):
        karg_a[1][...] = karg_a[1] * 5.0
    after, after_b = observe(st_a, True), observe(st_b, False)
    if not all(np.array_equal(a_, b_) for a_, b_ in zip(before + before_b, after + after_b)):
        viol("posterior state changed its predictions / likelihood / update after the caller overwrote the arrays it "
             "had passed in (features, targets, test inputs, noise, covariance scale): the state aliases caller data",
             "state_aliases_inputs")
    if not (np.all(np.abs(before[0] - mu) <= 1e-12 * (1 + np.abs(mu))) and np.array_equal(before[1].reshape(-1), var)):
        viol("two states built from equal data disagree", "state_not_deterministic")

    # ---- dense reference (numpy solve / slogdet on K + sigsq I) --------------------------
    A = K + sig_final * np.eye(n)
    cond = float(np.linalg.cond(A))
    R = Y - mvec.reshape(-1, 1)
    alpha = np.linalg.solve(A, R)                  # (n, m)
    beta = np.linalg.solve(A, Kte)                 # (n, t)
    mean_ref = mstar.reshape(-1, 1) + Kte.T @ alpha
    rawvar_ref = kdiag - np.sum(Kte * beta, axis=0)
    var_ref = np.maximum(rawvar_ref, MIN_POSTERIOR_VARIANCE)
    cov_ref = Kss - Kte.T @ beta
    sign, logdet = np.linalg.slogdet(A)
    nl_ref = 0.5 * (float(np.sum(R[:, 0] * alpha[:, 0])) + logdet + n * math.log(2 * math.pi))
    nrm = lambda a: float(np.linalg.norm(a))   # noqa: E731
    knorm = [nrm(Kte[:, s]) for s in range(t)]
    anorm = [nrm(alpha[:, j]) for j in range(m)]
    bnorm = [nrm(beta[:, s]) for s in range(t)]
    ce = C_TOL * (n + 2) * EPS * cond
    tolM_ref = max(ce * (knorm[s] * anorm[j] + abs(mval)) + 8 * EPS * abs(mval)
                   for s in range(t) for j in range(m))
    tolV_ref = max(ce * (knorm[s] * bnorm[s] + kdiag[s]) for s in range(t))
    tolC_ref = max(ce * (knorm[s] * bnorm[u] + float(np.max(np.abs(Kss)))) for s in range(t) for u in range(t))
    tolN_ref = ce * (nrm(R[:, 0]) * anorm[0] + n * (1 + abs(math.log(max(cond, 1.0))))) + 16 * EPS * abs(nl_ref)
    scaleM = float(np.max(np.abs(mean_ref))) + float(np.max(np.abs(R))) + 1e-300
    well = tolM_ref < 1e-4 * scaleM
    ctx.h("log10_cond", int(math.log10(max(cond, 1.0))))
    ctx.h("well_conditioned", well)

    if not np.all(np.abs(mu - mean_ref) <= tolM_ref):
        viol("predictive mean deviates from m* + k*^T (K+sigsq I)^-1 (y-m) by %.3g (tol %.3g, cond %.3g)"
             % (float(np.max(np.abs(mu - mean_ref))), tolM_ref, cond), "mean", fantasies=m > 1,
             ard=spec["ard"], covariance_scale_tuple=spec["cs2"] is not None)
    if not np.all(np.abs(var - var_ref) <= tolV_ref):
        viol("predictive variance deviates from max(k** - k*^T (K+sigsq I)^-1 k*, floor) by %.3g (tol %.3g)"
             % (float(np.max(np.abs(var - var_ref))), tolV_ref), "variance")
    if not (np.all(var >= MIN_POSTERIOR_VARIANCE) and np.all(var <= np.maximum(kdiag, MIN_POSTERIOR_VARIANCE))):
        viol("predictive variance outside [floor, prior variance]", "variance_bounds")
    if nl is not None and not abs(nl - nl_ref) <= tolN_ref:
        viol("negative log marginal likelihood deviates from the dense expression by %.3g (tol %.3g)"
             % (abs(nl - nl_ref), tolN_ref), "nlml")
    if cov_impl is not None:
        # the factor is that of posterior_cov + jitter*Id with jitter >= 1e-5 found by AddJitterOp
        E = cov_impl - cov_ref
        jit = float(np.mean(np.diag(E)))
        E2 = E - jit * np.eye(t)
        cov_minus = cov_impl - jit * np.eye(t)
        tolJ = tolC_ref + C_TOL * t * EPS * (float(np.max(np.abs(cov_ref))) + jit)
        if not (jit >= 1e-5 * (1 - 1e-6) - tolJ and float(np.max(np.abs(E2))) <= tolJ):
            viol("covariance of joint samples deviates from K** - K*^T (K+sigsq I)^-1 K* (+ jitter Id) by %.3g "
                 "(tol %.3g)" % (float(np.max(np.abs(E2))), tolJ), "joint_covariance")
    # fantasy columns independent: column j alone gives the same mean column; variance the same
    if m > 1:
        j = lrng.randrange(m)
        st_j = GaussProcPosteriorState(X, Y[:, j:j + 1], meanf, kernel_arg, noise_arr)
        mu_j, var_j = st_j.predict(Xt)
        if not (np.all(np.abs(np.asarray(mu_j).reshape(-1) - mu[:, j]) <= tolM_ref)
                and np.all(np.abs(np.asarray(var_j).reshape(-1) - var) <= tolV_ref)):
            viol("fantasy column %d predicted jointly differs from predicting it alone" % j, "fantasy_columns")
    # incremental update == from scratch (both against each other and against the dense reference on the
    # extended system)
    kv = np.asarray(kern(X, xnew)).reshape(-1) * cs2
    kscal = float(np.asarray(kern.diagonal(xnew)).reshape(-1)[0] * cs2)
    Ae = np.block([[K, kv.reshape(-1, 1)], [kv.reshape(1, -1), np.array([[kscal]])]]) + noise * np.eye(n + 1)
    if jitter_added:
        Ae = None   # the two paths legitimately use different diagonals then
    if Ae is not None:
        conde = float(np.linalg.cond(Ae))
        Kte_e = np.vstack([Kte, (np.asarray(kern(xnew, Xt)) * cs2).reshape(1, t)])
        Re = Ye - mval
        try:
            alpha_e = np.linalg.solve(Ae, Re)
            beta_e = np.linalg.solve(Ae, Kte_e)
        except np.linalg.LinAlgError:
            alpha_e = None
        if alpha_e is not None:
            cee = C_TOL * (n + 3) * EPS * conde
            mean_e = mval + Kte_e.T @ alpha_e
            var_e = np.maximum(kdiag - np.sum(Kte_e * beta_e, axis=0), MIN_POSTERIOR_VARIANCE)
            tolMe = max(cee * (nrm(Kte_e[:, s]) * nrm(alpha_e[:, j_]) + abs(mval)) + 8 * EPS * abs(mval)
                        for s in range(t) for j_ in range(m))
            tolVe = max(cee * (nrm(Kte_e[:, s]) * nrm(beta_e[:, s]) + kdiag[s]) for s in range(t))
            # the implementation re-evaluates the kernel on the concatenated inputs: entries may differ from the
            # ones used here by the round-off of the squared-distance expansion (ktol, see kernel_tol)
            kt2 = ktol * cs2
            tolMe += 2 * kt2 * max(float(np.sum(np.abs(alpha_e[:, j_]))) for j_ in range(m))
            tolVe += 4 * kt2 * max(float(np.sum(np.abs(beta_e[:, s]))) for s in range(t))
            # did cholesky_update clamp the new diagonal, or the from-scratch path add jitter?
            clamped = L2[n, n] <= MIN_CHOLESKY_DIAGONAL_VALUE * (1 + 1e-9)
            sys3 = np.asarray(AddJitterOp(flatten_and_concat(Ae - noise * np.eye(n + 1), noise_arr),
                                          initial_jitter_factor=NOISE_VARIANCE_LOWER_BOUND))
            scratch_jit = not np.all(np.diag(sys3) == np.diag(Ae - noise * np.eye(n + 1)) + noise)
            ctx.h("update_clamped_or_jitter", bool(clamped or scratch_jit))
            # The from-scratch path takes the new diagonal entry from Matern52.forward, the update takes it
            # from Matern52.diagonal; they differ by the kernel's documented NUMERICAL_JITTER inside the square
            # root (k_forward(x,x) = c(1+sqrt(1e-9))exp(-sqrt(1e-9)) = c(1 - 5e-10)). First-order effect of that
            # diagonal perturbation delta on the predictions: |k*| |A^-1| delta |alpha|.
            delta = abs(kscal - float(np.asarray(kern(xnew, xnew)).reshape(-1)[0] * cs2)) + (n + 1) * kt2
            ainv = 1.0 / float(np.min(np.linalg.svd(Ae, compute_uv=False)))
            dM = max(4 * ainv * delta * nrm(Kte_e[:, s]) * nrm(alpha_e[:, j_]) for s in range(t) for j_ in range(m))
            dV = max(4 * ainv * delta * nrm(Kte_e[:, s]) * nrm(beta_e[:, s]) for s in range(t))
            if not (clamped or scratch_jit):
                if not (np.all(np.abs(mu2 - mu3) <= 2 * tolMe + dM) and np.all(np.abs(var2 - var3) <= 2 * tolVe + dV)):
                    viol("predictions after incremental update differ from recomputing from scratch: "
                         "mean %.3g (tol %.3g), variance %.3g (tol %.3g)"
                         % (float(np.max(np.abs(mu2 - mu3))), 2 * tolMe + dM, float(np.max(np.abs(var2 - var3))),
                            2 * tolVe + dV), "incremental_vs_scratch")
                if not (np.all(np.abs(mu2 - mean_e) <= tolMe) and np.all(np.abs(var2 - var_e) <= tolVe)):
                    viol("predictions after incremental update deviate from the dense expression on the "
                         "extended data", "incremental_vs_dense")

    # GaussianProcessRegression.predict (public model path) against the dense reference
    if spec["cs2"] is None and m == 1 and spec.get("gpr", True):
        k2, m2 = make_kernel(), make_mean()
        gpr = GaussianProcessRegression(kernel=k2, mean=m2 if spec["mean"] is not None else ZeroMeanFunction(),
                                        initial_noise_variance=noise, random_seed=0)
        prm = gpr.get_params()
        prm.update({"kernel_" + k_: v for k_, v in got.items()})
        prm["noise_variance"] = noise
        if spec["mean"] is not None:
            prm["mean_mean_value"] = mval
        gpr.set_params(prm)
        back = gpr.get_params()
        Xg, Yg = X.copy(), Y.copy()
        gpr.recompute_states({"features": Xg, "targets": Yg})
        (gm, gv), = gpr.predict(Xt)
        gm, gv = np.asarray(gm).reshape(-1).copy(), np.asarray(gv).reshape(-1).copy()
        S_g = 1 + (n + t) % 4
        rs_clone = np.random.RandomState()
        rs_clone.set_state(gpr.random_state.get_state())
        sj = np.asarray(gpr.sample_joint(Xt.copy(), num_samples=S_g))
        zz = [rs_clone.normal(size=(t, 1, 1)) for _ in range(S_g)]
        st_g = gpr.states[0]
        prb = np.asarray(st_g.sample_joint(Xt.copy(), num_samples=t, random_state=ScriptedNormal(
            [np.eye(t)[:, s_].reshape(t, 1, 1) for s_ in range(t)]))).reshape(t, t)
        lf_g = prb - gm.reshape(t, 1)
        want_g = gm.reshape(t, 1) + lf_g @ np.concatenate(zz, axis=-1).reshape(t, S_g)
        if sj.shape != (t, S_g) or not float(np.max(np.abs(sj - want_g))) <= 1e-9 * (1 + float(np.max(np.abs(want_g)))):
            viol("GaussianProcessRegression.sample_joint: sample s is not mean + L z_s for the model's own random "
                 "stream (shape %s)" % (sj.shape,), "joint_samples_layout", num_samples=S_g)
        Xg[...] = 1.0 - Xg
        Yg[...] = Yg + 100.0
        (gm2, gv2), = gpr.predict(Xt.copy())
        if not (np.array_equal(gm, np.asarray(gm2).reshape(-1)) and np.array_equal(gv, np.asarray(gv2).reshape(-1))):
            viol("GaussianProcessRegression.predict changed after the caller overwrote the data arrays given to "
                 "recompute_states: the posterior state aliases caller data", "state_aliases_inputs")
        # the noise went through the encoding once more: allow its relative change
        same = abs(float(back["noise_variance"]) - noise) <= 8 * EPS * noise and all(
            abs(float(back["kernel_" + k_]) - float(v)) <= 8 * EPS * abs(float(v)) for k_, v in got.items())
        if not same:
            viol("GaussianProcessRegression.set_params does not install the requested values: requested noise %r / "
                 "kernel %s, get_params returns noise %r / kernel %s"
                 % (noise, {k_: float(v) for k_, v in got.items()}, float(back["noise_variance"]),
                    {k_: float(back["kernel_" + k_]) for k_ in got}), "param_roundtrip")
        if same and not (np.all(np.abs(gm - mean_ref[:, 0]) <= 2 * tolM_ref + 1e-9 * tolM_ref)
                         and np.all(np.abs(gv - var_ref) <= 2 * tolV_ref)):
            viol("GaussianProcessRegression.predict deviates from the dense expression", "gpr_predict")

    # ---- Coq case ----------------------------------------------------------------------
    Lmax = float(np.max(np.abs(L)))
    cl = C_TOL * (n + 2) * EPS * cond
    tolL = cl * Lmax
    pn = max(nrm(P[:, j]) for j in range(m))
    tolP = cl * (pn + 1e-300) * 2
    V = np.asarray(spl.solve_triangular(L, Kte, lower=True))
    vn = [nrm(V[:, s]) for s in range(t)]
    tolM = max(cl * (vn[s] * pn + abs(mval)) for s in range(t)) + 1e-300
    tolV = max(cl * (vn[s] ** 2 + kdiag[s]) for s in range(t))
    tolN = cl * (n + pn * pn + abs(nl or 0.0)) + 1e-300
    tolC = max(cl * (vn[s] * vn[u] + float(np.max(np.abs(Kss)))) for s in range(t) for u in range(t))
    # update step (from the implementation's own state)
    lvec = L2[n, :n]
    lscal = float(L2[n, n])
    d_lvec = cl * (nrm(lvec) + 1e-300)
    d_lsq = 2 * nrm(lvec) * d_lvec + 16 * EPS * (kscal + noise + float(lvec @ lvec))
    d_lscal = d_lsq / (2 * lscal) if lscal * lscal > 4 * d_lsq else math.sqrt(4 * d_lsq + lscal * lscal)
    tolL2 = max(d_lvec, d_lscal)
    num = np.abs(ynew.reshape(-1) - mval) + np.abs(lvec @ P)
    d_num = d_lvec * pn + 16 * EPS * float(np.max(num))
    tolP2 = float(np.max(num)) * d_lscal / (lscal * max(lscal - d_lscal, lscal * 0.5)) + d_num / lscal + 1e-300
    ctx.h("update_tol_useful", bool(tolP2 < 1e-3 * (1 + float(np.max(np.abs(P2[n, :]))))))
    # sample_and_update: target = lvec.P + m + z*std, std = sqrt(max(kscal - |lvec|^2, floor))
    d_var = 2 * nrm(lvec) * d_lvec + 16 * EPS * (kscal + float(lvec @ lvec))
    d_std = d_var / (2 * std_x) if std_x * std_x > 4 * d_var else math.sqrt(4 * d_var + std_x * std_x)
    tolT = 2 * d_lvec * pn + 16 * EPS * tscale + float(np.max(np.abs(zs_eff))) * d_std + 1e-300
    num3 = np.abs(starget - mval) + np.abs(lvec @ P)
    d_num3 = d_lvec * pn + 16 * EPS * float(np.max(num3)) + tolT
    tolP3 = float(np.max(num3)) * d_lscal / (lscal * max(lscal - d_lscal, lscal * 0.5)) + d_num3 / lscal + 1e-300
    u = "(mkU %s %s %s %s %s %s %s %s %s %s %s %s %s %s %s %s %s %s)" % (
        fvec(kv), fl(kscal), fl(noise), fl(mval), fvec(ynew), fl(MIN_CHOLESKY_DIAGONAL_VALUE ** 2),
        fmat(L2), fcols(P2), fl(tolL2), fl(tolP2),
        fvec(zs_eff), fl(MIN_POSTERIOR_VARIANCE), fvec(starget), fmat(L3), fcols(P3), fl(tolT), fl(tolL2), fl(tolP3))
    g = "(mkC %s %s %s %s %s %s %s %s %s %s %s %s %s %s %s %s (Some %s) %s %s %s %s %s %s)" % (
        fmat(K), fl(sig_final), fmat(sys_mat), fcols(Y), fvec(mvec), fcols(Kte), fvec(mstar), fvec(kdiag),
        fl(MIN_POSTERIOR_VARIANCE), fmat(Kss), fmat(L), fcols(P), fmat(mu), fvec(var), fopt(nl, fl),
        fopt(cov_minus, fmat),
        u, fl(tolL), fl(tolP), fl(tolM), fl(tolV), fl(tolN),
        fl(0.0 if cov_impl is None else tolC + C_TOL * t * EPS * (float(np.max(np.abs(cov_impl))) + 1e-5) + tolC_ref))
    # beyond c*cond*2^-52 ~ 0.1 the two Cholesky factorisations (LAPACK's and the model's operation order) may
    # not even agree on whether a pivot is positive: such cases keep the dense-reference checks only
    hopeless = not cl < 0.1
    ctx.h("correspondence_skipped_cond", hopeless)
    if not hopeless:
        cases_g.append(g)
        meta.append(dict(kind="gp", spec=spec, cond=cond))
    nontrivial = n >= 2 and well
    ctx.count(("gp", spec), nontrivial=bool(nontrivial))
    for k_, v in (("n", n), ("d", d), ("fantasies", m), ("ard", spec["ard"]), ("style", spec["style"]),
                  ("mean", "zero" if spec["mean"] is None else "scalar"),
                  ("kernel_form", "plain" if spec["cs2"] is None else "tuple"), ("box_params", spec["box"])):
        ctx.h(k_, v)
    return dict(n=n, d=d, m=m, cond=cond, mean0=float(mu[0, 0]), var0=float(var[0]), nlml=nl)


STEPS = ["chk_chol", "chk_predict", "chk_nlml", "chk_cov", "chk_upd", "chk_su"]


def run(ctx, replay=None):
    ctx.rule = ("cases: random GP regression problems (n 1..12, d 1..4 and (4%) d 11..14 with ARD, inputs in the unit cube incl. duplicates, "
                "near-duplicates and grids, 1..4 target/fantasy columns, 1..4 test points incl. training points, "
                "Matern-5/2 with/without ARD, plain kernel or (kernel, covariance_scale) tuple, zero/scalar mean, "
                "hyper-parameters log-uniform over typical ranges and (25%) over their full box constraints); every "
                "case runs kernel, Cholesky state, predict, likelihood, one incremental update, joint-sample "
                "covariance, fantasy-column independence and GaussianProcessRegression.predict; non-trivial = n >= 2 "
                "and the conditioning-scaled tolerance of the dense reference is below 1e-4 of the prediction scale "
                "(so a wrong formula cannot hide in the tolerance); distinct by content hash")
    rng = ctx.rng
    import gplin_composite
    ctx.rule += ("; PLUS composite kernels (WarpedKernel with 1..3 Warping blocks incl. non-contiguous ranges and "
                 "Kumaraswamy parameters away from 1, ProductKernelFunction, RangeKernelFunction, "
                 "ExponentialDecayResourcesKernelFunction as plain kernels): kernel matrices, predict, likelihood, "
                 "incremental-vs-scratch against an independent numpy implementation; PLUS a few LARGE data sets (n 64/128/260, covariance scale and noise at the ends of their boxes): likelihood and two predictions against the slogdet-based dense reference; PLUS, for every state, all input arrays are overwritten in place afterwards and predict / likelihood / update must be bit-identical; PLUS 1-D target vectors handed to the state classes directly; PLUS fit streams on GaussianProcessRegression (first fit, refit on more data with every optimiser restart failing through a harness-side mock, refit): predict = dense posterior of the data of that fit under get_params(); PLUS operation sequences over {fit, failing fit, set_params, reset_params, recompute_states(same dict object), recompute_states(fresh equal dict), grow the dict in place + recompute_states} with the same check after every step that (re)computes the state; PLUS the MCMC surrogate GPRegressionMCMC (short chains): every per-sample posterior state = dense posterior under its own hyper-parameter sample, after fit and after recompute_states")
    if replay is not None:
        if replay.get("kind") == "gpc":
            import warnings
            with warnings.catch_warnings():
                warnings.simplefilter("ignore")
                ck_cases, ck_meta = [], []
                gplin_composite.run_case(ctx, replay["spec"], ck_cases, ck_meta)
            for i in ctx.coq_bad_cases("ckernel", IMPORTS, PRELUDE, "chk_ckernel", ck_cases, shard=40):
                ctx.violation("correspondence", "model composite kernel matrix differs from the implementation", case=ck_meta[i],
                              failing_input=False, broken="correspondence chk_ckernel (model/GPLin.v warped/product/range kernel)")
            return
        if replay.get("kind") == "gpm":
            import warnings
            with warnings.catch_warnings():
                warnings.simplefilter("ignore")
                gplin_composite.run_mcmc(ctx, replay["spec"])
            return
        if replay.get("kind") == "gps":
            import warnings
            with warnings.catch_warnings():
                warnings.simplefilter("ignore")
                gplin_composite.run_seq(ctx, replay["spec"])
            return
        if replay.get("kind") == "gpf":
            import warnings
            with warnings.catch_warnings():
                warnings.simplefilter("ignore")
                gplin_composite.run_fit(ctx, replay["spec"])
            return
        if replay.get("kind") == "gpl":
            import warnings
            with warnings.catch_warnings():
                warnings.simplefilter("ignore")
                gplin_composite.run_large(ctx, replay["spec"])
            return
        if replay.get("kind") != "gp":
            return
        specs = [replay["spec"]]
        cspecs, lspecs, fspecs, qspecs, mspecs = [], [], [], [], []
    else:
        specs = [gen_spec(rng) for _ in range(ctx.n(400, 3000))]
        cspecs = [gplin_composite.gen_spec(rng) for _ in range(ctx.n(250, 2000))]
        lspecs = [gplin_composite.gen_large(rng, k_) for k_ in range(ctx.n(6, 36))]
        fspecs = [gplin_composite.gen_fit(rng, k_) for k_ in range(ctx.n(6, 40))]
        qspecs = [gplin_composite.gen_seq(rng, k_) for k_ in range(ctx.n(12, 80))]
        mspecs = [gplin_composite.gen_mcmc(rng, k_) for k_ in range(ctx.n(2, 10))]
    cases_k, cases_g, meta, kmeta, jit_cases, jit_meta = [], [], [], [], [], []
    ck_cases, ck_meta = [], []
    sq_cases, sq_meta = [], []
    jt_cases, jt_meta = [], []
    mc_cases, mc_meta = [], []
    import warnings
    with warnings.catch_warnings():
        warnings.simplefilter("ignore")
        for spec in specs:
            info = run_case(ctx, spec, cases_k, cases_g, meta, kmeta, jit_cases, jit_meta, jt_cases, jt_meta)
            if info is not None:
                ctx.sample(dict(kind="gp", n=info["n"], d=info["d"], fantasies=info["m"], cond=info["cond"],
                                impl_mean_0_0=info["mean0"], impl_var_0=info["var0"], impl_nlml=info["nlml"]))
        nsamp = 0
        for cspec in cspecs:
            try:
                info = gplin_composite.run_case(ctx, cspec, ck_cases, ck_meta)
            except (AssertionError, ValueError, IndexError, TypeError, np.linalg.LinAlgError) as e:
                info = None     # the real code (or the comparison of its output shapes) failed on a valid input
                ctx.violation("property", "[%s kernel] exception on a valid input: %r" % (cspec["sub"], e),
                              case=dict(kind="gpc", spec=cspec),
                              signature=dict(component="gp_posterior", kernel=cspec["sub"], quantity="exception"))
            if info is not None and info["sub"] == "warp" and info["warping_blocks"] >= 2 and nsamp < 1:
                nsamp += 1
                ctx.samples.insert(0, info)
        for lspec in lspecs:
            gplin_composite.run_large(ctx, lspec)
        for fspec in fspecs:
            gplin_composite.run_fit(ctx, fspec)
        for qspec in qspecs:
            gplin_composite.run_seq(ctx, qspec, sq_cases, sq_meta)
        for mspec in mspecs:
            gplin_composite.run_mcmc(ctx, mspec, mc_cases, mc_meta)
    for i in ctx.coq_bad_cases("kernel", IMPORTS, PRELUDE, "chk_kernel", cases_k, shard=40):
        ctx.violation("correspondence", "model Matern-5/2 kernel matrix differs from Matern52.forward/diagonal "
                      "beyond round-off", case=kmeta[i], failing_input=False,
                      broken="correspondence chk_kernel (model/GPLin.v kernel_matrix)")
    for i in ctx.coq_bad_cases("ckernel", IMPORTS, PRELUDE, "chk_ckernel", ck_cases, shard=40):
        ctx.violation("correspondence", "model composite kernel matrix (warped / product / range) differs from the "
                      "implementation beyond round-off", case=ck_meta[i], failing_input=False,
                      broken="correspondence chk_ckernel (model/GPLin.v warped/product/range kernel)")
    for i in ctx.coq_bad_cases("mcmc", IMPORTS, PRELUDE, "chk_mcmc", mc_cases, shard=10):
        ctx.violation("correspondence", "model mcmc_states / mcmc_predict differ from GPRegressionMCMC's per-sample states",
                      case=mc_meta[i], failing_input=False,
                      broken="correspondence chk_mcmc (model/GPLin.v mcmc_states, mcmc_predict)")
    for i in ctx.coq_bad_cases("joint", IMPORTS, PRELUDE, "chk_joint", jt_cases, shard=60):
        ctx.violation("correspondence", "model joint_samples layout differs from sample_joint on a fantasy matrix",
                      case=jt_meta[i], failing_input=False,
                      broken="correspondence chk_joint (model/GPLin.v joint_samples)")
    for i in ctx.coq_bad_cases("modelseq", IMPORTS, PRELUDE, "chk_model", sq_cases, shard=20):
        ctx.violation("correspondence", "model state machine (gstep / gpredict) and GaussianProcessRegression differ on "
                      "an operation sequence", case=sq_meta[i], failing_input=False,
                      broken="correspondence chk_model (model/GPLin.v gstep, gpredict)")
    for i in ctx.coq_bad_cases("jitter", IMPORTS, PRELUDE, "chk_jit", jit_cases, shard=60):
        ctx.violation("correspondence", "model add_jitter (search over the documented sequence) does not reproduce AddJitterOp's output", case=jit_meta[i],
                      failing_input=False, broken="correspondence chk_jit (model/GPLin.v add_jitter)")
    bad = ctx.coq_bad_cases("linalg", IMPORTS, PRELUDE, "chk_all", cases_g, shard=40)
    if bad:
        # which step? (diagnostics: one extra coqc run on the failing cases only)
        terms = ["(%s %s)" % (s, cases_g[i]) for i in bad[:6] for s in STEPS]
        try:
            vals = ctx.coq_eval("linalg_diag", IMPORTS, PRELUDE, terms)
        except Exception as e:  # pragma: no cover
            vals = ["?"] * len(terms)
            ctx.notes.append("diagnostic coq_eval failed: %r" % (e,))
        for k_, i in enumerate(bad):
            steps = [s for j, s in enumerate(STEPS) if k_ < 6 and vals[k_ * len(STEPS) + j] != "true"]
            ctx.violation("correspondence", "model (binary64) and implementation differ beyond "
                          "c*cond*2^-52 in step(s) %s (cond %.3g)" % (steps or "?", meta[i]["cond"]),
                          case=meta[i], failing_input=False,
                          broken="correspondence %s (model/GPLin.v)" % (",".join(steps) or "chk_all"))
