"""C16 — twin continuation on the real objects: (1) get_state / clone_from_state of RandomSearcher,
GridSearcher, GPFIFOSearcher, GPMultiFidelitySearcher at every prefix of generated histories
(also before the first suggestion, with pending trials), original vs clone under the same
continuation; the model's prediction for random / grid clones (model/Searcher.v rs_clone, gs_clone)
is compared with what the real clone does; (2) dill.dumps/loads of whole schedulers as Tuner.save
does, original vs restored under the same continuation."""
import contextlib
import io
import json
import logging
import os

import numpy as np

from common import lst, natlit, zlit, blit, optlit
from drivers import c06 as h

IMPORTS = h.IMPORTS
FINDINGS = os.path.join(os.path.dirname(os.path.dirname(os.path.dirname(os.path.abspath(__file__)))), "findings")
PRELUDE = h.PRELUDE + r"""
(* RandomSearcher clone: ctor args, history, continuation, what the real clone did:
   None = clone_from_state raised AssertionError; Some l = answers of the clone's continuation *)
Definition rc_case := (list Cf * bool * bool * option (list Cf) * option nat *
                       list (rs_event Cf) * list (rs_event Cf) * option (list (res (option Cf))))%type.
Definition chk_rc (c : rc_case) : bool :=
  let '(pts, dbg, ad, rc, size, hist, cont, obs) := c in
  match rs_ctor Cf Z Z.eqb msf (dedup Cf ceqb [] pts) (DLBool dbg) ad rc size 100 with
  | Err _ => false
  | Ok s =>
      let s1 := fst (rs_run Cf Z Z.eqb msf s hist) in
      match rs_clone Cf Z Z.eqb msf s1 (rs_get_state Cf Z s1), obs with
      | Err AssertDebugLog, None => true
      | Ok s1', Some o => let '(o', b) := rs_run_chk s1' cont in b && list_eqb oeqb o' o
      | _, _ => false
      end
  end.

(* GridSearcher clone: points, grid of the original, grid the clone rebuilt, allow_duplicates,
   history, continuation (true = get_config), answers of the clone *)
Definition gc_case := (list Cf * list Cf * list Cf * bool * list bool * list bool * list (option Cf))%type.
Definition chk_gc (c : gc_case) : bool :=
  let '(pts, grid_o, grid_c, ad, hist, cont, obs) := c in
  let shuffle := fun (sd : bool) (_ : list Cf) => if sd then grid_o else grid_c in
  let ev := map (fun b : bool => if b then GGet else GOther) in
  let s1 := fst (gs_run Cf Z Z.eqb msf (gs_ctor Cf Z [] shuffle (dedup Cf ceqb [] pts) true true ad) (ev hist)) in
  list_eqb (opt_eqb ceqb)
    (snd (gs_run Cf Z Z.eqb msf (gs_clone Cf Z [] shuffle false [] s1 (gs_get_state Cf Z s1)) (ev cont))) obs.
"""


def canon(c):
    if c is None:
        return None
    def val(v):
        v = v.item() if hasattr(v, "item") else v
        return v if isinstance(v, float) else repr(v)
    return tuple(sorted((k, val(v)) for k, v in c.items()))


def close(x, y, rel=1e-9):
    """structural equality; floats up to round-off (a restored GP searcher re-encodes its surrogate parameters,
    which changes last bits of later suggestions)"""
    if isinstance(x, float) and isinstance(y, float):
        return x == y or abs(x - y) <= rel * max(abs(x), abs(y))
    if isinstance(x, (tuple, list)) and isinstance(y, (tuple, list)):
        return len(x) == len(y) and all(close(a, b, rel) for a, b in zip(x, y))
    return x == y


def first_diff(ref, got):
    k = next((i for i, (x, y) in enumerate(zip(ref, got)) if x != y), min(len(ref), len(got)))
    return k, (ref[k] if k < len(ref) else None), (got[k] if k < len(got) else None)


def roundtrip(state, pickled):
    if not pickled:
        return state
    import dill
    return dill.loads(dill.dumps(state))


# --------------------------------------------------------------------------
# 1a. RandomSearcher twins
# --------------------------------------------------------------------------
def rs_play(s, enc, rec, ops, tid0, suggested, restrict):
    # [suggested] = (list of (trial, config) suggested so far, list of those registered as pending)
    """runs ops on searcher s; returns (event terms, answer terms, canonical trace)"""
    evs, obs, trace = [], [], []
    tid = tid0
    suggested, registered = (list(suggested[0]), list(suggested[1])) if isinstance(suggested, tuple) else (list(suggested), [])
    for op in ops:
        if op == "get":
            n0 = len(rec.log)
            try:
                with contextlib.redirect_stdout(io.StringIO()):
                    c = s.get_config(trial_id=str(tid))
                res, tr = "(Ok %s)" % enc.opt(c), ("cfg", canon(c))
            except AttributeError:
                c, res, tr = None, "(Err AttrErrorNone)", ("raised", "AttributeError")
            draws = [d for d in rec.log[n0:] if d[0] == ("pos" if restrict else "cfg")]
            evs.append("(RGet Cf %s)" % h.draws_term(enc, draws))
            obs.append(res)
            trace.append(tr)
            if c is not None:
                suggested.append((tid, c))
                tid += 1
        elif op == "pending" and suggested:
            t, c = suggested[-1]
            s.register_pending(str(t), config=c)
            registered.append((t, c))
            evs.append("(RPending Cf %s %s)" % (zlit(t), enc(c)))
        elif op == "failed" and suggested:
            t, c = registered[-1] if registered else suggested[len(suggested) // 2]
            s.evaluation_failed(str(t))
            evs.append("(RFailed Cf %s)" % zlit(t))
        elif op == "update" and suggested:
            t, c = suggested[0]
            s.on_trial_result(str(t), c, {"m": 0.5}, update=True)
            evs.append("(RUpdate Cf %s)" % zlit(t))
    return evs, obs, trace, tid, (suggested, registered)


def run_rs_twin(ctx, case):
    from syne_tune.optimizer.schedulers.searchers import RandomSearcher
    from syne_tune.config_space import config_space_size
    h.quiet()
    space = h.build_space(case["spec"])
    enc = h.Enc(space)
    size = config_space_size(space)
    imputed = [h.expected_initial(space, [p])[0] for p in (case["pts"] if case["pts"] is not None else [dict()])]
    results = []
    cuts = case["cuts"]
    for cut in cuts:
        hist, cont = case["ops"][:cut], case["ops"][cut:]
        recs, objs = [], []
        for _ in range(2):      # A = never interrupted, B = snapshot source
            rec = h.Recorder()
            restrict = [dict(c) for c in case["restrict"]] if case["restrict"] is not None else None
            s = RandomSearcher(space, metric="m", points_to_evaluate=case["pts"], allow_duplicates=case["allow_dup"],
                               restrict_configurations=restrict, debug_log=case["debug"], random_seed=case["seed"])
            rs = h.RecRandomState(case["seed"])
            rs.rec = rec
            s.set_random_state(rs)
            recs.append(rec)
            objs.append(s)
        a, b = objs
        with recs[0].patch():
            ev_a, _, tr_a, tid_a, sug_a = rs_play(a, enc, recs[0], hist, 0, [], case["restrict"] is not None)
        with recs[1].patch():
            ev_b, _, tr_b, tid_b, sug_b = rs_play(b, enc, recs[1], hist, 0, [], case["restrict"] is not None)
        assert tr_a == tr_b, "twins differ before the snapshot"
        restrict_on = case["restrict"] is not None
        interleaved = case.get("order") == "interleaved"
        half = len(cont) // 2

        def observe(c):
            """the clone restored the RNG *state* into its own RandomState object; observe its draws"""
            rec_c = h.Recorder()
            crs = h.RecRandomState(0)
            crs.set_state(c.random_state.get_state())
            crs.rec = rec_c
            c.set_random_state(crs)
            return rec_c

        def make_clone(st):
            try:
                with contextlib.redirect_stdout(io.StringIO()):
                    return b.clone_from_state(st), None
            except AssertionError:
                return None, "AssertionError"
        # ONE snapshot dict; the first clone gets it directly or through dill, every later consumer gets the dict itself
        state = b.get_state()
        clone, clone_exc = make_clone(roundtrip(state, case["pickle_state"]))
        clone2 = None
        if interleaved and clone is not None:
            clone2, _ = make_clone(state)
        rng_bad = clone is not None and not rng_state_equal(state["random_state"], clone.get_state()["random_state"])
        with recs[0].patch():
            _, _, tr_orig, _, _ = rs_play(a, enc, recs[0], cont, tid_a, sug_a, restrict_on)
        sig = dict(searcher="RandomSearcher", facility="clone_from_state", debug_log=case["debug"],
                   restrict_configurations=restrict_on, allow_duplicates=case["allow_dup"],
                   order="interleaved" if interleaved else "sequential")

        def compare(tr, who):
            if tr != tr_orig[:len(tr)] or (who != "original_first_half" and len(tr) != len(tr_orig)):
                k, x, y = first_diff(tr_orig, tr)
                ev = "continuation_raised_" + y[1] if (y is not None and y[0] == "raised") else "continuation_diverged"
                results.append((cut, dict(sig, event=ev, consumer=who, state_pickled=bool(case["pickle_state"] and who == "clone")),
                                "after snapshot at %d (%s): uninterrupted %s, %s %s" % (cut, who, x, who, y)))
        tr_b1, tid_b1, sug_b1 = [], tid_b, sug_b
        if interleaved:          # the snapshot source goes on before the clone runs
            with recs[1].patch():
                _, _, tr_b1, tid_b1, sug_b1 = rs_play(b, enc, recs[1], cont[:half], tid_b, sug_b, restrict_on)
            compare(tr_b1, "original_first_half")
        if rng_bad:
            results.append((cut, dict(sig, event="random_state_not_fully_restored", consumer="clone"),
                            "after snapshot at %d: RandomState of the clone differs from the one get_state returned" % cut))
        if clone is None:
            obs_t = "None"
            results.append((cut, dict(sig, event="clone_raised_" + clone_exc), "clone_from_state raised " + clone_exc))
        else:
            rec_c = observe(clone)
            with rec_c.patch():
                ev_c, obs_c, tr_clone, _, _ = rs_play(clone, enc, rec_c, cont, tid_b, sug_b, restrict_on)
            obs_t = "(Some %s)" % lst(obs_c)
            compare(tr_clone, "clone")
            cont_terms = ev_c
            if clone2 is None:       # second restore from the SAME dict after the first clone ran
                clone2, _ = make_clone(state)
        # the snapshot source continues alongside
        with recs[1].patch():
            _, _, tr_b2, _, _ = rs_play(b, enc, recs[1], cont[half:] if interleaved else cont, tid_b1, sug_b1, restrict_on)
        compare(tr_b1 + tr_b2, "original")
        if clone2 is not None:
            rec_c2 = observe(clone2)
            with rec_c2.patch():
                _, _, tr_clone2, _, _ = rs_play(clone2, enc, rec_c2, cont, tid_b, sug_b, restrict_on)
            compare(tr_clone2, "second_clone")
        if clone is None:
            cont_terms = []
        term = "(%s, %s, %s, %s, %s, %s, %s, %s)" % (
            lst([enc(c) for c in imputed]), blit(case["debug"]), blit(case["allow_dup"]),
            optlit(case["restrict"], lambda r: lst([enc(c) for c in r])),
            optlit(size if (size is not None and size < 4000) else None, natlit),
            lst(ev_b), lst(cont_terms), obs_t)
        # model comparison only where the first clone ran before any other consumer of the snapshot
        results.append((cut, None, term if not interleaved else None))
    return results


def gen_rs_twin_restrict_dup(rng):
    """restrict_configurations + allow_duplicates=True, a trial registered and failed before the snapshot; the
    reference twin is NEVER snapshotted (get_state must be observationally pure)"""
    spec = [["x", "dom", ["randint", 0, 9]], ["y", "dom", ["choice", ["a", "b"]]]]
    rc = [{"x": x, "y": y} for x, y in rng.sample([(i, j) for i in range(10) for j in "ab"], rng.randint(5, 9))]
    hist = ["get", "pending", "failed", "get", "pending"] + rng.choice([[], ["failed"], ["get", "pending", "failed"]])
    cont = ["get"] * 8
    return dict(kind="rs_twin", spec=spec, pts=[], restrict=rc, allow_dup=True, debug=True, seed=rng.randrange(10 ** 6),
                ops=hist + cont, cuts=[len(hist)], pickle_state=rng.random() < 0.4, order=rng.choice(["sequential", "interleaved"]),
                directed="restrict_allow_duplicates_failed_before_snapshot")


def gen_rs_twin(rng):
    case = h.gen_rs_case(rng)
    n = len(case["ops"])
    cuts = sorted(set([0, n] + [rng.randint(0, n) for _ in range(3)]))
    case.update(kind="rs_twin", cuts=cuts, pickle_state=rng.random() < 0.4,
                order=rng.choice(["sequential", "interleaved"]))
    return case


# --------------------------------------------------------------------------
# 1b. GridSearcher twins
# --------------------------------------------------------------------------
def run_gs_twin(ctx, case):
    from syne_tune.optimizer.schedulers.searchers import GridSearcher
    from syne_tune.config_space import Float, Integer
    h.quiet()
    space = h.build_space(case["spec"])
    enc = h.Enc(space)
    ns = None
    if case["num_samples"] is not None:
        ns = {k: case["num_samples"] for k, d in space.items() if isinstance(d, (Float, Integer))}
    kw = dict(metric="m", points_to_evaluate=case["pts"], num_samples=ns, shuffle_config=case["shuffle"],
              allow_duplicates=case["allow_dup"])
    if case["seeded"]:
        kw["random_seed"] = case["seed"]
    imputed = [h.expected_initial(space, [p])[0] for p in (case["pts"] if case["pts"] is not None else [dict()])]

    def play(s, ops, base):
        out = []
        for i, g in enumerate(ops):
            if g:
                out.append(s.get_config(trial_id=str(base + i)))
            else:
                s.evaluation_failed(str(base + i))
        return out
    results = []
    for cut in case["cuts"]:
        hist, cont = case["ops"][:cut], case["ops"][cut:]
        a = GridSearcher(space, **{k: (dict(v) if isinstance(v, dict) else v) for k, v in kw.items()})
        b = GridSearcher(space, **{k: (dict(v) if isinstance(v, dict) else v) for k, v in kw.items()})
        assert [canon(c) for c in play(a, hist, 0)] == [canon(c) for c in play(b, hist, 0)]
        interleaved = case.get("order") == "interleaved"
        half = len(cont) // 2
        # ONE snapshot dict; the first clone gets it directly or through dill, every later consumer the dict itself
        state = b.get_state()
        clone = b.clone_from_state(roundtrip(state, case["pickle_state"]))
        clone2 = b.clone_from_state(state) if interleaved else None
        if not rng_state_equal(state["random_state"], clone.get_state()["random_state"]):
            results.append((cut, dict(searcher="GridSearcher", facility="clone_from_state", consumer="clone",
                                      event="random_state_not_fully_restored"),
                            "after snapshot at %d: RandomState of the clone differs from the one get_state returned" % cut))
        o_orig = play(a, cont, cut)
        o_b1 = play(b, cont[:half], cut) if interleaved else []      # the snapshot source goes on first
        o_clone = play(clone, cont, cut)
        if clone2 is None:
            clone2 = b.clone_from_state(state)                      # second restore after the first clone ran
        o_b = o_b1 + play(b, cont[half:] if interleaved else cont, cut + (half if interleaved else 0))
        o_clone2 = play(clone2, cont, cut)
        grid_o = [dict(zip(a.hp_keys, v)) for v in a.hp_values_combinations]
        grid_c = [dict(zip(clone.hp_keys, v)) for v in clone.hp_values_combinations]
        same_grid = [canon(c) for c in grid_o] == [canon(c) for c in grid_c]
        ref = [canon(c) for c in o_orig]
        for who, out in (("clone", o_clone), ("original", o_b), ("second_clone", o_clone2)):
            got = [canon(c) for c in out]
            if got != ref:
                k, x, y = first_diff(ref, got)
                results.append((cut, dict(searcher="GridSearcher", facility="clone_from_state", event="continuation_diverged",
                                          consumer=who, state_pickled=bool(case["pickle_state"] and who == "clone"),
                                          order="interleaved" if interleaved else "sequential",
                                          shuffled_with_non_default_seed=bool(
                                              who != "original" and case["shuffle"] and case["seeded"] and not same_grid),
                                          allow_duplicates=case["allow_dup"]),
                                "after snapshot at %d (%s): uninterrupted %s, %s %s" % (cut, who, x, who, y)))
        term = "(%s, %s, %s, %s, %s, %s, %s)" % (
            lst([enc(c) for c in imputed]), lst([enc(c) for c in grid_o]), lst([enc(c) for c in grid_c]),
            blit(case["allow_dup"]), lst([blit(g) for g in hist]), lst([blit(g) for g in cont]),
            lst([enc.opt(c) for c in o_clone]))
        results.append((cut, None, term))
    return results


def gen_gs_twin(rng, on_grid=False):
    # on_grid: initial points taken from the grid, the continuation runs through the whole grid
    case = h.gen_gs_on_grid_case(rng) if on_grid else h.gen_gs_case(rng)
    if on_grid:
        case["shuffle"] = rng.random() < 0.5
    n = len(case["ops"])
    case.update(kind="gs_twin", seeded=rng.random() < 0.6, pickle_state=rng.random() < 0.4,
                order=rng.choice(["sequential", "interleaved"]),
                cuts=sorted(set([0, n] + [rng.randint(0, n) for _ in range(3)])))
    return case


# --------------------------------------------------------------------------
# 1c. GP searchers (single- and multi-fidelity) behind their schedulers: twin schedulers, the
#     searcher of one is replaced by its clone (public attribute of the searcher API: get_state /
#     clone_from_state; the scheduler keeps its searcher in ._searcher, set harness-side)
# --------------------------------------------------------------------------
def gen_gp_twin(rng, nearly_exhausted=False):
    if nearly_exhausted:
        n = rng.choice([120, 200])
        spec = [["x", "dom", ["randint", 0, n - 1]]]
        k = n - rng.randint(2, 6)
        return dict(kind="gp_twin", sched="fifo-bayesopt", spec=spec, pts=[], seed=rng.randrange(10 ** 6),
                    num_init_random=10 ** 6, ops=["suggest", "complete"] * (k + 6), cut=2 * k, max_suggest=k + 6,
                    metrics=[0.5], pickle_state=False, directed="nearly_exhausted_finite_space", order="sequential")
    kind = rng.choice(["fifo-bayesopt", "fifo-bayesopt", "hb-stopping-bayesopt", "hb-promotion-bayesopt"])
    spec = h.gen_space_spec(rng, finite_only=rng.random() < 0.25, nmax=2, consts=rng.random() < 0.3)
    space = h.build_space(spec)
    n = rng.randint(7, 11)
    # mostly suggest / complete, so that observations arrive and model-based steps happen before AND after the snapshot
    ops = [rng.choice(["suggest", "suggest", "complete", "complete", "report", "error"] +
                      (["remove"] if kind.startswith("hb-") else [])) for _ in range(2 * n)]
    so = dict(opt_skip_period=rng.choice([1, 2, 3]), opt_skip_init_length=rng.choice([1, 2, 3]),
              num_init_candidates=rng.choice([5, 8, 15]), initial_scoring=rng.choice(["thompson_indep", "acq_func"]))
    if kind.startswith("hb-") and rng.random() < 0.4:
        so["opt_skip_num_max_resource"] = True
    cuts = sorted(set([rng.randint(0, len(ops)) for _ in range(2)] + [rng.randint(len(ops) // 3, len(ops) - 2)]))
    return dict(kind="gp_twin", sched=kind, spec=spec, pts=h.gen_points(rng, spec, space), seed=rng.randrange(10 ** 6),
                # constructor options which must survive the clone: an explicit local optimiser class
                local_minimizer=rng.choice([None, None, "NoOptimization", "corner"]),
                pre_snapshots=sorted(rng.sample(range(2 * n), 3)) if rng.random() < 0.5 else [],
                num_init_random=rng.choice([1, 2, 3]), search_options=so, ops=ops, cuts=cuts, max_suggest=n,
                metrics=[round(rng.uniform(0, 1), 3) for _ in range(4 * n)], pickle_state=rng.random() < 0.4,
                order=rng.choice(["sequential", "interleaved"]))


def gen_gp_twin_silent(rng, kind):
    """multi-fidelity GP searcher early in a run, first rung level 3: k trials pending, trial 0 reports up to the first
    rung, the next suggestion is model-based, then the other trials finish BEFORE the first rung level (no observation;
    on_trial_complete cleans up their pending evaluations): the number of distinct configurations in the state drops
    below num_init_random after model-based search has started; snapshots around that point"""
    k = rng.randint(3, 4)
    spec = [["lr", "dom", ["uniform", 0.0, 1.0]], ["width", "dom", ["randint", 1, 100]]]
    hist = ["suggest"] * k + [["report", 0]] * 3 + ["suggest"] + [["complete", i] for i in range(1, k)]
    cont = ["suggest", ["report", k], "suggest", ["report", k + 1], "suggest"]
    return dict(kind="gp_twin", sched=kind, spec=spec, pts=[], seed=rng.randrange(10 ** 6), num_init_random=k,
                grace_period=3, search_options=dict(opt_nstarts=1, opt_maxiter=10), ops=hist + cont, workers=8,
                cuts=[len(hist) - (k - 1), len(hist) - 1, len(hist)], max_suggest=len(hist) + len(cont),
                metrics=[round(rng.uniform(0, 1), 3) for _ in range(20)], pickle_state=rng.random() < 0.3,
                order="sequential", directed_history="trials_finish_before_first_rung_after_first_model_based_suggestion")


def gen_gp_twin_many_pending(rng, kind):
    """model-based phase with trials 8, 9, 10 pending at the snapshot (registration order 8, 9, 10; as strings
    '10' < '8' < '9') and further suggestions while they are still pending (fantasies over the pending evaluations)"""
    spec = [["x", "dom", ["uniform", 0.0, 1.0]], ["y", "dom", ["uniform", -1.0, 1.0]]]
    hist = ["suggest", "complete"] * 8 + ["suggest"] * 3
    cont = ["suggest", "suggest", ["complete", 8], "suggest"]
    return dict(kind="gp_twin", sched=kind, spec=spec, pts=[], seed=rng.randrange(10 ** 6), num_init_random=3,
                search_options=dict(opt_nstarts=1, opt_maxiter=5, initial_scoring=rng.choice(["thompson_indep", "acq_func"])),
                ops=hist + cont, workers=8, cuts=[len(hist)], max_suggest=len(hist) + len(cont),
                metrics=[round(rng.uniform(0, 1), 3) for _ in range(30)], pickle_state=rng.random() < 0.5,
                order="sequential", directed_history="three_pending_trials_8_9_10_at_snapshot")


def gen_gp_twin_restrict(rng):
    """GP searcher with restrict_configurations (24 configurations), snapshot INSIDE the initial random phase after a few
    random draws; the clone is built from a FRESHLY constructed searcher (template) with the snapshot"""
    import itertools
    spec = [["a", "dom", ["randint", 0, 5]], ["b", "dom", ["choice", ["p", "q", "r", "s"]]]]
    allc = [{"a": a, "b": b} for a, b in itertools.product(range(6), "pqrs")]
    rng.shuffle(allc)
    k = rng.randint(2, 4)
    hist = ["suggest", "complete"] * k
    cont = ["suggest", "complete"] * 6
    return dict(kind="gp_twin", sched="fifo-bayesopt", spec=spec, pts=[], seed=rng.randrange(10 ** 6), num_init_random=7,
                search_options=dict(restrict_configurations=allc[:rng.choice([16, 24])], opt_nstarts=1), template="fresh",
                ops=hist + cont, cuts=[len(hist)], max_suggest=k + 6, metrics=[round(rng.uniform(0, 1), 3) for _ in range(20)],
                pickle_state=rng.random() < 0.5, order="sequential", directed_history="restrict_configurations_snapshot_in_random_phase")


def gen_gp_twin_nonfinite_pending(rng, kind):
    """a PENDING trial reports NaN / inf (rejected as data, marked failed, its pending evaluation stays); snapshot after
    that report, then model-based suggestions which fantasise over the pending evaluations"""
    spec = [["x", "dom", ["uniform", 0.0, 1.0]], ["y", "dom", ["uniform", -1.0, 1.0]]]
    k = rng.randint(4, 5)
    bad = rng.choice(["nan", "inf", "-inf"])
    hist = ["suggest", "complete"] * k + ["suggest", "suggest", ["complete" if kind.startswith("fifo") else "report", k, bad]]
    cont = ["suggest", "suggest", ["complete", k + 1], "suggest"]
    return dict(kind="gp_twin", sched=kind, spec=spec, pts=[], seed=rng.randrange(10 ** 6), num_init_random=3,
                search_options=dict(opt_nstarts=1, opt_maxiter=5), ops=hist + cont, workers=8, cuts=[len(hist)],
                max_suggest=len(hist) + len(cont), metrics=[round(rng.uniform(0, 1), 3) for _ in range(30)],
                pickle_state=rng.random() < 0.5, order="sequential", directed_history="non_finite_report_of_pending_trial_before_snapshot")


def gen_gp_twin_repeated_snapshots(rng, kind):
    """several get_state calls on ONE searcher object; between two of them a pending trial fails and a new trial is
    started, no new observation; the clone is restored from the LATER snapshot"""
    spec = [["a", "dom", ["randint", 0, 5]], ["b", "dom", ["choice", ["p", "q", "r"]]]]
    k = rng.randint(3, 4)
    hist = ["suggest", "complete"] * k + ["suggest", "suggest"]
    first = len(hist)
    hist += [["error", k], "suggest"] + rng.choice([[], [["error", k + 1], "suggest"]])
    cont = ["suggest", ["complete", k + 2], "suggest", "suggest", "complete", "suggest"]
    return dict(kind="gp_twin", sched=kind, spec=spec, pts=[], seed=rng.randrange(10 ** 6), num_init_random=2,
                search_options=dict(opt_nstarts=1, opt_maxiter=5), ops=hist + cont, workers=8, cuts=[len(hist)],
                pre_snapshots=[first - 2, first, first + 2], max_suggest=len(hist) + len(cont),
                metrics=[round(rng.uniform(0, 1), 3) for _ in range(30)], pickle_state=rng.random() < 0.5,
                order="sequential", directed_history="several_snapshots_of_one_searcher_failure_and_new_trial_in_between")


def rng_state_equal(a, b):
    """all five entries of RandomState.get_state(): name, key array, pos, has_gauss, cached_gaussian"""
    return (len(a) == len(b) == 5 and a[0] == b[0] and np.array_equal(np.asarray(a[1]), np.asarray(b[1]))
            and int(a[2]) == int(b[2]) and int(a[3]) == int(b[3]) and float(a[4]) == float(b[4]))


class Player:
    """drives one scheduler with the Tuner's protocol; records a canonical trace"""

    def __init__(self, sch, case):
        self.sch, self.case = sch, case
        self.running, self.paused, self.epoch = {}, {}, {}
        self.next_id = self.mi = self.n_sug = 0
        self.trace = []
        self.probe = None      # optional: extra public observation recorded after every suggest

    def step(self, op):
        from syne_tune.backend.trial_status import Trial
        sch, case = self.sch, self.case
        sync = case["sched"] in ("synchb", "dehb")
        target = None
        metric_override = None
        if isinstance(op, (list, tuple)):       # [name, trial id (, metric value)]: the event concerns this running trial
            if len(op) == 3:
                metric_override = op[2]
            op, target = op[0], op[1]
        if op == "suggest" or not self.running:
            if self.n_sug >= case["max_suggest"] or len(self.running) >= (3 if sync else case.get("workers", 4)):
                if not self.running:
                    return
                op = "report"
            else:
                with contextlib.redirect_stdout(io.StringIO()):
                    try:
                        sg = sch.suggest(self.next_id)
                    except Exception as e:  # noqa
                        self.trace.append(("suggest_raised", type(e).__name__))
                        return
                self.n_sug += 1
                if sg is None:
                    self.trace.append(("suggest", None))
                    return
                self.trace.append(("suggest", sg.spawn_new_trial_id, sg.checkpoint_trial_id, canon(sg.config)))
                if self.probe is not None:
                    self.trace.append(("probe", self.probe(sch)))
                if sg.spawn_new_trial_id:
                    tr = Trial(trial_id=self.next_id, config=sg.config, creation_time=h.T0)
                    sch.on_trial_add(tr)
                    self.running[self.next_id] = tr
                    self.epoch[self.next_id] = 0
                    self.next_id += 1
                else:
                    t = sg.checkpoint_trial_id
                    if t in self.paused:
                        tr = self.paused.pop(t)
                        if sg.config is not None:
                            tr = Trial(trial_id=t, config=sg.config, creation_time=h.T0)
                        self.running[t] = tr
                return
        if op == "remove" and not sync:
            # a trial ends WITHOUT ever reporting (stopped from outside): the scheduler removes it, multi-fidelity
            # searchers drop its pending evaluations, and it leaves no observation behind
            silent = [x for x in sorted(self.running) if self.epoch[x] == 0]
            if silent:
                t = silent[0]
                sch.on_trial_remove(self.running[t])
                self.trace.append(("removed_without_result", t))
                del self.running[t]
                return
            op = "report"
        t = target if target in self.running else sorted(self.running)[self.mi % len(self.running)]
        tr = self.running[t]
        self.mi += 1
        if sync and op in ("error", "complete", "remove"):
            op = "report"
        if op == "error":
            sch.on_trial_error(tr)
            self.trace.append(("error", t))
            del self.running[t]
            return
        self.epoch[t] += 1
        mv = case["metrics"][self.mi % len(case["metrics"])] if metric_override is None else metric_override
        res = {"m": float(mv), "epoch": self.epoch[t]}          # 'nan' / 'inf' / '-inf' are stored as strings
        dec = sch.on_trial_result(tr, res)
        self.trace.append(("result", t, self.epoch[t], dec))
        if dec == "STOP":
            sch.on_trial_remove(tr)
            del self.running[t]
        elif dec == "PAUSE":
            sch.on_trial_remove(tr)
            self.paused[t] = tr
            del self.running[t]
        elif op == "complete" or self.epoch[t] >= 9:
            sch.on_trial_complete(tr, res)
            del self.running[t]


def make_gp_scheduler(case, space):
    return h.make_scheduler(case, space)


def run_gp_twin(ctx, case):
    """all snapshot positions of the case"""
    viols, n_after = [], 0
    for cut in case.get("cuts", [case.get("cut", 0)]):
        v, n = run_gp_twin_at(ctx, dict(case, cut=cut))
        viols += v
        n_after += n
    return viols, n_after


def params_probe(sch):
    """surrogate model parameters (public searcher.model_parameters()): frozen / refitted alike in original and clone"""
    try:
        return tuple(sorted((k, float(v)) for k, v in sch.searcher.model_parameters().items()))
    except Exception as e:  # noqa
        return "raised " + type(e).__name__


def run_gp_twin_at(ctx, case):
    """returns (list of (signature, text), number of continuation steps). pa = never interrupted; the searcher of
    pb is replaced by a clone, the searcher of pc by a SECOND clone restored from the same snapshot dict
    (clone_from_state invalidates the searcher it is called on, so the original cannot continue)"""
    h.quiet()
    space = h.build_space(case["spec"])
    with contextlib.redirect_stdout(io.StringIO()):
        pa, pb, pc = (Player(make_gp_scheduler(case, space), case) for _ in range(3))
    for p in (pa, pb, pc):
        p.probe = params_probe
    cut = case["cut"]
    for i, op in enumerate(case["ops"][:cut]):
        if i in case.get("pre_snapshots", ()) and pb.n_sug > 0:
            # earlier snapshots taken from the SAME searcher object (and not used): get_state must neither change the
            # searcher nor leave anything behind that a later snapshot reuses
            with contextlib.redirect_stdout(io.StringIO()):
                pb.sch.searcher.get_state()
        for p in (pa, pb, pc):
            p.step(op)
    assert pa.trace == pb.trace == pc.trace, "twins differ before the snapshot"
    name = type(pb.sch.searcher).__name__
    interleaved = case.get("order") == "interleaved"
    with contextlib.redirect_stdout(io.StringIO()):
        if cut == 0 or pa.n_sug == 0:
            # 'before the first suggestion': the searcher API requires configure_scheduler before use
            for p in (pa, pb, pc):
                p.sch.searcher.configure_scheduler(p.sch)
        state = pb.sch.searcher.get_state()       # ONE snapshot dict

    def install(p, st):
        with contextlib.redirect_stdout(io.StringIO()):
            template = p.sch.searcher
            if case.get("template") == "fresh":
                # a searcher constructed anew with the same arguments (e.g. after a restart) provides the immutable part
                fresh = make_gp_scheduler(case, space)
                fresh.searcher.configure_scheduler(fresh)
                template = fresh.searcher
            clone = template.clone_from_state(st)
            p.sch._searcher = clone           # the only way to hand the clone to the scheduler (no public setter)
            clone.configure_scheduler(p.sch)  # 'has to be called before the searcher can be used'
    install(pb, roundtrip(state, case["pickle_state"]))
    viols = []
    # direct check: the generator state the clone continues from is the one get_state() returned
    restored = pb.sch.searcher.get_state()["random_state"]
    if not rng_state_equal(state["random_state"], restored):
        viols.append((dict(searcher=name, facility="clone_from_state", event="random_state_not_fully_restored",
                           consumer="clone", has_gauss_at_snapshot=int(state["random_state"][3])),
                      "after snapshot at op %d: RandomState of the snapshot (pos %s, has_gauss %s, cached %r) vs clone "
                      "(pos %s, has_gauss %s, cached %r)" % ((cut,) + tuple(state["random_state"][2:5]) + tuple(restored[2:5]))))
    n0 = len(pa.trace)
    rest = case["ops"][cut:]
    for op in rest:
        pa.step(op)
    if interleaved:
        install(pc, state)
        for op in rest:
            pb.step(op)
            pc.step(op)
    else:
        for op in rest:
            pb.step(op)
        install(pc, state)                    # second restore from the SAME dict after the first clone ran
        for op in rest:
            pc.step(op)
    for who, p in (("clone", pb), ("second_clone", pc)):
        if not close(p.trace, pa.trace):
            k = next((i for i, (x, y) in enumerate(zip(pa.trace, p.trace)) if not close(x, y)),
                     min(len(pa.trace), len(p.trace)))
            x = pa.trace[k] if k < len(pa.trace) else None
            y = p.trace[k] if k < len(p.trace) else None
            ev = "clone_answers_none_or_other_config_in_random_phase" if case.get("directed") else "continuation_diverged"
            so = case.get("search_options") or {}
            stateful = bool(so.get("opt_skip_period", 1) > 1 or so.get("opt_skip_num_max_resource"))
            # the consumer got the very predicate object of the snapshot and another running object has it too
            shared_live = (not case["pickle_state"]) and (who == "second_clone" or interleaved)
            viols.append((dict(searcher=name, facility="clone_from_state", event=ev, consumer=who,
                               predicate_shared_with_live_object=bool(stateful and shared_live),
                               order="interleaved" if interleaved else "sequential",
                               shares="encoded_tuning_job_state" if who == "second_clone" else "nothing",
                               state_pickled=bool(case["pickle_state"] and who == "clone"),
                               finite_space_nearly_exhausted=bool(case.get("directed"))),
                          "after snapshot at op %d (%s): uninterrupted %s, %s %s" % (cut, who, x, who, y)))
    return viols, len(pa.trace) - n0


# --------------------------------------------------------------------------
# 2. whole schedulers through dill (Tuner.save)
# --------------------------------------------------------------------------
DILL_KINDS = ["fifo-random", "fifo-grid", "fifo-bayesopt", "hb-stopping-random", "hb-promotion-random",
              "hb-stopping-bayesopt", "pbt", "synchb", "dehb", "median"]


def gen_dill_case(rng, kind):
    gp = "bayesopt" in kind
    spec = h.gen_space_spec(rng, finite_only=(kind == "fifo-grid" and rng.random() < 0.7), small=kind == "fifo-grid",
                            nmax=3)
    space = h.build_space(spec)
    n = rng.randint(5, 8) if gp else rng.randint(8, 30)
    ops = [rng.choice(["suggest", "suggest", "suggest", "report", "report", "complete", "error"]) for _ in range(2 * n)]
    return dict(kind="dill", sched=kind, mode=rng.choice(["min", "max"]), spec=spec, pts=h.gen_points(rng, spec, space),
                seed=rng.randrange(10 ** 6), search_options=dict(opt_nstarts=rng.choice([1, 2])) if gp else None,
                num_init_random=rng.choice([1, 2, 3, 50]), ops=ops, max_suggest=n,
                cuts=sorted(set([0] + [rng.randint(0, len(ops)) for _ in range(1 if gp else 3)])),
                metrics=[round(rng.uniform(0, 1), 3) for _ in range(4 * n)])


def gen_dill_multiworker(rng, kind):
    """several workers: the checkpoint is taken right after a model-based suggestion (its trial pending), and the
    next suggestions arrive BEFORE any new result: the restored scheduler must not refit / re-decide differently"""
    spec = [["x", "dom", ["uniform", 0.0, 1.0]], ["y", "dom", ["uniform", -1.0, 1.0]],
            rng.choice([["k", "dom", ["randint", 1, 6]], ["lr", "dom", ["loguniform", 1e-4, 0.1]]])]
    k = rng.randint(4, 6)
    prefix = ["suggest", "complete"] * k + ["suggest"]
    suffix = ["suggest", "suggest", "complete", "complete", "suggest", "suggest", "complete", "suggest"]
    return dict(kind="dill", sched=kind, spec=spec, pts=rng.choice([None, []]), seed=rng.randrange(10 ** 6),
                num_init_random=rng.choice([2, 3]), ops=prefix + suffix, max_suggest=len(prefix) + len(suffix),
                cuts=[len(prefix)], metrics=[round(rng.uniform(0, 1), 3) for _ in range(40)],
                # random restarts of the parameter fit: a refit on unchanged data is then not a no-op
                search_options=dict(opt_nstarts=2, opt_maxiter=rng.choice([3, 15])),
                directed="checkpoint_with_pending_trial_then_suggest_before_result")


def gen_dill_rungs(rng, kind):
    """Hyperband with random searcher, mode max or min: several trials report at the rung levels before the round trip
    (rungs hold >= 2 different metric values), then >= 10 further reports"""
    spec = h.gen_space_spec(rng, finite_only=False, nmax=2, consts=False)
    n = rng.randint(6, 10)
    pre = ["suggest"] * 3 + [rng.choice(["report", "report", "report", "suggest"]) for _ in range(rng.randint(8, 16))]
    post = [rng.choice(["report", "report", "report", "suggest"]) for _ in range(rng.randint(14, 24))]
    return dict(kind="dill", sched=kind, mode=rng.choice(["max", "max", "min"]), spec=spec, pts=[], seed=rng.randrange(10 ** 6),
                num_init_random=2, ops=pre + post, max_suggest=n, cuts=[len(pre)],
                metrics=[round(rng.uniform(0, 1), 3) for _ in range(40)], directed="rungs_filled_before_round_trip")


def make_dill_scheduler(case, space):
    kind = case["sched"]
    if kind == "synchb":
        from syne_tune.optimizer.schedulers.synchronous import SynchronousGeometricHyperbandScheduler
        return SynchronousGeometricHyperbandScheduler(space, searcher="random", metric="m", mode=case.get("mode", "min"),
                                                      resource_attr="epoch", max_resource_level=9, grace_period=1,
                                                      reduction_factor=3, random_seed=case["seed"],
                                                      points_to_evaluate=case["pts"],
                                                      search_options=dict(debug_log=False))
    if kind == "median":
        from syne_tune.optimizer.schedulers import FIFOScheduler
        from syne_tune.optimizer.schedulers.median_stopping_rule import MedianStoppingRule
        inner = FIFOScheduler(space, searcher="random", metric="m", mode=case.get("mode", "min"), random_seed=case["seed"],
                              points_to_evaluate=case["pts"], search_options=dict(debug_log=False))
        return MedianStoppingRule(inner, resource_attr="epoch", metric="m", grace_time=1, grace_population=2)
    return h.make_scheduler(case, space)


def run_dill_case(ctx, case):
    import dill
    h.quiet()
    space = h.build_space(case["spec"])
    out = []
    for cut in case["cuts"]:
        with contextlib.redirect_stdout(io.StringIO()):
            pa = Player(make_dill_scheduler(case, space), case)
        for op in case["ops"][:cut]:
            pa.step(op)
        blob = dill.dumps(pa.sch)
        pb = Player(dill.loads(blob), case)
        for k in ("running", "paused", "epoch"):
            setattr(pb, k, dict(getattr(pa, k)))
        pb.next_id, pb.mi, pb.n_sug = pa.next_id, pa.mi, pa.n_sug
        n0 = len(pa.trace)
        for op in case["ops"][cut:]:
            pa.step(op)
            pb.step(op)
        ta, tb = pa.trace[n0:], pb.trace
        if ta != tb:
            k = next((i for i, (x, y) in enumerate(zip(ta, tb)) if x != y), min(len(ta), len(tb)))
            out.append((cut, dict(scheduler=case["sched"], facility="dill", event="continuation_diverged"),
                        "after dill round trip at op %d: original %s, restored %s" % (
                            cut, ta[k] if k < len(ta) else None, tb[k] if k < len(tb) else None)))
        else:
            out.append((cut, None, len(ta)))
    return out


# --------------------------------------------------------------------------
def directed_cases():
    """the minimal replays of the known findings run on every invocation"""
    rs_spec = [["x", "dom", ["randint", 0, 9]]]
    rc = [{"x": i} for i in range(0, 10, 2)]
    return [
        dict(kind="gs_twin", spec=[["a", "dom", ["choice", ["p", "q", "r"]]], ["b", "dom", ["randint", 0, 4]]],
             pts=[], shuffle=True, allow_dup=False, seed=3, seeded=True, num_samples=None, ops=[True] * 16, cuts=[5],
             pickle_state=False),
        dict(kind="gs_twin", spec=[["a", "dom", ["choice", ["p", "q", "r"]]], ["b", "dom", ["randint", 0, 4]]],
             pts=[], shuffle=False, allow_dup=True, seed=3, seeded=False, num_samples=None, ops=[True] * 18, cuts=[14],
             pickle_state=False),
        dict(kind="rs_twin", spec=rs_spec, pts=[], restrict=None, allow_dup=False, debug=False, seed=1,
             ops=["get"] * 6, cuts=[2], pickle_state=False),
        dict(kind="rs_twin", spec=rs_spec, pts=[], restrict=rc, allow_dup=False, debug=True, seed=1,
             ops=["get"] * 6, cuts=[2], pickle_state=False),
        # F-C16-6: the restrict_configurations list of the snapshot is shared with the snapshot source
        dict(kind="rs_twin", spec=rs_spec, pts=[], restrict=rc, allow_dup=False, debug=True, seed=1,
             ops=["get"] * 12, cuts=[0], pickle_state=False, order="interleaved"),
    ] + [json.load(open(os.path.join(FINDINGS, f)))["case"]
         for f in ("C16-random-snapshot-shares-config-for-trial-id.json",      # F-C16-7
                   "C16-gp-second-restore-from-same-snapshot.json",            # F-C16-8
                   "C16-gp-snapshot-shares-skip-optimization-predicate.json")  # F-C16-9
         if os.path.exists(os.path.join(FINDINGS, f))]


def run(ctx, replay=None):
    rng = ctx.rng
    ctx.rule = ("cases: twin continuation — two identical real objects get the same history; one is snapshotted "
                "(get_state/clone_from_state, optionally through dill; or dill of the whole scheduler) at generated "
                "prefixes incl. 0 and the full length, with pending/failed trials; the snapshot dict is consumed by several "
                "objects (first clone directly or through dill, the snapshot source itself continuing before/after the "
                "clone, a second clone restored from the same dict before or after the first one ran); every consumer "
                "then get the same continuation and their traces (suggestions, decisions, exceptions) must be "
                "identical; searchers: random (debug_log, allow_duplicates, restrict_configurations), grid (seeded, "
                "shuffled, allow_duplicates), GP single/multi-fidelity; schedulers via dill: FIFO random/grid/bayesopt, "
                "Hyperband stopping/promotion, PBT, synchronous Hyperband, DEHB, median rule; non-trivial = the "
                "continuation after the snapshot contains at least one suggestion; distinct by content hash")
    if replay is not None:
        cases = [replay]
    else:
        cases = directed_cases()
        cases += [gen_rs_twin(rng) for _ in range(ctx.n(120, 1200))]
        cases += [gen_rs_twin_restrict_dup(rng) for _ in range(ctx.n(10, 60))]
        cases += [gen_gs_twin(rng) for _ in range(ctx.n(100, 1000))]
        cases += [gen_gs_twin(rng, on_grid=True) for _ in range(ctx.n(30, 200))]
        cases += [gen_gp_twin(rng) for _ in range(ctx.n(20, 100))]
        cases += [gen_gp_twin(rng, nearly_exhausted=True) for _ in range(ctx.n(6, 24))]
        # (HyperTuneSearcher inherits clone_from_state from GPMultiFidelitySearcher, which returns a plain
        # GPMultiFidelitySearcher while the scheduler's HyperTuneBracketDistribution keeps the invalidated original:
        # not among the searchers the property lists for this facility; reported to the lead, not generated here)
        for kind in ("hb-stopping-bayesopt", "hb-promotion-bayesopt"):
            cases += [gen_gp_twin_silent(rng, kind) for _ in range(ctx.n(3, 12))]
        for kind in ("fifo-bayesopt", "hb-stopping-bayesopt"):
            cases += [gen_gp_twin_many_pending(rng, kind) for _ in range(ctx.n(3, 12))]
        cases += [gen_gp_twin_restrict(rng) for _ in range(ctx.n(6, 30))]
        for kind in ("fifo-bayesopt", "hb-stopping-bayesopt"):
            cases += [gen_gp_twin_nonfinite_pending(rng, kind) for _ in range(ctx.n(2, 10))]
            cases += [gen_gp_twin_repeated_snapshots(rng, kind) for _ in range(ctx.n(2, 10))]
        for lm in ("NoOptimization", "corner"):        # directed: explicit local_minimizer_class, model-based steps after the snapshot
            for kind in ("fifo-bayesopt", "hb-stopping-bayesopt"):
                c = gen_gp_twin_many_pending(rng, kind)
                c.update(local_minimizer=lm, directed_history="explicit_local_minimizer_class_" + lm,
                         ops=["suggest", "complete"] * 4 + ["suggest", "suggest", "complete", "suggest", "complete", "suggest"],
                         cuts=[8], max_suggest=9)
                cases.append(c)
        for kind in ("fifo-bayesopt", "hb-stopping-bayesopt"):
            cases += [gen_dill_multiworker(rng, kind) for _ in range(ctx.n(3, 15))]
        for kind in ("hb-stopping-random", "hb-promotion-random", "hb-pasha-random"):
            cases += [gen_dill_rungs(rng, kind) for _ in range(ctx.n(8, 40))]
        for kind in DILL_KINDS:
            cases += [gen_dill_case(rng, kind) for _ in range(ctx.n(6 if "bayesopt" in kind else 16, 40 if "bayesopt" in kind else 150))]
    rc_terms, rc_meta, gc_terms, gc_meta = [], [], [], []
    for case in cases:
        k = case["kind"]
        if k in ("rs_twin", "gs_twin"):
            res = run_rs_twin(ctx, case) if k == "rs_twin" else run_gs_twin(ctx, case)
            for cut, sig, payload in res:
                one = dict(case, cuts=[cut])
                if sig is not None:
                    ctx.violation("property", "%s %s: %s" % (sig["searcher"], sig["event"], payload), case=one,
                                  signature=sig)
                else:
                    ctx.count((k, one), nontrivial=any((o == "get" or o is True) for o in case["ops"][cut:]))
                    ctx.h(k + "_snapshot_position", "start" if cut == 0 else ("end" if cut == len(case["ops"]) else "middle"))
                    if payload is not None:
                        (rc_terms if k == "rs_twin" else gc_terms).append(payload)
                        (rc_meta if k == "rs_twin" else gc_meta).append(one)
            if k == "rs_twin":
                ctx.h("rs_twin_kind", "debug=%s restrict=%s dup=%s" % (case["debug"], case["restrict"] is not None, case["allow_dup"]))
            else:
                ctx.h("gs_twin_kind", "seeded=%s shuffle=%s dup=%s" % (case["seeded"], case["shuffle"], case["allow_dup"]))
        elif k == "gp_twin":
            viols, n_after = run_gp_twin(ctx, case)
            ctx.count(case, nontrivial=n_after > 0, n=len(case.get("cuts", [0])))
            ctx.h("gp_twin", case["sched"] + ("/" + case["directed"] if case.get("directed") else ""))
            so = case.get("search_options") or {}
            ctx.h("gp_twin_options", "skip_period=%s scoring=%s cands=%s maxres=%s" % (
                so.get("opt_skip_period"), so.get("initial_scoring"), so.get("num_init_candidates"),
                so.get("opt_skip_num_max_resource", False)))
            for sig, text in viols:
                ctx.violation("property", "%s clone_from_state: %s" % (sig["searcher"], text), case=case, signature=sig)
        elif k == "dill":
            for cut, sig, payload in run_dill_case(ctx, case):
                one = dict(case, cuts=[cut])
                ctx.count(("dill", one), nontrivial=sig is not None or payload > 0)
                ctx.h("dill_scheduler", case["sched"])
                if sig is not None:
                    ctx.violation("property", "%s dill: %s" % (case["sched"], payload), case=one, signature=sig)
    ctx.traces_validated = len(cases)
    for tag, fn, terms, meta, ty in (("rc", "chk_rc", rc_terms, rc_meta, "rc_case"), ("gc", "chk_gc", gc_terms, gc_meta, "gc_case")):
        if not terms:
            continue
        ctx.sample(dict(correspondence=fn, case=meta[0]))
        terms = ["(%s : %s)" % (t, ty) for t in terms]
        for i in ctx.coq_bad_cases(tag, IMPORTS, PRELUDE, fn, terms, shard=40):
            ctx.violation("correspondence", "model clone (%s) and the real clone differ" % fn, case=meta[i],
                          failing_input=False, broken="correspondence %s (model/Searcher.v)" % fn)
