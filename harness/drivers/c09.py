"""C09 — correspondence of model/AcqHead.v and model/CholBackward.v with
syne_tune/optimizer/schedulers/searchers/bayesopt/models/meanstd_acqfunc{,_impl}.py and
gpautograd/custom_op.py, plus the independent checker (Richardson-extrapolated central
differences of the implementation's own VALUES against its returned GRADIENTS; value with
gradient = value alone; EI <= 0 and EI = numerically integrated E[max(0, .)]).

Everything goes through public API: the heads are exercised by the real acquisition
function classes' compute_acq / compute_acq_with_gradient on harness-side stub predictors
(class StubPredictor(BasePredictor)) whose predictions are the generated (mean, std) arrays
and whose backward_gradient records the head gradients it is handed."""
import math
import warnings

import numpy as np

from common import lst, natlit

HEAD_IMPORTS = ("From Coq Require Import Floats.\nFrom Verif Require Import model.Base model.AcqHead.\n"
                "Open Scope float_scope.\n")
HEAD_PRELUDE = r"""
Definition fclose (tol a b : float) : bool := PrimFloat.leb (abs (a - b)) tol.
Fixpoint fclose_list (tol : float) (a b : list float) : bool :=
  match a, b with
  | [], [] => true
  | x :: a', y :: b' => fclose tol x y && fclose_list tol a' b'
  | _, _ => false
  end.
Definition tbl := list (float * float).
(* EI: cfg, means, std, bests, pdf table, cdf table, impl (value alone, value with grad, dmean, dstd), tolerances *)
Definition ei_case := (Cfg float * list float * float * list float * tbl * tbl *
                       (float * float * list float * list float) * (float * float * float))%type.
Definition chk_ei (c : ei_case) : bool :=
  let '(C, means, std, bests, tp, tc, (v1, v2, dm, ds), (tv, tm, ts)) := c in
  let O := FOps tp tc [] in
  let g := ei_head_grad O C means std bests in
  fclose tv (ei_head O C means std bests) v1 && fclose tv (g_hval g) v2 &&
  fclose_list tm (g_dmean g) dm && fclose_list ts (g_dstd g) ds.
Definition lcb_case := (Cfg float * list float * float *
                        (float * float * list float * list float) * (float * float * float))%type.
Definition chk_lcb (c : lcb_case) : bool :=
  let '(C, means, std, (v1, v2, dm, ds), (tv, tm, ts)) := c in
  let O := FOps [] [] [] in
  let g := lcb_head_grad O C means std in
  fclose tv (lcb_head O C means std) v1 && fclose tv (g_hval g) v2 &&
  fclose_list tm (g_dmean g) dm && fclose_list ts (g_dstd g) ds.
Definition eipu_case := (Cfg float * list float * float * list float * list float * tbl * tbl * tbl *
                         (float * float * list float * list float * list float) *
                         (float * float * float * float))%type.
Definition chk_eipu (c : eipu_case) : bool :=
  let '(C, means, std, bests, costs, tp, tc, tw, (v1, v2, dm, ds, dc), (tv, tm, ts, tcst)) := c in
  let O := FOps tp tc tw in
  let g := eipu_head_grad O C means std bests costs in
  fclose tv (eipu_head O C means std bests costs) v1 && fclose tv (h_hval g) v2 &&
  fclose_list tm (h_dmean g) dm && fclose_list ts (h_dstd g) ds && fclose_list tcst (h_dcost g) dc.
Definition cei_case := (Cfg float * list float * float * list (option float) * list float * float * tbl * tbl *
                        (float * float * list float * list float * list float * list float) *
                        (float * float * float * float * float))%type.
Definition chk_cei (c : cei_case) : bool :=
  let '(C, means, std, bests, mcs, sc, tp, tc, (v1, v2, dm, ds, dmc, dsc), (tv, tm, ts, tmc, tsc)) := c in
  let O := FOps tp tc [] in
  let g := cei_head_grad O C means std bests mcs sc in
  fclose tv (cei_head O C means std bests mcs sc) v1 && fclose tv (k_hval g) v2 &&
  fclose_list tm (k_dmean g) dm && fclose_list ts (k_dstd g) ds &&
  fclose_list tmc (k_dmean_c g) dmc && fclose_list tsc (k_dstd_c g) dsc.
(* roles of the predictors of a two-output head: dict order (name, predictor id), active name, implementation's
   predictor_output_names, implementation's secondary metric, ids of the predictors it uses as (active, secondary) *)
Definition roles_case := (list (nat * nat) * nat * list nat * nat * (nat * nat))%type.
Definition chk_roles (c : roles_case) : bool :=
  let '(d, a, names, s, (pa, ps)) := c in
  list_eqb Nat.eqb (output_names d a) names &&
  match secondary d a with Some s' => Nat.eqb s' s | None => false end &&
  match head_roles d a with Some (qa, qs) => Nat.eqb qa pa && Nat.eqb qs ps | None => false end.
(* mixed-resource batch predict: the argsort permutation, rows (rung level, row id), single-row means and variances
   (by row id), the implementation's batch means and variances, tolerance *)
Definition batch_case := (list nat * list (nat * nat) * list float * list float * list float * list float * float)%type.
Definition chk_batch (c : batch_case) : bool :=
  let '(ind, rows, m1, v1, mb, vb, tol) := c in
  let sp (tab : list float) := fun (_ : nat) (l : list nat) => map (fun id => nth id tab nan) l in
  fclose_list tol (indep_predict (sp m1) ind rows (0%nat, 0%nat) nan) mb &&
  fclose_list tol (indep_predict (sp v1) ind rows (0%nat, 0%nat) nan) vb.
(* HyperTune ensemble: levels (theta, mu, var) at x; per input coordinate the (theta, dmu, dvar); head gradients
   and de-normalisation (hg_mean, hg_std, mean_data, std_data); implementation's ensemble (mean, var) and its
   backward_gradient; tolerances *)
Definition ens_case := (list (float * float * float) * list (list (float * float * float)) *
                        (float * float * float * float) * (float * float) * list float * (float * float * float))%type.
Definition chk_ens (c : ens_case) : bool :=
  let '(lv, dls, (hgm, hgs, md, sd), (m, v), grad, (tm, tv, tg)) := c in
  let O := FOps [] [] [] in
  let p := ens_predict O lv in
  fclose tm (fst p) m && fclose tv (snd p) v &&
  fclose_list tg (map (fun dl => ens_backward O lv dl hgm hgs sd) dls) grad.
"""

CHOL_IMPORTS = ("From Coq Require Import Floats.\nFrom Verif Require Import model.Base model.CholBackward.\n"
                "Open Scope float_scope.\n")
CHOL_PRELUDE = r"""
(* n, L, Lbar, implementation's Abar, tolerance *)
Definition chol_case := (nat * fmat * fmat * fmat * float)%type.
Definition chk_chol (c : chol_case) : bool :=
  let '(n, L, Lbar, A, tol) := c in
  fclose_list tol (concat (f_chol_backward n L Lbar)) (concat A) &&
  Nat.eqb (length (concat A)) (n * n).
(* AddJitterOp forward with forced retries: n, x, sigsq_init, initial jitter, growth, outcome of each Cholesky
   attempt (observed independently by the harness), implementation's output, tolerance *)
Definition jfwd_case := (nat * fmat * float * float * float * list bool * fmat * float)%type.
Definition chk_jfwd (c : jfwd_case) : bool :=
  let '(n, X, sigsq, init, growth, oracle, out, tol) := c in
  match f_addjitter_op n X sigsq init growth oracle with
  | Some A => fclose_list tol (concat A) (concat out) && Nat.eqb (length (concat out)) (n * n)
  | None => false
  end.
(* n, G, implementation's vjp output (flattened g ++ [sum diag g]), tolerance *)
Definition jit_case := (nat * fmat * list float * float)%type.
Definition chk_jit (c : jit_case) : bool :=
  let '(n, G, out, tol) := c in fclose_list tol (f_addjitter_vjp n G) out.
"""

STD_MIN = 1e-10  # hard-coded in get_quantiles


def fl(x):
    x = float(x)
    assert math.isfinite(x), x
    h = x.hex()
    return "(%s)" % h if h.startswith("-") else h


def fll(xs):
    return lst([fl(x) for x in np.asarray(xs, dtype=float).reshape(-1)])


def fmat(A):
    return lst([lst([fl(x) for x in row]) for row in np.asarray(A, dtype=float)])


def ftbl(keys, vals):
    return lst(["(%s, %s)" % (fl(k), fl(v)) for k, v in zip(np.asarray(keys).reshape(-1), np.asarray(vals).reshape(-1))])


def fd_estimate(f, x0, h0, levels=6, rel=1e-4, floor=1e-12):
    """Richardson-extrapolated central differences with step control: the step is divided by 3 until two successive
    estimates agree to [rel] (relative; [floor] absolute). Returns (estimate, error estimate, converged). A narrow
    feature of f inside the step (EI hinge at incumbent - jitter, the CEI feasibility probability switching over a
    width ~std of the constraint model) shows up as disagreement between step sizes instead of a false alarm."""
    prev, h = richardson(f, x0, h0), h0
    est, err = prev, float("inf")
    for _ in range(levels):
        h = h / 3.0
        est = richardson(f, x0, h)
        err = abs(est - prev)
        if err <= rel * max(abs(est), abs(prev)) + floor:
            return est, err, True
        prev = est
    return est, err, False


def ordered(d, active_last):
    """predictor dict with the active metric listed first (False) or last (True): both are valid constructor /
    predictor= arguments, the active metric is named explicitly"""
    items = list(d.items())
    return dict(reversed(items)) if active_last else dict(items)


def richardson(f, x0, h):
    def d(hh):
        return (f(x0 + hh) - f(x0 - hh)) / (2.0 * hh)
    return (4.0 * d(h / 2.0) - d(h)) / 3.0


# --------------------------------------------------------------------------
# stub predictor (harness side, public Predictor interface)
# --------------------------------------------------------------------------
def make_stub_class():
    from syne_tune.optimizer.schedulers.searchers.bayesopt.models.model_base import BasePredictor

    class StubPredictor(BasePredictor):
        def __init__(self, metric, mean, std, cand, mean_2d=True, keys=("mean", "std"), extra_rows=None):
            super().__init__(state=None, active_metric=metric)
            self.mean = np.asarray(mean, dtype=float).reshape(-1)
            self.std = float(std)
            # further input points of the same compute_acq call: [(means, std), ...] for rows 1, 2, ...
            self.extra_rows = [(np.asarray(m, dtype=float).reshape(-1), float(sd)) for m, sd in (extra_rows or [])]
            self.cand = np.asarray(cand, dtype=float)
            self.mean_2d = mean_2d or self.mean.size > 1
            self.keys = set(keys)
            self.captured = None

        def keys_predict(self):
            return set(self.keys)

        def predict(self, inputs):
            n = inputs.shape[0]
            mean = np.tile(self.mean.reshape(1, -1), (n, 1)) if self.mean_2d else np.full((n,), self.mean[0])
            res = {"mean": mean.copy()}
            if "std" in self.keys:
                res["std"] = np.full((n,), self.std)
            for r, (m, sd) in enumerate(self.extra_rows, start=1):
                if r < n:
                    if self.mean_2d:
                        res["mean"][r, :] = m
                    else:
                        res["mean"][r] = m[0]
                    if "std" in self.keys:
                        res["std"][r] = sd
            return [res]

        def predict_mean_current_candidates(self):
            return [self.cand.copy()]

        def backward_gradient(self, input, head_gradients):
            self.captured = [{k: np.array(v, dtype=float).reshape(-1) for k, v in hg.items()} for hg in head_gradients]
            return [np.zeros_like(input)]

    return StubPredictor


# predictive stds around the floor 1e-10 that get_quantiles applies IN PLACE (the heads multiply the floored array)
STD_FLOOR_VALUES = [0.0, 1e-300, 1e-12, 9.9e-11, 1e-10, 1.1e-10]


def gen_head_spec(rng, head, tail=False):
    """tail=True: every fantasy column many predictive standard deviations WORSE than its incumbent,
    u = (incumbent - mean - jitter) / std in [-12, -5] (sometimes down to -30): the lower tail of Phi"""
    nf = rng.choice([1, 1, 2, 3, 5])
    std = rng.choice([rng.uniform(0.05, 3.0), rng.uniform(0.05, 3.0), rng.uniform(0.3, 1.0), 10 ** rng.uniform(-2, 1)])
    if rng.random() < 0.10 and not tail:
        std = rng.choice(STD_FLOOR_VALUES)  # at / below / just above the floor of get_quantiles
    means = [rng.gauss(0, 2) for _ in range(nf)]
    s_eff = max(std, STD_MIN) if std >= 1e-3 else 1.0
    nobs = rng.randint(1, 4)
    jitter = rng.choice([0.01, 0.01, 0.0, 0.1])
    cand = [[m + s_eff * rng.uniform(-1.5, 2.5) for m in means] for _ in range(nobs)]
    if tail:
        ut = [rng.choice([rng.uniform(-12, -5), rng.uniform(-9, -7), rng.uniform(-12, -7), rng.uniform(-30, -12)])
              for _ in means]
        cand = [[m + jitter + u * std for m, u in zip(means, ut)]]
    spec = dict(head=head, nf=nf, means=means, std=std, cand=cand, mean_2d=rng.random() < 0.5,
                jitter=jitter, tail=bool(tail))
    if not tail and rng.random() < 0.25:
        # more input points in the same compute_acq call, floored and ordinary stds mixed point by point
        spec["extra_rows"] = [([m + rng.gauss(0, 1) for m in means],
                               rng.choice(STD_FLOOR_VALUES + [rng.uniform(0.05, 2.0), rng.uniform(0.05, 2.0)]))
                              for _ in range(rng.randint(1, 3))]
    if head == "lcb":
        spec["kappa"] = rng.choice([1.0, 0.3, 2.5, rng.uniform(0.1, 4)])
    if head in ("eipu", "cei"):
        spec["active_last"] = rng.random() < 0.5   # key order of the {output name: predictor} dict
        kind = rng.choice(["same", "same", "one", "many"] if nf > 1 else ["same", "many", "many"])
        nf2 = nf if kind == "same" else (1 if kind == "one" else rng.choice([2, 3, 4]))
        if kind == "many":  # secondary model has fantasies, the active one broadcasts
            spec["nf"], nf = 1, 1
            spec["means"] = means[:1]
            if spec.get("extra_rows"):
                spec["extra_rows"] = [(m[:1], sd) for m, sd in spec["extra_rows"]]
            spec["cand"] = [row[:1] for row in cand]
        spec["nf2"] = nf2
    if head == "eipu":
        spec["expo"] = rng.choice([1.0, 0.5, 0.25, rng.uniform(0.05, 1.0)])
        costs = [rng.choice([rng.uniform(0.1, 5.0), 10 ** rng.uniform(-2, 2)]) for _ in range(spec["nf2"])]
        if rng.random() < 0.05:
            costs[0] = rng.choice([-1.0, 0.0, 1e-13])  # below MIN_COST clamp
        spec["costs"] = costs
    if head == "cei":
        nf = spec["nf"]
        # feasibility of the observed candidates decides the incumbent per fantasy column
        ncol = len(spec["cand"][0])
        cc = [[rng.gauss(-0.3, 1.0) for _ in range(ncol)] for _ in range(len(spec["cand"]))]
        for j in range(ncol):
            if rng.random() < 0.3:  # no feasible candidate in this column -> NaN incumbent
                for row in cc:
                    row[j] = abs(row[j]) + 0.1
        spec["cand_c"] = cc
        spec["means_c"] = [rng.gauss(0, 1) for _ in range(spec["nf2"])]
        spec["std_c"] = rng.choice([rng.uniform(0.1, 2.0), 10 ** rng.uniform(-2, 1)])
        if spec["nf2"] > 1 and nf == 1:
            # current bests come as a product over both models' MCMC lists (size 1 each) and are per
            # ACTIVE fantasy column, so keep candidate matrices at the active model's width
            pass
    return spec


def build_acq(spec, Stub, M):
    """Returns (acq, predictors dict, order of outputs)."""
    head = spec["head"]
    act = Stub("active", spec["means"], spec["std"], spec["cand"], mean_2d=spec["mean_2d"],
               extra_rows=spec.get("extra_rows"))
    if head == "ei":
        return M.EIAcquisitionFunction(act, jitter=spec["jitter"]), {"active": act}
    if head == "lcb":
        return M.LCBAcquisitionFunction(act, kappa=spec["kappa"]), {"active": act}
    if head == "eipu":
        cost = Stub("cost", spec["costs"], 1.0, [[1.0] * len(spec["costs"])], mean_2d=True, keys=("mean",))
        preds = ordered({"active": act, "cost": cost}, spec.get("active_last"))
        return M.EIpuAcquisitionFunction(preds, active_metric="active", exponent_cost=spec["expo"],
                                         jitter=spec["jitter"]), preds
    con = Stub("constr", spec["means_c"], spec["std_c"], spec["cand_c"], mean_2d=True)
    preds = ordered({"active": act, "constr": con}, spec.get("active_last"))
    return M.CEIAcquisitionFunction(preds, active_metric="active", jitter=spec["jitter"]), preds


def eval_head(spec, Stub, M):
    """Runs the two public code paths; returns dict(v1, v2, grads={...})."""
    x = np.array([0.25, 0.5])
    with warnings.catch_warnings():
        warnings.simplefilter("ignore")
        acq, preds = build_acq(spec, Stub, M)
        v1 = float(np.asarray(acq.compute_acq(x.reshape(1, -1))).reshape(-1)[0])
        acq2, preds2 = build_acq(spec, Stub, M)
        v2, _ = acq2.compute_acq_with_gradient(x)
        v_rows = None
        if spec.get("extra_rows"):   # one call on several input points with different predictive stds
            acq3, _ = build_acq(spec, Stub, M)
            v_rows = np.asarray(acq3.compute_acq(np.tile(x.reshape(1, -1), (1 + len(spec["extra_rows"]), 1))),
                                dtype=float).reshape(-1)
    grads = {name: p.captured[0] for name, p in preds2.items()}
    roles = None
    if spec["head"] in ("eipu", "cei"):
        sec = acq2.cost_metric if spec["head"] == "eipu" else acq2.constraint_metric
        roles = dict(order=list(preds2.keys()), names=list(acq2.predictor_output_names), active=acq2.active_metric,
                     secondary=sec, used=[acq2.predictor[acq2.active_metric].active_metric, acq2.predictor[sec].active_metric])
    return dict(v1=v1, v2=float(v2), grads=grads, v_rows=v_rows, roles=roles)


def head_value(spec, Stub, M, **override):
    s = dict(spec)
    s.update(override)
    with warnings.catch_warnings():
        warnings.simplefilter("ignore")
        acq, _ = build_acq(s, Stub, M)
        return float(np.asarray(acq.compute_acq(np.array([[0.25, 0.5]]))).reshape(-1)[0])


def incumbents(spec):
    cand = np.asarray(spec["cand"], dtype=float)
    if spec["head"] != "cei":
        return np.min(cand, axis=0)
    cc = np.asarray(spec["cand_c"], dtype=float)
    c = cand.copy()
    c[cc >= 0] = np.nan
    with warnings.catch_warnings():
        warnings.simplefilter("ignore")
        return np.nanmin(c, axis=0)


def cfg_term(M, spec):
    return "(mkCfg float %s %s %s %s %s %s)" % (
        fl(spec.get("jitter", 0.01)), fl(STD_MIN), fl(M.MIN_COST), fl(M.MIN_STD_CONSTRAINT),
        fl(spec.get("kappa", 1.0)), fl(spec.get("expo", 1.0)))


def bcast(a, n):
    a = np.asarray(a, dtype=float).reshape(-1)
    return np.full((n,), a[0]) if a.size == 1 else a


def run_heads(ctx, specs):
    from scipy.stats import norm
    from scipy import integrate
    import syne_tune.optimizer.schedulers.searchers.bayesopt.models.meanstd_acqfunc_impl as M
    Stub = make_stub_class()
    per_head = {"ei": [], "lcb": [], "eipu": [], "cei": []}
    roles_cases = []
    for spec in specs:
        head = spec["head"]
        try:
            out = eval_head(spec, Stub, M)
        except Exception as exc:   # a valid public call on finite predictions must not raise
            ctx.count((spec["head"], spec), nontrivial=True)
            ctx.violation("property", "%s: compute_acq / compute_acq_with_gradient raised %s: %s on finite predictions" % (
                spec["head"], type(exc).__name__, str(exc)[:200]), case=dict(kind="head", spec=spec),
                signature=dict(function=spec["head"] + "_head", defect="exception", exception=type(exc).__name__))
            continue
        nf = len(spec["means"])
        nf2 = spec.get("nf2", nf)
        N = max(nf, nf2) if head in ("eipu", "cei") else nf
        ctx.count((head, spec), nontrivial=(N > 1 or head in ("eipu", "cei")))
        ctx.h("head", head)
        ctx.h("fantasies", "%d/%d" % (nf, nf2))
        if head in ("eipu", "cei"):
            ctx.h("predictor_dict_order", "active metric last" if spec.get("active_last") else "active metric first")
        ctx.sample(dict(spec=spec, value_alone=out["v1"], value_with_grad=out["v2"],
                        head_gradients={k: {kk: vv.tolist() for kk, vv in v.items()} for k, v in out["grads"].items()}))
        if out.get("roles"):
            ro = out["roles"]
            ids = {nm: k for k, nm in enumerate(sorted(ro["order"]))}   # stub metric name = its dict key
            roles_cases.append(("(%s, %s, %s, %s, (%s, %s))" % (
                lst(["(%s, %s)" % (natlit(ids[k]), natlit(ids[k])) for k in ro["order"]]), natlit(ids[ro["active"]]),
                lst([natlit(ids[k]) for k in ro["names"]]), natlit(ids[ro["secondary"]]),
                natlit(ids[ro["used"][0]]), natlit(ids[ro["used"][1]])), dict(kind="head", spec=spec)))
        s_eff = max(spec["std"], STD_MIN)
        bests = incumbents(spec)
        means = np.asarray(spec["means"], dtype=float)
        case = dict(kind="head", spec=spec)
        sig = dict(function=head + "_head")

        # ---- independent checker 1: value with gradient = value alone ---------------
        if not abs(out["v1"] - out["v2"]) <= 1e-12 * max(1.0, abs(out["v1"])):
            ctx.violation("property", "%s: value returned with gradient %r differs from value alone %r" % (
                head, out["v2"], out["v1"]), case=case, signature=dict(sig, defect="value_mismatch"))

        # ---- independent checker 2: finite differences of the VALUE vs returned head gradients --
        clamp_std = spec["std"] <= STD_MIN * 1.01
        ga = out["grads"]["active"]

        def fd_check(name, which, k, x0, g, lo=None):
            h = 1e-4 * max(1.0, abs(x0))
            if lo is not None:
                if x0 - lo <= 0:
                    return  # at or below a clamp: the head is flat there, the formula is not claimed
                h = min(h, 0.25 * (x0 - lo))

            def f(v):
                if which in ("means", "costs", "means_c"):
                    arr = list(spec[which])
                    arr[k] = v
                    return head_value(spec, Stub, M, **{which: arr})
                return head_value(spec, Stub, M, **{which: v})
            fd, fd_err, ok = fd_estimate(f, x0, h, levels=3, floor=1e-9 * max(1.0, abs(out["v1"])))
            if not ok:
                ctx.h("fd_checks", "inconclusive: step sizes disagree")
                return
            tol = 2e-6 * max(1.0, abs(g), abs(fd)) * max(1.0, 1e-4 / h) + 1e-11 * abs(out["v1"]) / h * 27.0 + 20.0 * fd_err
            ctx.h("fd_checks", name)
            if not abs(fd - g) <= tol:
                ctx.violation("property", "%s: returned %s = %r but central differences of the head value give %r" % (
                    head, name, g, fd), case=case, signature=dict(sig, gradient=name.split("[")[0]))

        def at_kink(k):
            # with a (floored) std far below the finite-difference step, EI as a function of mean_k is a hinge of
            # width ~std at incumbent - jitter: central differences are meaningless across it
            if head == "lcb" or s_eff >= 1e-3 or np.isnan(bests[k]):
                return False
            return abs(bests[k] - spec["means"][k] - spec["jitter"]) < 20.0 * 1e-4 * max(1.0, abs(spec["means"][k]))
        if True:
            for k in range(nf):
                if at_kink(k):
                    ctx.h("fd_checks", "skipped: hinge inside the step")
                    continue
                # also below the std floor: the head is a smooth function of the means there (floored std)
                fd_check("dh_dmean[%d]" % k, "means", k, spec["means"][k], float(ga["mean"][k]))
            if head == "lcb":
                fd_check("dh_dstd", "std", 0, spec["std"], float(ga["std"][0]))
            elif not clamp_std:
                fd_check("dh_dstd", "std", 0, spec["std"], float(ga["std"][0]), lo=STD_MIN)
            if head == "eipu":
                gc = out["grads"]["cost"]
                for k in range(nf2):
                    fd_check("dh_dcost[%d]" % k, "costs", k, spec["costs"][k], float(gc["mean"][k]), lo=M.MIN_COST)
            if head == "cei":
                gc = out["grads"]["constr"]
                for k in range(nf2):
                    fd_check("dh_dmean_constr[%d]" % k, "means_c", k, spec["means_c"][k], float(gc["mean"][k]))
                fd_check("dh_dstd_constr", "std_c", 0, spec["std_c"], float(gc["std"][0]), lo=0.0)

        # ---- independent checker 3: EI is never negative and equals its closed form --------------
        if head in ("ei", "eipu", "cei") and out["v1"] > 0.0:
            ctx.violation("property", "%s head value %r > 0 (expected improvement negative)" % (head, out["v1"]),
                          case=case, signature=dict(sig, defect="ei_negative"))
        if head == "ei" and not clamp_std and spec["std"] >= 0.05 and not spec.get("tail"):
            acc = 0.0
            for j in range(nf):
                t = bests[j] - spec["jitter"]
                val, _ = integrate.quad(lambda y: (t - y) * norm.pdf(y, means[j], s_eff),
                                        min(t, means[j]) - 12 * s_eff, t, epsabs=1e-13, epsrel=1e-11, limit=200)
                acc += val
            closed = acc / nf
            if not abs(-out["v1"] - closed) <= 1e-7 * max(1.0, abs(closed)):
                ctx.violation("property", "EI head %r differs from integrated E[max(0,.)] = %r" % (-out["v1"], closed),
                              case=case, signature=dict(sig, defect="ei_closed_form"))
        if head in ("ei", "eipu", "cei"):
            # RELATIVE comparison with the closed form s (u Phi(u) + phi(u)), s = the predictive std FLOORED at 1e-10
            # as get_quantiles does, evaluated with the tail-accurate scipy.special.ndtr (absolute errors of order
            # 1e-16 in Phi are visible for u << 0), and of dh/dmean against the tail-accurate Phi
            from scipy.special import ndtr
            Nn = max(nf, nf2) if head != "ei" else nf
            bb_ = bcast(bests, Nn)
            feas_ = ~np.isnan(bb_)
            if head == "eipu":
                w_ = np.power(np.maximum(bcast(spec["costs"], Nn), M.MIN_COST), -spec["expo"])
            elif head == "cei":
                w_ = ndtr(-bcast(spec["means_c"], Nn) / (spec["std_c"] + M.MIN_STD_CONSTRAINT))
            else:
                w_ = np.ones(Nn)

            def closed_for(means_row, std_row):
                sf = max(float(std_row), STD_MIN)
                uu = (np.where(feas_, bb_, 0.0) - bcast(means_row, Nn) - spec["jitter"]) / sf
                ei = sf * (uu * ndtr(uu) + norm.pdf(uu))
                return float(np.mean(np.where(feas_, ei * w_, w_))), uu

            closed, u_ = closed_for(means, spec["std"])
            umin = float(np.min(np.where(feas_, u_, 0.0)))
            floored = bool(spec["std"] < STD_MIN)
            ctx.h("u_quantile_min", "<-12" if umin < -12 else "<-7" if umin < -7 else "<-4" if umin < -4 else ">=-4")
            ctx.h("std_vs_floor", "below 1e-10" if floored else "at 1e-10" if spec["std"] == STD_MIN else "above")
            if not abs(-out["v1"] - closed) <= 1e-6 * abs(closed) + 1e-300:
                ctx.violation("property", "%s: head value %r deviates RELATIVELY from the closed form %r (std = %r%s, min u = %.3g)" % (
                    head, -out["v1"], closed, spec["std"], " floored at 1e-10" if floored else "", umin), case=case,
                    signature=dict(sig, defect="ei_closed_form_relative", tail=bool(umin < -6), std_below_floor=floored))
            dm_terms = np.where(feas_, ndtr(u_) * w_, 0.0)
            exp_dm = dm_terms / nf if nf > 1 else np.array([float(np.mean(dm_terms))])
            got_dm = np.asarray(ga["mean"], dtype=float).reshape(-1)
            if got_dm.shape != exp_dm.shape or not np.all(np.abs(got_dm - exp_dm) <= 1e-6 * np.abs(exp_dm) + 1e-300):
                ctx.violation("property", "%s: dh/dmean %r deviates RELATIVELY from the tail-accurate Phi(u) form %r (min u = %.3g)" % (
                    head, got_dm.tolist(), exp_dm.tolist(), umin), case=case,
                    signature=dict(sig, defect="dh_dmean_relative", tail=bool(umin < -6), std_below_floor=floored))
            if out.get("v_rows") is not None:
                # several input points in ONE compute_acq call, floored and ordinary stds mixed point by point
                rows = [(means, spec["std"])] + [(np.asarray(m, dtype=float), sd) for m, sd in spec["extra_rows"]]
                for r, (mr, sr) in enumerate(rows):
                    cr, _ = closed_for(mr, sr)
                    ctx.h("batch_row_std_vs_floor", "below 1e-10" if sr < STD_MIN else "at/above")
                    if not abs(-out["v_rows"][r] - cr) <= 1e-6 * abs(cr) + 1e-300:
                        ctx.violation("property", "%s: compute_acq on %d points, point %d (std = %r): value %r deviates from the "
                                      "closed form with the floored std %r" % (head, len(rows), r, sr, -out["v_rows"][r], cr),
                                      case=case, signature=dict(sig, defect="ei_closed_form_relative", batch=True,
                                                                std_below_floor=bool(sr < STD_MIN)))
        if head == "lcb" and out.get("v_rows") is not None:
            rows = [(means, spec["std"])] + [(np.asarray(m, dtype=float), sd) for m, sd in spec["extra_rows"]]
            for r, (mr, sr) in enumerate(rows):
                cr = float(np.mean(mr)) - sr * spec["kappa"]
                if not abs(out["v_rows"][r] - cr) <= 1e-12 * (float(np.mean(np.abs(mr))) + abs(sr * spec["kappa"])) + 1e-300:
                    ctx.violation("property", "lcb: compute_acq on %d points, point %d: value %r differs from mean - kappa std = %r" % (
                        len(rows), r, out["v_rows"][r], cr), case=case, signature=dict(sig, defect="lcb_value", batch=True))

        # ---- correspondence with the PrimFloat evaluation of model/AcqHead.v --------------------
        C = cfg_term(M, spec)
        E = 1e-12

        def tol(vals, extra=0.0):
            return fl(E * (max([abs(float(v)) for v in np.asarray(vals).reshape(-1)] + [0.0]) + extra) + 1e-300)

        if head == "lcb":
            sv = float(np.mean(np.abs(means)) + abs(spec["std"] * spec["kappa"]))
            per_head[head].append(("(%s, %s, %s, (%s, %s, %s, %s), (%s, %s, %s))" % (
                C, fll(means), fl(spec["std"]), fl(out["v1"]), fl(out["v2"]), fll(ga["mean"]), fll(ga["std"]),
                tol([out["v1"]], sv), tol(ga["mean"]), tol(ga["std"])), case))
            continue
        bm = bcast(means, N)
        bb = bcast(bests, N)
        feas = ~np.isnan(bb)
        u = (np.where(feas, bb, 0.0) - bm - spec["jitter"]) / s_eff
        tp_keys, tc_keys = list(u[feas]), list(u[feas])
        fei = np.where(feas, s_eff * (np.abs(u) * norm.cdf(u) + norm.pdf(u)), 1.0)
        if head == "ei":
            sv = float(np.mean(fei))
            per_head[head].append(("(%s, %s, %s, %s, %s, %s, (%s, %s, %s, %s), (%s, %s, %s))" % (
                C, fll(means), fl(spec["std"]), fll(bests), ftbl(tp_keys, norm.pdf(tp_keys)), ftbl(tc_keys, norm.cdf(tc_keys)),
                fl(out["v1"]), fl(out["v2"]), fll(ga["mean"]), fll(ga["std"]),
                tol([out["v1"]], sv), tol(ga["mean"]), tol(ga["std"])), case))
        elif head == "eipu":
            pc = np.maximum(bcast(spec["costs"], N), M.MIN_COST)
            icp = np.power(pc, -spec["expo"])
            gc = out["grads"]["cost"]
            sv = float(np.mean(fei * icp))
            per_head[head].append(("(%s, %s, %s, %s, %s, %s, %s, %s, (%s, %s, %s, %s, %s), (%s, %s, %s, %s))" % (
                C, fll(means), fl(spec["std"]), fll(bests), fll(spec["costs"]),
                ftbl(tp_keys, norm.pdf(tp_keys)), ftbl(tc_keys, norm.cdf(tc_keys)), ftbl(pc, icp),
                fl(out["v1"]), fl(out["v2"]), fll(ga["mean"]), fll(ga["std"]), fll(gc["mean"]),
                tol([out["v1"]], sv), tol(ga["mean"]), tol(ga["std"]),
                tol(gc["mean"], float(np.max(spec["expo"] * fei * icp / pc)))), case))
        else:
            sc = spec["std_c"] + M.MIN_STD_CONSTRAINT
            mc = bcast(spec["means_c"], N)
            z = -mc / sc
            tp_keys += list(z)
            tc_keys += list(z)
            gc = out["grads"]["constr"]
            cp, pz = norm.cdf(z), norm.pdf(z)
            sv = float(np.mean(fei * cp))
            s_dsc = float(np.max(fei * np.abs(mc) / sc ** 2 * pz))
            bests_t = lst(["(Some %s)" % fl(b) if not np.isnan(b) else "None" for b in bests])
            per_head[head].append(("(%s, %s, %s, %s, %s, %s, %s, %s, (%s, %s, %s, %s, %s, %s), (%s, %s, %s, %s, %s))" % (
                C, fll(means), fl(spec["std"]), bests_t, fll(spec["means_c"]), fl(spec["std_c"]),
                ftbl(tp_keys, norm.pdf(tp_keys)), ftbl(tc_keys, norm.cdf(tc_keys)),
                fl(out["v1"]), fl(out["v2"]), fll(ga["mean"]), fll(ga["std"]), fll(gc["mean"]), fll(gc["std"]),
                tol([out["v1"]], sv), tol(ga["mean"]), tol(ga["std"]),
                tol(gc["mean"], float(np.max(fei * pz / sc))), tol(gc["std"], s_dsc)), case))
            ctx.h("cei_columns", "feasible", int(np.sum(feas)))
            ctx.h("cei_columns", "infeasible", int(np.sum(~feas)))
    if roles_cases:
        for i in ctx.coq_bad_cases("roles", HEAD_IMPORTS, HEAD_PRELUDE, "chk_roles", [t for t, _ in roles_cases], shard=400):
            ctx.violation("correspondence", "model output_names / secondary / head_roles differs from the acquisition function's "
                          "predictor_output_names / secondary metric / predictors used", case=roles_cases[i][1], failing_input=False,
                          broken="correspondence chk_roles (model/AcqHead.v head_roles)")
    for head, items in per_head.items():
        if not items:
            continue
        bad = ctx.coq_bad_cases("head_" + head, HEAD_IMPORTS, HEAD_PRELUDE, "chk_" + head, [t for t, _ in items], shard=120)
        for i in bad:
            ctx.violation("correspondence", "model %s head (value / gradient) differs from implementation" % head,
                          case=items[i][1], failing_input=False,
                          broken="correspondence chk_%s (model/AcqHead.v %s_head / %s_head_grad)" % (head, head, head))


# --------------------------------------------------------------------------
# Cholesky backward and AddJitterOp vjp
# --------------------------------------------------------------------------
def gen_chol_spec(rng):
    n = rng.choice([1, 2, 3, 4, 5, 6])
    L = [[(rng.gauss(0, 0.4) if j < i else (rng.uniform(0.7, 2.0) if j == i else 0.0)) for j in range(n)] for i in range(n)]
    Lbar = [[rng.gauss(0, 1) for _ in range(n)] for _ in range(n)]
    dirs = []
    for _ in range(2):
        E = np.array([[rng.gauss(0, 1) for _ in range(n)] for _ in range(n)])
        dirs.append(((E + E.T) / 2).tolist())
    return dict(n=n, L=L, Lbar=Lbar, dirs=dirs, sigsq=rng.uniform(1e-3, 1.0))


def run_chol(ctx, specs):
    import autograd
    import autograd.numpy as anp
    import syne_tune.optimizer.schedulers.searchers.bayesopt.gpautograd.custom_op as co
    ccases, jcases = [], []
    for spec in specs:
        n = spec["n"]
        L, Lbar = np.array(spec["L"], dtype=float), np.array(spec["Lbar"], dtype=float)
        case = dict(kind="chol", spec=spec)
        A = L @ L.T
        abar = np.asarray(co.cholesky_factorization_backward(L, Lbar))
        cond = float(np.linalg.cond(L))
        ctx.count(("chol", spec), nontrivial=n >= 2)
        ctx.h("chol_n", n)
        ctx.sample(dict(kind="cholesky_factorization_backward", L=spec["L"], Lbar=spec["Lbar"], abar=abar.tolist()))
        scale = max(float(np.abs(abar).max()), 1e-300)
        ccases.append(("(%s, %s, %s, %s, %s)" % (natlit(n), fmat(L), fmat(Lbar), fmat(abar),
                                                 fl(1e-12 * cond ** 2 * scale * n)), case))
        # independent checker: d/dt sum(Lbar * chol(A + t E)) at 0, E symmetric, vs <Abar, E>; the gradient
        # autograd derives through the registered vjp must be the same matrix
        Lc = np.linalg.cholesky(A)
        abar_c = np.asarray(co.cholesky_factorization_backward(Lc, Lbar))
        g_auto = autograd.grad(lambda a: anp.sum(Lbar * co.cholesky_factorization(a)))(A)
        if not np.allclose(g_auto, abar_c, rtol=1e-10, atol=1e-12 * scale):
            ctx.violation("property", "autograd gradient through cholesky_factorization differs from cholesky_factorization_backward",
                          case=case, signature=dict(function="cholesky_factorization_vjp"))
        for E in spec["dirs"]:
            E = np.array(E, dtype=float)
            fd = richardson(lambda t: float(np.sum(Lbar * np.linalg.cholesky(A + t * E))), 0.0, 1e-4 / max(1.0, cond))
            g = float(np.sum(abar_c * E))
            if not abs(fd - g) <= 1e-5 * cond ** 2 * max(1.0, abs(g), abs(fd)):
                ctx.violation("property", "cholesky_factorization_backward: <Abar, E> = %r but central differences of "
                              "sum(Lbar * cholesky(A + tE)) give %r" % (g, fd), case=case,
                              signature=dict(function="cholesky_factorization_backward"))
        # AddJitterOp: forward on a positive definite matrix adds sigsq on the diagonal only; vjp
        inputs = np.append(A.reshape(-1), spec["sigsq"])
        fwd = np.asarray(co.AddJitterOp(inputs))
        if not np.allclose(fwd, A + spec["sigsq"] * np.eye(n), rtol=0, atol=1e-14 * max(1.0, float(np.abs(A).max()))):
            ctx.violation("property", "AddJitterOp forward is not x + sigsq * I on a positive definite x", case=case,
                          signature=dict(function="AddJitterOp"))
        vj = np.asarray(co.AddJitterOp_vjp(fwd, inputs)(Lbar)).reshape(-1)
        jcases.append(("(%s, %s, %s, %s)" % (natlit(n), fmat(Lbar), fll(vj), fl(1e-13 * max(1.0, float(np.abs(Lbar).sum())))), case))
        # checker: gradient of <G, AddJitterOp(inputs)> by central differences (affine map: exact up to round-off)
        g_auto = autograd.grad(lambda v: anp.sum(Lbar * co.AddJitterOp(v)))(inputs)
        fdv = []
        for i in range(inputs.size):
            e = np.zeros_like(inputs)
            e[i] = 1.0
            fdv.append(richardson(lambda t: float(np.sum(Lbar * co.AddJitterOp(inputs + t * e))), 0.0, 1e-3))
        if not (np.allclose(fdv, vj, rtol=1e-7, atol=1e-8) and np.allclose(g_auto, vj, rtol=1e-12, atol=1e-13)):
            ctx.violation("property", "AddJitterOp_vjp %r differs from central differences %r" % (vj.tolist(), fdv),
                          case=case, signature=dict(function="AddJitterOp_vjp"))
    if ccases:
        for i in ctx.coq_bad_cases("chol", CHOL_IMPORTS, CHOL_PRELUDE, "chk_chol", [t for t, _ in ccases], shard=100):
            ctx.violation("correspondence", "model f_chol_backward differs from cholesky_factorization_backward",
                          case=ccases[i][1], failing_input=False,
                          broken="correspondence chk_chol (model/CholBackward.v f_chol_backward)")
        for i in ctx.coq_bad_cases("jit", CHOL_IMPORTS, CHOL_PRELUDE, "chk_jit", [t for t, _ in jcases], shard=200):
            ctx.violation("correspondence", "model f_addjitter_vjp differs from AddJitterOp_vjp",
                          case=jcases[i][1], failing_input=False,
                          broken="correspondence chk_jit (model/CholBackward.v f_addjitter_vjp)")


# --------------------------------------------------------------------------
# AddJitterOp with the retry loop FORCED (first Cholesky attempts fail)
# --------------------------------------------------------------------------
def gen_jitter_spec(rng):
    n = rng.choice([2, 3, 4, 5, 6, 8])
    return dict(n=n, seed=rng.randrange(10 ** 6), delta=10 ** rng.uniform(-10, -6), scale=rng.choice([1.0, 1.0, 30.0, 0.2]),
                sig_frac=rng.choice([rng.uniform(0.01, 0.5), rng.uniform(0.01, 0.5), 1e-4, 0.0]))


def jitter_matrix(spec):
    """symmetric x with smallest eigenvalue -delta * lambda_max (slightly indefinite), and sigsq_init < delta * lambda_max"""
    rs = np.random.RandomState(spec["seed"])
    n = spec["n"]
    Q, _ = np.linalg.qr(rs.normal(size=(n, n)))
    lam = rs.uniform(0.5, 3.0, size=n) * spec["scale"]
    lam[0] = -spec["delta"] * lam.max()
    x = (Q * lam) @ Q.T
    x = (x + x.T) / 2.0
    G = rs.normal(size=(n, n))
    return x, float(spec["delta"] * lam.max() * spec["sig_frac"]), G


def jitter_reference(co, x, sigsq):
    """independent replay of the documented search: (k = number of failed attempts, list of outcomes, jitter_k)"""
    import scipy.linalg as spl
    n = x.shape[0]
    j0 = co.INITIAL_JITTER_FACTOR * max(1.0, float(np.mean(np.diag(x))))
    ub = co.JITTER_UPPERBOUND_FACTOR * max(1.0, float(np.mean(np.diag(x))))
    jitter, outcomes = 0.0, []
    while jitter <= ub:
        try:
            spl.cholesky(x + np.diag(np.ones((n,)) * (sigsq + jitter)), lower=True)
            outcomes.append(True)
            return len(outcomes) - 1, outcomes, jitter, j0
        except spl.LinAlgError:
            outcomes.append(False)
            jitter = j0 if jitter == 0.0 else jitter * co.JITTER_GROWTH
    return None, outcomes, None, j0


def check_jitter_forward(ctx, co, x, sigsq, out, case, where):
    """(i) the forward value is x + (sigsq_init + jitter_k) I for the member jitter_k of the documented sequence at
    which the Cholesky factorisation first succeeds. Returns (k, outcomes, jitter_k, j0)."""
    k, outcomes, jit, j0 = jitter_reference(co, x, sigsq)
    ctx.h("addjitter_failed_attempts_" + where, "none succeeded" if k is None else k)
    if k is None:
        return k, outcomes, jit, j0
    n = x.shape[0]
    want = x + np.diag(np.ones((n,)) * (sigsq + jit))
    scale = max(1.0, float(np.abs(x).max()))
    shift = float(np.mean(np.diag(out) - np.diag(x)))
    if not np.allclose(out, want, rtol=0.0, atol=4e-16 * scale):
        ctx.violation("property", "AddJitterOp (%s): after %d failed Cholesky attempts the result is x + %.6e * I (off-diagonal "
                      "max deviation %.1e) but the documented value is x + (sigsq_init + jitter_%d) * I = x + %.6e * I "
                      "(sigsq_init = %.3e, jitter sequence 0, %.3e, x10, ...)" % (
                          where, k, shift, float(np.abs(out - np.diag(np.diag(out)) - (x - np.diag(np.diag(x)))).max()),
                          k, sigsq + jit, sigsq, j0),
                      case=case, signature=dict(function="AddJitterOp", defect="forward_not_x_plus_sigsq_plus_jitter_k",
                                                retries=bool(k > 0)))
    return k, outcomes, jit, j0


def run_jitter_forced(ctx, specs):
    import autograd
    import autograd.numpy as anp
    import syne_tune.optimizer.schedulers.searchers.bayesopt.gpautograd.custom_op as co
    fcases = []
    for spec in specs:
        case = dict(kind="jitter", spec=spec)
        x, sigsq, G = jitter_matrix(spec)
        n = spec["n"]
        inputs = np.append(x.reshape(-1), sigsq)
        with warnings.catch_warnings():
            warnings.simplefilter("ignore")
            out = np.asarray(co.AddJitterOp(inputs.copy()))
        k, outcomes, jit, j0 = check_jitter_forward(ctx, co, x, sigsq, out, case, "op")
        ctx.count(("jitter", spec), nontrivial=bool(k))
        if k is None:
            continue
        ctx.sample(dict(kind="AddJitterOp forced retries", n=n, sigsq_init=sigsq, failed_attempts=k, jitter=jit))
        fcases.append(("(%s, %s, %s, %s, %s, %s, %s, %s)" % (
            natlit(n), fmat(x), fl(sigsq), fl(j0), fl(co.JITTER_GROWTH), lst(["true" if o else "false" for o in outcomes]),
            fmat(out), fl(4e-16 * max(1.0, float(np.abs(x).max())))), case))
        # (ii) the op is affine while the number of failed attempts stays k: central differences of
        # F = sum(G * AddJitterOp(.)) in sigsq_init and in entries of x against the vjp (and autograd's use of it)
        vj = np.asarray(co.AddJitterOp_vjp(out, inputs)(G)).reshape(-1)
        g_auto = np.asarray(autograd.grad(lambda v: anp.sum(G * co.AddJitterOp(v)))(inputs.copy())).reshape(-1)
        if not np.allclose(g_auto, vj, rtol=1e-12, atol=1e-13):
            ctx.violation("property", "autograd gradient through AddJitterOp differs from AddJitterOp_vjp", case=case,
                          signature=dict(function="AddJitterOp_vjp", defect="not_registered"))
        h = min(0.1 * sigsq, 0.01 * jit) if (k > 0 and sigsq > 0) else (0.01 * jit if k > 0 else 1e-7)
        # entries of x: off-diagonal ones only (a diagonal entry moves mean(diag x) and with it the jitter sequence,
        # a dependence the backward pass ignores by design)
        offd = [a * n + b for a in range(n) for b in range(n) if a != b]
        coords = [inputs.size - 1] + [int(c) for c in np.random.RandomState(spec["seed"] + 1).choice(offd, size=min(3, len(offd)), replace=False)]
        for c in coords:
            if h < 1e-13:
                ctx.h("addjitter_fd", "step too small")
                continue
            vals, same_k = [], True
            for sgn in (1.0, -1.0):
                ip = inputs.copy()
                ip[c] += sgn * h
                xp = ip[:-1].reshape(n, n)
                kk = jitter_reference(co, xp, float(ip[-1]))[0]
                same_k = same_k and (kk == k)
                with warnings.catch_warnings():
                    warnings.simplefilter("ignore")
                    vals.append(float(np.sum(G * np.asarray(co.AddJitterOp(ip)))))
            if not same_k:
                ctx.h("addjitter_fd", "retry count changes under the perturbation")
                continue
            fd = (vals[0] - vals[1]) / (2.0 * h)
            Fmag = float(np.sum(np.abs(G) * np.abs(out)))
            tolfd = 1e-6 * max(1.0, abs(vj[c])) + 20.0 * 2.3e-16 * Fmag / h
            ctx.h("addjitter_fd", "checked")
            if not abs(fd - vj[c]) <= tolfd:
                ctx.violation("property", "AddJitterOp with %d failed Cholesky attempts: vjp component %s = %r but central differences "
                              "(retry count held fixed, step %.2e) give %r" % (
                                  k, "d/d sigsq_init" if c == inputs.size - 1 else "d/d x[%d]" % c, float(vj[c]), h, fd),
                              case=case, signature=dict(function="AddJitterOp_vjp",
                                                        component="sigsq_init" if c == inputs.size - 1 else "x",
                                                        retries=bool(k > 0)))
    if fcases:
        for i in ctx.coq_bad_cases("jfwd", CHOL_IMPORTS, CHOL_PRELUDE, "chk_jfwd", [t for t, _ in fcases], shard=100):
            ctx.violation("correspondence", "model f_addjitter_op (retry loop) differs from AddJitterOp", case=fcases[i][1],
                          failing_input=False, broken="correspondence chk_jfwd (model/CholBackward.v f_addjitter_op)")


def gen_gp_jitter_spec(rng):
    return dict(seed=rng.randrange(10 ** 6), n=rng.choice([100, 150, 200, 300]), ard=rng.random() < 0.5,
                scale=rng.choice([1e3, 1e3, 300.0]), inv_bw=rng.choice([1e-2, 1e-2, 3e-2]), noise=rng.choice([1e-9, 1e-9, 1e-8]))


def run_gp_jitter(ctx, specs):
    """GP fitting objective with all parameters inside their boxes but a numerically singular kernel matrix: the
    AddJitterOp calls made by the real objective are recorded (harness-side wrapper around the exported op) and
    checked against the documented forward form; value and gradient must be finite."""
    from unittest import mock
    from autograd.tracer import getval
    import syne_tune.optimizer.schedulers.searchers.bayesopt.gpautograd.custom_op as co
    import syne_tune.optimizer.schedulers.searchers.bayesopt.gpautograd.posterior_utils as pu
    from syne_tune.optimizer.schedulers.searchers.bayesopt.gpautograd.likelihood import GaussianProcessMarginalLikelihood
    from syne_tune.optimizer.schedulers.searchers.bayesopt.gpautograd.kernel import Matern52
    from syne_tune.optimizer.schedulers.searchers.bayesopt.gpautograd.mean import ScalarMeanFunction
    from syne_tune.optimizer.schedulers.searchers.bayesopt.gpautograd.optimization_utils import create_lbfgs_arguments, ParamVecDictConverter
    if not hasattr(pu, "AddJitterOp"):
        ctx.notes.append("posterior_utils no longer refers to AddJitterOp by that name: GP-level jitter recording skipped")
        return
    real = pu.AddJitterOp
    for spec in specs:
        case = dict(kind="gp_jitter", spec=spec)
        rs = np.random.RandomState(spec["seed"])
        n = spec["n"]
        X = rs.uniform(size=(n, 2))
        y = (np.sin(3.0 * X[:, 0]) + X[:, 1] + 0.05 * rs.normal(size=n)).reshape(-1, 1)
        rec = []

        def spy(inputs, *a, **kw):
            out = real(inputs, *a, **kw)
            rec.append((np.array(getval(inputs), dtype=float), np.array(getval(out), dtype=float)))
            return out
        with warnings.catch_warnings():
            warnings.simplefilter("ignore")
            lik = GaussianProcessMarginalLikelihood(kernel=Matern52(2, ARD=spec["ard"]), mean=ScalarMeanFunction())
            lik.reset_params(np.random.RandomState(0))
            data = {"features": X, "targets": y}
            lik.on_fit_start(data)
            params = lik.get_params()
            for name in list(params):
                if "inv_bw" in name:
                    params[name] = spec["inv_bw"]
            params["kernel_covariance_scale"], params["noise_variance"] = spec["scale"], spec["noise"]
            lik.set_params(params)
            obj, param_dict = create_lbfgs_arguments(criterion=lik, crit_args=[data])
            v = np.array(ParamVecDictConverter(param_dict).to_vec(), dtype=float)
            with mock.patch.object(pu, "AddJitterOp", spy):
                f0, g = obj(v.copy())
        ctx.count(("gp_jitter", spec), nontrivial=True)
        if not (np.all(np.isfinite(np.asarray(g, dtype=float))) and np.isfinite(float(np.asarray(f0).reshape(-1)[0]))):
            ctx.violation("property", "fitting objective in the jitter regime: value / gradient not finite", case=case,
                          signature=dict(function="create_lbfgs_arguments objective", defect="not_finite", regime="jitter"))
        for inp, out in rec:
            m = out.shape[0]
            check_jitter_forward(ctx, co, inp[:-1].reshape(m, m), float(inp[-1]), out, case, "gp")


# --------------------------------------------------------------------------
# real GP: acquisition functions through the posterior, and the fitting objective
# --------------------------------------------------------------------------
def gen_gp_tail_spec(rng):
    spec = gen_gp_spec(rng)
    spec.update(head="ei", explicit=False, tail=rng.uniform(-11.0, -7.5))
    return spec


def gen_gp_spec(rng):
    d = rng.choice([1, 2, 3])
    n = rng.randint(3, 6)
    return dict(seed=rng.randrange(10 ** 6), d=d, n=n, pending=rng.choice([0, 1, 2]), nf=rng.choice([1, 2, 3]),
                head=rng.choice(["ei", "lcb", "eipu", "cei"]), kappa=rng.uniform(0.3, 3.0),
                expo=rng.choice([1.0, 0.5]), jitter=rng.choice([0.01, 0.1]),
                x=[rng.uniform(0.05, 0.95) for _ in range(d)], normalize=rng.random() < 0.7,
                explicit=rng.random() < 0.5, active_last=rng.random() < 0.5, active_last_arg=rng.random() < 0.5,
                refit=rng.random() < 0.5)


def gp_observed(spec):
    """the observed configurations and active-metric values build_gp_predictor / _gp_models generate for [spec]"""
    rs = np.random.RandomState(spec["seed"])
    X = [tuple(float(v) for v in rs.uniform(size=spec["d"])) for _ in range(spec["n"])]
    w = np.random.RandomState(spec["seed"] + 7).normal(size=spec["d"])
    return X, [3.0 * float(np.sum(w * np.array(x))) + float(np.sum(np.array(x) ** 2)) for x in X]


def build_gp_predictor(spec, metric, fn, seed_shift=0):
    from syne_tune.optimizer.schedulers.searchers.utils.hp_ranges_factory import make_hyperparameter_ranges
    from syne_tune.config_space import uniform
    from syne_tune.optimizer.schedulers.searchers.bayesopt.gpautograd.constants import OptimizationConfig
    from syne_tune.optimizer.schedulers.searchers.bayesopt.models.gp_model import GaussProcEmpiricalBayesEstimator
    from syne_tune.optimizer.schedulers.searchers.bayesopt.utils.test_objects import default_gpmodel, create_tuning_job_state
    d = spec["d"]
    hp = make_hyperparameter_ranges({"x%d" % i: uniform(0.0, 1.0) for i in range(d)})
    rs = np.random.RandomState(spec["seed"])
    X = [tuple(float(v) for v in rs.uniform(size=d)) for _ in range(spec["n"])]
    pend = [tuple(float(v) for v in rs.uniform(size=d)) for _ in range(spec["pending"])] or None
    Y = [{metric: float(fn(np.array(x)))} for x in X]
    state = create_tuning_job_state(hp_ranges=hp, cand_tuples=X, metrics=Y, pending_tuples=pend)
    oc = OptimizationConfig(lbfgs_tol=1e-3, lbfgs_maxiter=4, verbose=False, n_starts=1)
    gpm = default_gpmodel(state, random_seed=spec["seed"] + seed_shift, optimization_config=oc)
    est = GaussProcEmpiricalBayesEstimator(active_metric=metric, gpmodel=gpm, num_fantasy_samples=spec["nf"],
                                           normalize_targets=spec.get("normalize", True))
    pred = est.fit_from_state(state, update_params=True)
    if spec.get("_want_estimator"):
        def refit(seed_off):
            # other data set (same space, same numbers of observed / pending points), SAME estimator object
            rs2 = np.random.RandomState(spec["seed"] + seed_off)
            X2 = [tuple(float(v) for v in rs2.uniform(size=d)) for _ in range(spec["n"])]
            pend2 = [tuple(float(v) for v in rs2.uniform(size=d)) for _ in range(spec["pending"])] or None
            Y2 = [{metric: float(fn(np.array(x)) + 2.0 * np.sin(5.0 * x[0]))} for x in X2]
            st2 = create_tuning_job_state(hp_ranges=hp, cand_tuples=X2, metrics=Y2, pending_tuples=pend2)
            return est.fit_from_state(st2, update_params=True)
        return pred, refit
    return pred


def _gp_models(spec, M, seed_off=0, active_last=False):
    """(constructor arguments of the acquisition class, predictor object/dict) for one fitted surrogate set"""
    from syne_tune.optimizer.schedulers.searchers.bayesopt.datatypes.common import INTERNAL_METRIC_NAME, INTERNAL_CONSTRAINT_NAME
    sp = dict(spec, seed=spec["seed"] + seed_off)
    w = np.random.RandomState(sp["seed"] + 7).normal(size=sp["d"])
    act = build_gp_predictor(sp, INTERNAL_METRIC_NAME, lambda x: 3.0 * float(np.sum(w * x)) + float(np.sum(x * x)))
    head = spec["head"]
    if head in ("ei", "lcb"):
        return act
    if head == "eipu":
        cost = build_gp_predictor(sp, "cost_metric", lambda x: 1.0 + 2.0 * float(x[0]) + 0.3 * seed_off / 1000.0, seed_shift=1)
        return ordered({INTERNAL_METRIC_NAME: act, "cost_metric": cost}, active_last)
    con = build_gp_predictor(sp, INTERNAL_CONSTRAINT_NAME, lambda x: float(x[0]) - 0.6, seed_shift=2)
    return ordered({INTERNAL_METRIC_NAME: act, INTERNAL_CONSTRAINT_NAME: con}, active_last)


def _active_metric_name():
    from syne_tune.optimizer.schedulers.searchers.bayesopt.datatypes.common import INTERNAL_METRIC_NAME
    return INTERNAL_METRIC_NAME


def _make_acq(spec, M, predictor):
    from syne_tune.optimizer.schedulers.searchers.bayesopt.datatypes.common import INTERNAL_METRIC_NAME
    head = spec["head"]
    if head == "ei":
        return M.EIAcquisitionFunction(predictor, jitter=spec["jitter"])
    if head == "lcb":
        return M.LCBAcquisitionFunction(predictor, kappa=spec["kappa"])
    if head == "eipu":
        return M.EIpuAcquisitionFunction(predictor, active_metric=INTERNAL_METRIC_NAME, exponent_cost=spec["expo"],
                                         jitter=spec["jitter"])
    return M.CEIAcquisitionFunction(predictor, active_metric=INTERNAL_METRIC_NAME, jitter=spec["jitter"])


def check_acq_gradient(ctx, acq, x, kw, head, case, what, v_scale_tol=1e-5, h=1e-4):
    """value with gradient = value alone; EI-type value <= 0; returned gradient vs central differences of the
    VALUE, all with the same keyword arguments [kw] (predictor=None or an explicit predictor)."""
    sig = dict(function="compute_acq_with_gradient", head=head, predictor=what)
    try:
        v1 = float(np.asarray(acq.compute_acq(x.reshape(1, -1), **kw)).reshape(-1)[0])
        v2, g = acq.compute_acq_with_gradient(x.copy(), **kw)
    except Exception as exc:   # a valid public call must not raise
        ctx.violation("property", "%s (%s): compute_acq / compute_acq_with_gradient raised %s: %s" % (
            head, what, type(exc).__name__, str(exc)[:200]), case=case,
            signature=dict(sig, defect="exception", exception=type(exc).__name__))
        return float("nan"), np.full(x.shape, np.nan)
    g = np.asarray(g, dtype=float).reshape(-1)
    if not abs(v1 - float(v2)) <= 1e-10 * max(1.0, abs(v1)):
        ctx.violation("property", "%s (%s): compute_acq_with_gradient value %r differs from compute_acq %r" % (
            head, what, float(v2), v1), case=case, signature=dict(sig, defect="value_mismatch"))
    if head in ("ei", "eipu", "cei") and v1 > 0.0:
        ctx.violation("property", "%s (%s) acquisition value %r > 0 (expected improvement negative)" % (head, what, v1), case=case,
                      signature=dict(sig, defect="ei_negative"))
    for i in range(x.size):
        def f(t):
            xx = x.copy()
            xx[i] = t
            return float(np.asarray(acq.compute_acq(xx.reshape(1, -1), **kw)).reshape(-1)[0])
        fd, fd_err, ok = fd_estimate(f, float(x[i]), h)
        if not ok:
            ctx.h("acq_fd", "inconclusive: step sizes disagree")
            continue
        ctx.h("acq_fd", "checked")
        if not abs(fd - g[i]) <= v_scale_tol * max(1.0, abs(g[i]), abs(fd), abs(v1)) + 20.0 * fd_err:
            ctx.violation("property", "%s (%s): d acq / d x[%d] = %r but central differences of compute_acq give %r" % (
                head, what, i, float(g[i]), fd), case=case, signature=dict(sig, defect="input_gradient"))
    return v1, g


def run_gp_acq(ctx, specs):
    import syne_tune.optimizer.schedulers.searchers.bayesopt.models.meanstd_acqfunc_impl as M
    for spec in specs:
        case = dict(kind="gp_acq", spec=spec)
        with warnings.catch_warnings():
            warnings.simplefilter("ignore")
            head = spec["head"]
            P1 = _gp_models(spec, M, active_last=spec.get("active_last", False))
            acq = _make_acq(spec, M, P1)
            if head in ("eipu", "cei"):
                ctx.h("gp_acq_predictor_dict_order", "ctor:%s/arg:%s" % (
                    "last" if spec.get("active_last") else "first",
                    ("last" if spec.get("active_last_arg") else "first") if spec.get("explicit") else "-"))
            x = np.array(spec["x"], dtype=float)
            ctx.count(("gp_acq", spec), nontrivial=spec["pending"] > 0 and spec["nf"] > 1)
            ctx.h("gp_acq_head", head)
            ctx.h("gp_acq_normalize_targets", spec.get("normalize", True))
            ctx.h("gp_acq_fantasies", spec["nf"] if spec["pending"] else 1)
            ctx.h("gp_acq_predictor_arg", "explicit" if spec.get("explicit") else "default")
            if head == "ei":
                from scipy.special import ndtr
                from scipy.stats import norm as _norm

                def quantiles(xx):
                    pr = P1.predict(np.asarray(xx, dtype=float).reshape(1, -1))[0]
                    m = np.asarray(pr["mean"], dtype=float).reshape(-1)
                    sd = float(np.asarray(pr["std"]).reshape(-1)[0])
                    b = np.asarray(P1.current_best()[0], dtype=float).reshape(-1)
                    return (b - m - spec["jitter"]) / sd, sd
                if spec.get("tail") and not spec.get("tail_placed"):
                    # move x towards the WORST observed configuration until every fantasy column is many
                    # predictive standard deviations worse than the incumbent: max_j u_j = target in [-11, -7.5]
                    Xobs, yobs = gp_observed(spec)
                    xw, target = np.array(Xobs[int(np.argmax(yobs))], dtype=float), spec["tail"]
                    lo_t, hi_t = 0.0, 1.0
                    if float(np.max(quantiles(xw)[0])) < target < float(np.max(quantiles(x)[0])):
                        for _ in range(60):
                            mid = 0.5 * (lo_t + hi_t)
                            if float(np.max(quantiles(xw + mid * (x - xw))[0])) < target:
                                lo_t = mid
                            else:
                                hi_t = mid
                        x = xw + hi_t * (x - xw)
                        spec["x"], spec["tail_placed"] = [float(t) for t in x], True
                    else:
                        spec["tail_placed"] = False
                    ctx.h("gp_acq_tail_placement", "placed" if spec["tail_placed"] else "no bracket")
                u_, sd_ = quantiles(x)
                closed = float(np.mean(sd_ * (u_ * ndtr(u_) + _norm.pdf(u_))))
                v_ = float(np.asarray(acq.compute_acq(x.reshape(1, -1))).reshape(-1)[0])
                umin = float(np.min(u_))
                ctx.h("gp_acq_u_min", "<-12" if umin < -12 else "<-7" if umin < -7 else "<-4" if umin < -4 else ">=-4")
                if not abs(-v_ - closed) <= 1e-6 * abs(closed) + 1e-300:
                    ctx.violation("property", "ei on a fitted GP: -compute_acq = %r deviates RELATIVELY from the closed form %r "
                                  "computed from predict() / current_best() (min u = %.3f)" % (-v_, closed, umin), case=case,
                                  signature=dict(function="compute_acq", head=head, defect="ei_closed_form_relative",
                                                 tail=bool(umin < -6)))
            check_acq_gradient(ctx, acq, x, {}, head, case, "default predictor")
            if spec.get("refit") and head in ("ei", "lcb"):
                # fit A -> acquisition function on predictor A -> the SAME estimator is fit again on other data ->
                # the fit-A acquisition function is asked again: whichever posterior it answers for, the gradient
                # must be the derivative of the value it returns
                w = np.random.RandomState(spec["seed"] + 7).normal(size=spec["d"])
                predA, refit = build_gp_predictor(dict(spec, _want_estimator=True), _active_metric_name(),
                                                  lambda t: 3.0 * float(np.sum(w * t)) + float(np.sum(t * t)))
                acqA = _make_acq(spec, M, predA)
                check_acq_gradient(ctx, acqA, x, {}, head, case, "fit A, before the estimator is fit again")
                predB = refit(4321)
                ctx.h("gp_acq_refit", head)
                check_acq_gradient(ctx, acqA, x, {}, head, case, "fit-A acquisition function after the estimator was fit on other data")
                check_acq_gradient(ctx, _make_acq(spec, M, predB), x, {}, head, case, "fit B")
            if spec.get("explicit"):
                # the documented optional argument: evaluate the SAME acquisition object on another fitted
                # surrogate (other data, same number of fantasies)
                P2 = _gp_models(spec, M, seed_off=1000, active_last=spec.get("active_last_arg", False))
                v, g = check_acq_gradient(ctx, acq, x, dict(predictor=P2), head, case, "explicit predictor")
                if np.isnan(v):
                    continue
                # ... and it must agree with an acquisition object constructed on that surrogate
                acq2 = _make_acq(spec, M, _gp_models(spec, M, seed_off=1000))
                v0, g0 = acq2.compute_acq_with_gradient(x.copy())
                g0 = np.asarray(g0, dtype=float).reshape(-1)
                if not (abs(v - float(v0)) <= 1e-9 * max(1.0, abs(v)) and np.allclose(g, g0, rtol=1e-7, atol=1e-9 * max(1.0, abs(v)))):
                    ctx.violation("property", "%s: compute_acq_with_gradient(x, predictor=P2) = (%r, %r) differs from the "
                                  "acquisition function constructed on P2: (%r, %r)" % (head, v, g.tolist(), float(v0), g0.tolist()),
                                  case=case, signature=dict(function="compute_acq_with_gradient", head=head,
                                                            predictor="explicit predictor", defect="depends_on_constructor_predictor"))


# --------------------------------------------------------------------------
# (c2) HyperTune surrogate (independent GPs per rung level): ensemble predictive distribution
#      mean = sum_r theta_r mu_r, variance = sum_r theta_r^2 sigma_r^2
# --------------------------------------------------------------------------
def gen_hypertune_spec(rng, k=None):
    levels = [1, 3, 9]
    nsup = (k % 3) + 1 if k is not None else rng.choice([1, 2, 3])
    sup = sorted(rng.sample(levels, nsup))
    w = [rng.uniform(0.15, 1.0) for _ in sup]
    theta = {str(r): wi / sum(w) for r, wi in zip(sup, w)}
    return dict(seed=rng.randrange(10 ** 6), d=rng.choice([1, 2, 3]), counts=[rng.randint(3, 8), rng.randint(2, 6), rng.randint(2, 4)],
                theta=theta, head=rng.choice(["ei", "lcb"]), kappa=rng.uniform(0.3, 3.0), jitter=rng.choice([0.01, 0.1]),
                cov_scales=[rng.uniform(0.5, 2.5) for _ in levels], inv_bw=rng.uniform(0.8, 3.0),
                norm_mean=rng.uniform(-1, 1), norm_std=rng.uniform(0.5, 2.0), ncand=rng.randint(1, 4))


def run_hypertune(ctx, specs):
    import syne_tune.optimizer.schedulers.searchers.bayesopt.models.meanstd_acqfunc_impl as M
    from syne_tune.config_space import uniform
    from syne_tune.optimizer.schedulers.searchers.utils.hp_ranges_factory import make_hyperparameter_ranges
    from syne_tune.optimizer.schedulers.searchers.bayesopt.datatypes.common import INTERNAL_METRIC_NAME
    from syne_tune.optimizer.schedulers.searchers.bayesopt.gpautograd.kernel import Matern52
    from syne_tune.optimizer.schedulers.searchers.bayesopt.gpautograd.mean import ScalarMeanFunction
    from syne_tune.optimizer.schedulers.searchers.bayesopt.gpautograd.hypertune.gp_model import (
        HyperTuneIndependentGPModel, HyperTuneDistributionArguments)
    from syne_tune.optimizer.schedulers.searchers.bayesopt.gpautograd.hypertune.utils import ExtendFeaturesByResourceMixin
    from syne_tune.optimizer.schedulers.searchers.bayesopt.models.gp_model import GaussProcPredictor
    from syne_tune.optimizer.schedulers.searchers.bayesopt.utils.test_objects import create_tuning_job_state
    levels, rrange = [1, 3, 9], (1, 9)
    ens_cases = []
    for spec in specs:
        case = dict(kind="hypertune", spec=spec)
        rs = np.random.RandomState(spec["seed"])
        d = spec["d"]
        with warnings.catch_warnings():
            warnings.simplefilter("ignore")
            fparts, tparts = [], []
            for r, cnt in zip(levels, spec["counts"]):
                xr = rs.uniform(size=(cnt, d))
                fparts.append(ExtendFeaturesByResourceMixin(r, rrange).extend_features_by_resource(xr))
                tparts.append(np.sin(4.0 * xr[:, :1]) + np.sum((xr - 0.3) ** 2, axis=1, keepdims=True) + 1.0 / r
                              + 0.05 * rs.normal(size=(cnt, 1)))
            data = {"features": np.vstack(fparts), "targets": np.vstack(tparts)}
            gm = HyperTuneIndependentGPModel(
                kernel=Matern52(dimension=d, ARD=False, has_covariance_scale=False),
                mean_factory=lambda resource: ScalarMeanFunction(), resource_attr_range=rrange,
                hypertune_distribution_args=HyperTuneDistributionArguments(num_samples=10, num_brackets=3), random_seed=0)
            gm.create_likelihood(levels)
            for r, cs in zip(levels, spec["cov_scales"]):
                gm.likelihood.set_covariance_scale(r, cs)
            gm.likelihood.kernel.set_params({"inv_bw": spec["inv_bw"]})
            gm.likelihood.set_ensemble_distribution({int(r): float(t) for r, t in spec["theta"].items()})
            gm.recompute_states(data)
            hp = make_hyperparameter_ranges({"x%d" % i: uniform(0.0, 1.0) for i in range(d)})
            cands = [tuple(float(t) for t in rs.uniform(size=d)) for _ in range(spec["ncand"])]
            state = create_tuning_job_state(hp_ranges=hp, cand_tuples=cands,
                                            metrics=[{INTERNAL_METRIC_NAME: float(i)} for i in range(len(cands))])
            pred = GaussProcPredictor(state=state, gpmodel=gm, fantasy_samples=[], active_metric=INTERNAL_METRIC_NAME,
                                      normalize_mean=spec["norm_mean"], normalize_std=spec["norm_std"])
            # correspondence of model/AcqHead.v ens_predict / ens_backward with the real posterior state: per-level
            # predictions and per-level input gradients (public state(resource).predict / .backward_gradient with unit
            # head gradients) go into the model, the ensemble's own predict / backward_gradient are the observations
            pst = gm.states[0]
            xq = rs.uniform(0.1, 0.9, size=d)
            hgm, hgs, md, sd = rs.normal(), rs.normal(), rs.normal(), rs.uniform(0.5, 2.0)
            lv, dcols = [], [[] for _ in range(d)]
            for r, th in pst.ensemble_distribution.items():
                st = pst.state(r)
                mu, var = st.predict(xq.reshape(1, -1))
                mu, var = float(np.asarray(mu).reshape(-1)[0]), float(np.asarray(var).reshape(-1)[0])
                dmu = np.asarray(st.backward_gradient(xq, {"mean": np.array([1.0])}, 0.0, 1.0), dtype=float).reshape(-1)
                dsd = np.asarray(st.backward_gradient(xq, {"mean": np.array([0.0]), "std": np.array([1.0])}, 0.0, 1.0),
                                 dtype=float).reshape(-1)
                lv.append((float(th), mu, var))
                for i in range(d):
                    dcols[i].append((float(th), float(dmu[i]), float(2.0 * np.sqrt(var) * dsd[i])))
            em, ev = pst.predict(xq.reshape(1, -1))
            em, ev = float(np.asarray(em).reshape(-1)[0]), float(np.asarray(ev).reshape(-1)[0])
            eg = np.asarray(pst.backward_gradient(xq, {"mean": np.array([hgm]), "std": np.array([hgs])}, md, sd),
                            dtype=float).reshape(-1)
            trip = lambda t: "(%s, %s, %s)" % (fl(t[0]), fl(t[1]), fl(t[2]))
            gscale = max(1e-300, float(np.abs(eg).max()),
                         max(abs(hgm * sd * t[0] * t[1]) + abs(hgs * sd * t[0] ** 2 * t[2] / (2 * np.sqrt(ev))) for c in dcols for t in c))
            ens_cases.append(("(%s, %s, (%s, %s, %s, %s), (%s, %s), %s, (%s, %s, %s))" % (
                lst([trip(t) for t in lv]), lst([lst([trip(t) for t in c]) for c in dcols]),
                fl(hgm), fl(hgs), fl(md), fl(sd), fl(em), fl(ev), fll(eg),
                fl(1e-13 * max(1.0, sum(abs(t[0] * t[1]) for t in lv))), fl(1e-13 * max(1e-300, ev) * 10), fl(1e-8 * gscale)),
                dict(kind="hypertune", spec=spec)))
            acq = (M.EIAcquisitionFunction(pred, jitter=spec["jitter"]) if spec["head"] == "ei"
                   else M.LCBAcquisitionFunction(pred, kappa=spec["kappa"]))
            x = rs.uniform(0.1, 0.9, size=d)
            ctx.count(("hypertune", spec), nontrivial=len(spec["theta"]) >= 2)
            ctx.h("hypertune_ensemble_support", len(spec["theta"]))
            ctx.h("hypertune_head", spec["head"])
            v, g = check_acq_gradient(ctx, acq, x, {}, spec["head"], case,
                                      "HyperTune independent GPs, ensemble on %d rung level(s)" % len(spec["theta"]),
                                      v_scale_tol=1e-6)
            # for tiny EI values the absolute tolerance above is blind: relative check against central differences
            if not np.isnan(v):
                for i in range(d):
                    def f(t):
                        xx = x.copy()
                        xx[i] = t
                        return float(np.asarray(acq.compute_acq(xx.reshape(1, -1))).reshape(-1)[0])
                    fd, fd2 = richardson(f, float(x[i]), 1e-4), richardson(f, float(x[i]), 2e-4)
                    if abs(fd - fd2) > 1e-3 * abs(fd):
                        continue
                    if not abs(fd - g[i]) <= 1e-4 * max(abs(fd), abs(g[i])) + 1e-12 + 20.0 * abs(fd - fd2):
                        ctx.violation("property", "%s on HyperTune independent GPs (ensemble %r): d acq / d x[%d] = %r but central "
                                      "differences of compute_acq give %r" % (spec["head"], spec["theta"], i, float(g[i]), fd),
                                      case=case, signature=dict(function="compute_acq_with_gradient", head=spec["head"],
                                                                predictor="hypertune ensemble", defect="input_gradient_relative",
                                                                ensemble_levels=len(spec["theta"])))
    if ens_cases:
        for i in ctx.coq_bad_cases("ens", HEAD_IMPORTS, HEAD_PRELUDE, "chk_ens", [t for t, _ in ens_cases], shard=120):
            ctx.violation("correspondence", "model ens_predict / ens_backward differs from HyperTuneIndependentGPPosteriorState "
                          "predict / backward_gradient", case=ens_cases[i][1], failing_input=False,
                          broken="correspondence chk_ens (model/AcqHead.v ens_predict, ens_backward)")


# --------------------------------------------------------------------------
# (c3) independent GPs per rung level (IndependentGPPerResourceModel): batches of encoded inputs whose
#      resource column is mixed and ungrouped
# --------------------------------------------------------------------------
def gen_indep_spec(rng, k=None):
    nb = rng.randint(3, 7)
    res = [rng.choice([1, 3, 9]) for _ in range(nb)]
    if k is not None and k % 3 == 0:   # a permutation that is not its own inverse, e.g. 9 1 3 1 9
        res = ([9, 1, 3] + [rng.choice([1, 3, 9]) for _ in range(nb - 3)])
    return dict(seed=rng.randrange(10 ** 6), counts=[rng.randint(4, 8), rng.randint(3, 6), rng.randint(2, 5)],
                head=rng.choice(["ei", "lcb"]), kappa=rng.uniform(0.3, 3.0), jitter=rng.choice([0.01, 0.1]),
                inv_bw=[rng.uniform(1.0, 6.0), rng.uniform(1.0, 6.0)], noise=10 ** rng.uniform(-3, -1),
                batch=[[rng.uniform(0.05, 0.95), rng.uniform(0.05, 0.95), r] for r in res])


def run_indep(ctx, specs):
    from scipy.special import ndtr
    from scipy.stats import norm
    import syne_tune.optimizer.schedulers.searchers.bayesopt.models.meanstd_acqfunc_impl as M
    from syne_tune.config_space import uniform
    from syne_tune.optimizer.schedulers.searchers.utils.hp_ranges_factory import make_hyperparameter_ranges
    from syne_tune.optimizer.schedulers.searchers.bayesopt.datatypes.config_ext import ExtendedConfiguration
    from syne_tune.optimizer.schedulers.searchers.bayesopt.datatypes.common import INTERNAL_METRIC_NAME
    from syne_tune.optimizer.schedulers.searchers.bayesopt.utils.test_objects import create_tuning_job_state
    from syne_tune.optimizer.schedulers.searchers.bayesopt.gpautograd.kernel import Matern52
    from syne_tune.optimizer.schedulers.searchers.bayesopt.gpautograd.mean import ScalarMeanFunction
    from syne_tune.optimizer.schedulers.searchers.bayesopt.gpautograd.independent.gpind_model import IndependentGPPerResourceModel
    from syne_tune.optimizer.schedulers.searchers.bayesopt.models.gp_model import GaussProcEmpiricalBayesEstimator
    levels, rrange = [1, 3, 9], (1, 9)
    batch_cases = []
    for spec in specs:
        case = dict(kind="indep", spec=spec)
        rs = np.random.RandomState(spec["seed"])
        with warnings.catch_warnings():
            warnings.simplefilter("ignore")
            hp = make_hyperparameter_ranges({"x": uniform(0.0, 1.0), "y": uniform(0.0, 1.0)})
            cext = ExtendedConfiguration(hp, resource_attr_key="epoch", resource_attr_range=rrange)
            configs, metrics = [], []
            for r, num in zip(levels, spec["counts"]):
                for _ in range(num):
                    a, b = rs.uniform(size=2)
                    configs.append(cext.get({"x": float(a), "y": float(b)}, r))
                    metrics.append({INTERNAL_METRIC_NAME: float(np.sin(3.0 * a) + (b - 0.3) ** 2 + 0.2 / r + 0.05 * rs.normal())})
            state = create_tuning_job_state(hp_ranges=cext.hp_ranges_ext, cand_tuples=configs, metrics=metrics)
            gm = IndependentGPPerResourceModel(kernel=Matern52(dimension=2, ARD=True, has_covariance_scale=False),
                                               mean_factory=lambda resource: ScalarMeanFunction(),
                                               resource_attr_range=rrange, random_seed=0)
            gm.create_likelihood(levels)
            params = gm.get_params()
            params.update({"kernel_inv_bw0": spec["inv_bw"][0], "kernel_inv_bw1": spec["inv_bw"][1], "noise_variance": spec["noise"]})
            gm.set_params(params)
            est = GaussProcEmpiricalBayesEstimator(gpmodel=gm, num_fantasy_samples=1, active_metric=INTERNAL_METRIC_NAME)
            pred = est.fit_from_state(state, update_params=False)
            X = cext.hp_ranges_ext.to_ndarray_matrix([cext.get({"x": a, "y": b}, int(r)) for a, b, r in spec["batch"]])
            head = spec["head"]
            acq = (M.EIAcquisitionFunction(pred, jitter=spec["jitter"]) if head == "ei"
                   else M.LCBAcquisitionFunction(pred, kappa=spec["kappa"]))
            res = [int(r) for _, _, r in spec["batch"]]
            pst = gm.states[0]
            mb, vb = pst.predict(X.copy())
            singles = [pst.predict(X[i:i + 1].copy()) for i in range(X.shape[0])]
            m1 = [float(np.asarray(a).reshape(-1)[0]) for a, _ in singles]
            v1 = [float(np.asarray(b).reshape(-1)[0]) for _, b in singles]
            ind = [int(t) for t in np.argsort(np.array(res))]   # the permutation the implementation's argsort returns
            batch_cases.append(("(%s, %s, %s, %s, %s, %s, %s)" % (
                lst([natlit(t) for t in ind]), lst(["(%s, %s)" % (natlit(r), natlit(i)) for i, r in enumerate(res)]),
                fll(m1), fll(v1), fll(np.asarray(mb).reshape(-1)), fll(np.asarray(vb).reshape(-1)),
                fl(1e-9 * max(1.0, max(abs(t) for t in m1 + v1)))), dict(kind="indep", spec=spec)))
            ctx.count(("indep", spec), nontrivial=len(set(res)) >= 2)
            ctx.h("indep_batch_resources", "mixed, ungrouped" if res != sorted(res) and len(set(res)) >= 2 else
                  "mixed, grouped" if len(set(res)) >= 2 else "single level")
            sig = dict(function="compute_acq", head=head, predictor="independent GPs per resource")
            try:
                vb = np.asarray(acq.compute_acq(X.copy()), dtype=float).reshape(-1)
                rows = []
                for i in range(X.shape[0]):
                    v1 = float(np.asarray(acq.compute_acq(X[i].copy())).reshape(-1)[0])
                    v2, g = acq.compute_acq_with_gradient(X[i].copy())
                    pr = pred.predict(X[i].reshape(1, -1))[0]
                    rows.append((v1, float(v2), np.asarray(g, dtype=float).reshape(-1),
                                 float(np.asarray(pr["mean"]).reshape(-1)[0]), float(np.asarray(pr["std"]).reshape(-1)[0])))
                best = float(np.asarray(pred.current_best()[0]).reshape(-1)[0])
            except Exception as exc:
                ctx.violation("property", "%s on independent GPs per resource raised %s: %s" % (head, type(exc).__name__, str(exc)[:200]),
                              case=case, signature=dict(sig, defect="exception", exception=type(exc).__name__))
                continue
            for i, (v1, v2, g, m, sd) in enumerate(rows):
                if head == "ei":
                    u = (best - m - spec["jitter"]) / max(sd, STD_MIN)
                    closed = -max(sd, STD_MIN) * (u * ndtr(u) + norm.pdf(u))
                else:
                    closed = m - sd * spec["kappa"]
                sc = max(abs(closed), 1e-300)
                for what, val in (("compute_acq on the single input", v1), ("compute_acq_with_gradient value", v2),
                                  ("closed form from predict() of that input", closed)):
                    if not abs(vb[i] - val) <= 1e-8 * max(sc, abs(val)) + 1e-300:
                        ctx.violation("property", "%s, batch of %d inputs at rung levels %s: compute_acq(X)[%d] = %r but %s = %r" % (
                            head, len(res), res, i, float(vb[i]), what, float(val)), case=case,
                            signature=dict(sig, defect="batch_row_mismatch", against=what.split(" ")[0]))
                        break
                # gradient w.r.t. the configuration coordinates (the resource column is fixed) vs central differences
                for j in range(2):
                    def f(t):
                        xx = X[i].copy()
                        xx[j] = t
                        return float(np.asarray(acq.compute_acq(xx)).reshape(-1)[0])
                    fd, fd2 = richardson(f, float(X[i, j]), 1e-4), richardson(f, float(X[i, j]), 2e-4)
                    if not abs(fd - g[j]) <= 1e-5 * max(1.0, abs(g[j]), abs(fd), abs(v1)) + 20.0 * abs(fd - fd2):
                        ctx.violation("property", "%s on independent GPs per resource (rung level %d): d acq / d x[%d] = %r but central "
                                      "differences give %r" % (head, res[i], j, float(g[j]), fd), case=case,
                                      signature=dict(sig, defect="input_gradient"))
    if batch_cases:
        for i in ctx.coq_bad_cases("batch", HEAD_IMPORTS, HEAD_PRELUDE, "chk_batch", [t for t, _ in batch_cases], shard=200):
            ctx.violation("correspondence", "model indep_predict (mixed-resource batch) differs from "
                          "IndependentGPPerResourcePosteriorState.predict", case=batch_cases[i][1], failing_input=False,
                          broken="correspondence chk_batch (model/AcqHead.v indep_predict)")


# --------------------------------------------------------------------------
# (c4) fitted GPs whose kernel has an input-dependent diagonal k(x, x) (multi-fidelity resource kernels)
# --------------------------------------------------------------------------
def gen_reskernel_spec(rng, k=None):
    kinds = ["expdecay", "freezethaw", "product_fabolas", "expdecay_warped"]
    return dict(seed=rng.randrange(10 ** 6), kind=kinds[k % len(kinds)] if k is not None else rng.choice(kinds),
                dx=rng.choice([1, 2]), n=rng.randint(6, 12), head=rng.choice(["ei", "lcb"]), kappa=rng.uniform(0.3, 3.0),
                jitter=rng.choice([0.01, 0.1]), inv_bw=[rng.uniform(1.0, 4.0), rng.uniform(1.0, 4.0)],
                noise=10 ** rng.uniform(-2.5, -1), normalize=rng.random() < 0.5,
                x=[rng.uniform(0.1, 0.9) for _ in range(3)])


def run_gp_resource_kernel(ctx, specs):
    import syne_tune.optimizer.schedulers.searchers.bayesopt.models.meanstd_acqfunc_impl as M
    from syne_tune.config_space import uniform
    from syne_tune.optimizer.schedulers.searchers.utils.hp_ranges_factory import make_hyperparameter_ranges
    from syne_tune.optimizer.schedulers.searchers.bayesopt.datatypes.common import dictionarize_objective, INTERNAL_METRIC_NAME
    from syne_tune.optimizer.schedulers.searchers.bayesopt.utils.test_objects import create_tuning_job_state
    from syne_tune.optimizer.schedulers.searchers.bayesopt.gpautograd.constants import OptimizationConfig
    from syne_tune.optimizer.schedulers.searchers.bayesopt.gpautograd.kernel import (
        Matern52, ExponentialDecayResourcesKernelFunction, ExponentialDecayResourcesMeanFunction,
        FreezeThawKernelFunction, FreezeThawMeanFunction, FabolasKernelFunction, ProductKernelFunction)
    from syne_tune.optimizer.schedulers.searchers.bayesopt.gpautograd.warping import WarpedKernel, Warping
    from syne_tune.optimizer.schedulers.searchers.bayesopt.gpautograd.mean import ScalarMeanFunction
    from syne_tune.optimizer.schedulers.searchers.bayesopt.gpautograd.gp_regression import GaussianProcessRegression
    from syne_tune.optimizer.schedulers.searchers.bayesopt.models.gp_model import GaussProcEmpiricalBayesEstimator
    for spec in specs:
        case = dict(kind="reskernel", spec=spec)
        rs = np.random.RandomState(spec["seed"])
        dx = spec["dx"]
        d = dx + 1   # last coordinate = encoded resource level
        with warnings.catch_warnings():
            warnings.simplefilter("ignore")
            hp = make_hyperparameter_ranges({"x%d" % i: uniform(0.0, 1.0) for i in range(d)})
            X = [tuple(float(t) for t in rs.uniform(0.05, 0.95, size=d)) for _ in range(spec["n"])]
            Y = [dictionarize_objective(float(np.sum((np.array(x[:dx]) - 0.4) ** 2) + 0.5 * np.exp(-3.0 * x[-1]))) for x in X]
            state = create_tuning_job_state(hp_ranges=hp, cand_tuples=X, metrics=Y)
            kind = spec["kind"]
            if kind in ("expdecay", "expdecay_warped"):
                kernel = ExponentialDecayResourcesKernelFunction(kernel_x=Matern52(dx, ARD=True), mean_x=ScalarMeanFunction())
                mean = ExponentialDecayResourcesMeanFunction(kernel=kernel)
                if kind == "expdecay_warped":
                    kernel = WarpedKernel(kernel=kernel, warpings=[Warping(dimension=d, coordinate_range=(0, dx))])
            elif kind == "freezethaw":
                kernel = FreezeThawKernelFunction(kernel_x=Matern52(dx, ARD=True), mean_x=ScalarMeanFunction())
                mean = FreezeThawMeanFunction(kernel=kernel)
            else:
                kernel = ProductKernelFunction(Matern52(dx, ARD=True), FabolasKernelFunction())
                mean = ScalarMeanFunction()
            gpm = GaussianProcessRegression(kernel=kernel, mean=mean, random_seed=0,
                                            optimization_config=OptimizationConfig(lbfgs_tol=1e-3, lbfgs_maxiter=3, verbose=False, n_starts=1))
            est = GaussProcEmpiricalBayesEstimator(active_metric=INTERNAL_METRIC_NAME, gpmodel=gpm, num_fantasy_samples=1,
                                                   normalize_targets=spec["normalize"])
            params = est.get_params()
            for name in params:
                if "inv_bw" in name:
                    params[name] = spec["inv_bw"][0] if name.endswith("0") else spec["inv_bw"][1]
            params["noise_variance"] = spec["noise"]
            est.set_params(params)
            pred = est.fit_from_state(state, update_params=False)
            acq = (M.EIAcquisitionFunction(pred, jitter=spec["jitter"]) if spec["head"] == "ei"
                   else M.LCBAcquisitionFunction(pred, kappa=spec["kappa"]))
            x = np.array(spec["x"][:d], dtype=float)
            ctx.count(("reskernel", spec), nontrivial=True)
            ctx.h("resource_kernel", kind + "/" + spec["head"])
            what = "kernel with input-dependent diagonal: " + kind
            v, g = check_acq_gradient(ctx, acq, x, {}, spec["head"], case, what, v_scale_tol=1e-6)
            if np.isnan(v):
                continue
            for i in range(d):   # relative check (EI values can be tiny), all coordinates incl. the resource one
                def f(t):
                    xx = x.copy()
                    xx[i] = t
                    return float(np.asarray(acq.compute_acq(xx.reshape(1, -1))).reshape(-1)[0])
                fd, fd_err, ok = fd_estimate(f, float(x[i]), 1e-4)
                if not ok:
                    continue
                if not abs(fd - g[i]) <= 1e-4 * max(abs(fd), abs(g[i])) + 1e-12 + 20.0 * fd_err:
                    ctx.violation("property", "%s on a GP with %s kernel: d acq / d x[%d]%s = %r but central differences of "
                                  "compute_acq give %r" % (spec["head"], kind, i, " (resource coordinate)" if i == d - 1 else "",
                                                           float(g[i]), fd), case=case,
                                  signature=dict(function="compute_acq_with_gradient", head=spec["head"], predictor=what,
                                                 defect="input_gradient_relative", coordinate="resource" if i == d - 1 else "config"))


# --------------------------------------------------------------------------
# (c5) several acquisition functions evaluated one after another on SHARED predictor objects
# --------------------------------------------------------------------------
def gen_shared_spec(rng, k=None):
    spec = gen_gp_spec(rng)
    order = ["cei", "ei", "eipu", "lcb"]
    rng.shuffle(order)
    if k is not None and k % 2 == 0:   # CEI (with predicted-infeasible candidates) first, incumbent-based heads afterwards
        order = ["cei"] + [h for h in order if h != "cei"]
    spec.update(order=order, explicit=False, refit=False, tail=None, d=max(spec["d"], 1), n=max(spec["n"], 5))
    return spec


def run_shared_sequences(ctx, specs):
    from scipy.special import ndtr
    from scipy.stats import norm as _norm
    import syne_tune.optimizer.schedulers.searchers.bayesopt.models.meanstd_acqfunc_impl as M
    from syne_tune.optimizer.schedulers.searchers.bayesopt.datatypes.common import INTERNAL_METRIC_NAME, INTERNAL_CONSTRAINT_NAME
    for spec in specs:
        case = dict(kind="shared", spec=spec)
        with warnings.catch_warnings():
            warnings.simplefilter("ignore")
            w = np.random.RandomState(spec["seed"] + 7).normal(size=spec["d"])
            act = build_gp_predictor(spec, INTERNAL_METRIC_NAME, lambda t: 3.0 * float(np.sum(w * t)) + float(np.sum(t * t)))
            cost = build_gp_predictor(spec, "cost_metric", lambda t: 1.0 + 2.0 * float(t[0]), seed_shift=1)
            # constraint c(x) = x0 - 0.45: candidates with x0 >= 0.45 are predicted infeasible
            con = build_gp_predictor(spec, INTERNAL_CONSTRAINT_NAME, lambda t: float(t[0]) - 0.45, seed_shift=2)
            x = np.array(spec["x"], dtype=float)
            ctx.count(("shared", spec), nontrivial=True)
            ctx.h("shared_sequence_first", spec["order"][0])
            for pos, head in enumerate(spec["order"]):
                hs = dict(spec, head=head)
                if head in ("ei", "lcb"):
                    acq = _make_acq(hs, M, act)
                elif head == "eipu":
                    acq = _make_acq(hs, M, ordered({INTERNAL_METRIC_NAME: act, "cost_metric": cost}, spec.get("active_last")))
                else:
                    acq = _make_acq(hs, M, ordered({INTERNAL_METRIC_NAME: act, INTERNAL_CONSTRAINT_NAME: con}, spec.get("active_last")))
                what = "step %d of %s on shared predictors" % (pos + 1, " -> ".join(spec["order"]))
                v, g = check_acq_gradient(ctx, acq, x, {}, head, case, what)
                if not (np.isfinite(v) and np.all(np.isfinite(g))):
                    ctx.violation("property", "%s (%s): value %r / gradient %r not finite" % (head, what, v, np.asarray(g).tolist()),
                                  case=case, signature=dict(function="compute_acq_with_gradient", head=head, defect="not_finite",
                                                            sequence="shared predictors", after="cei" if "cei" in spec["order"][:pos] else "-"))
                    continue
                if head == "ei":   # closed form from the shared predictor's own predict() / current_best()
                    pr = act.predict(x.reshape(1, -1))[0]
                    m_ = np.asarray(pr["mean"], dtype=float).reshape(-1)
                    sd_ = float(np.asarray(pr["std"]).reshape(-1)[0])
                    b_ = np.asarray(act.current_best()[0], dtype=float).reshape(-1)
                    u_ = (b_ - m_ - spec["jitter"]) / sd_
                    closed = float(np.mean(sd_ * (u_ * ndtr(u_) + _norm.pdf(u_))))
                    if not abs(-v - closed) <= 1e-6 * abs(closed) + 1e-300:
                        ctx.violation("property", "ei (%s): -value %r deviates from the closed form %r" % (what, -v, closed), case=case,
                                      signature=dict(function="compute_acq", head="ei", defect="ei_closed_form_relative",
                                                     sequence="shared predictors"))


# --------------------------------------------------------------------------
# (a2) explicit predictor argument with locally linear stub predictors (exact Jacobians)
# --------------------------------------------------------------------------
def make_linear_stub_class():
    from syne_tune.optimizer.schedulers.searchers.bayesopt.models.model_base import BasePredictor

    class LinearStub(BasePredictor):
        """mean(x) = m0 + Jm (x - x0), std(x) = s0 + Js . (x - x0); backward_gradient is the exact chain rule"""

        def __init__(self, metric, p, keys=("mean", "std")):
            super().__init__(state=None, active_metric=metric)
            self.m0 = np.asarray(p["m0"], dtype=float).reshape(-1)
            self.Jm = np.asarray(p["Jm"], dtype=float).reshape(self.m0.size, -1)
            self.s0, self.Js = float(p["s0"]), np.asarray(p["Js"], dtype=float).reshape(-1)
            self.x0 = np.asarray(p["x0"], dtype=float).reshape(-1)
            self.cand = np.asarray(p["cand"], dtype=float)
            self.keys = set(keys)
            self.backward_calls = 0

        def keys_predict(self):
            return set(self.keys)

        def predict(self, inputs):
            dx = np.asarray(inputs, dtype=float) - self.x0.reshape(1, -1)
            res = {"mean": self.m0.reshape(1, -1) + dx @ self.Jm.T}
            if "std" in self.keys:
                res["std"] = self.s0 + dx @ self.Js
            return [res]

        def predict_mean_current_candidates(self):
            return [self.cand.copy()]

        def backward_gradient(self, input, head_gradients):
            self.backward_calls += 1
            hg = head_gradients[0]
            g = np.asarray(hg["mean"], dtype=float).reshape(-1) @ self.Jm
            if "std" in hg:
                g = g + float(np.asarray(hg["std"]).reshape(-1)[0]) * self.Js
            return [g.reshape(np.asarray(input).shape)]

    return LinearStub


def gen_linear_spec(rng):
    d = rng.choice([1, 2, 3])
    nf = rng.choice([1, 2, 3])
    x0 = [rng.uniform(0.2, 0.8) for _ in range(d)]

    def model(kind):
        m0 = [rng.gauss(0, 1) for _ in range(nf)]
        p = dict(m0=m0, Jm=[[rng.gauss(0, 1) for _ in range(d)] for _ in range(nf)], s0=rng.uniform(0.3, 2.0),
                 Js=[rng.uniform(-0.5, 0.5) for _ in range(d)], x0=x0,
                 cand=[[m + rng.uniform(-1.0, 2.0) for m in m0] for _ in range(rng.randint(1, 3))])
        if kind == "cost":
            p["m0"] = [rng.uniform(0.5, 4.0) for _ in range(nf)]
            p["Jm"] = [[rng.uniform(-0.3, 0.3) for _ in range(d)] for _ in range(nf)]
        if kind == "constr":
            p["cand"] = [[rng.gauss(-0.3, 1.0) for _ in range(nf)] for _ in range(len(p["cand"]))]
        return p
    head = rng.choice(["ei", "lcb", "eipu", "cei"])
    sec = {"eipu": "cost", "cei": "constr"}.get(head)
    spec = dict(head=head, d=d, nf=nf, x=x0, kappa=rng.uniform(0.3, 3.0), expo=rng.choice([1.0, 0.5]),
                jitter=rng.choice([0.01, 0.1]), P1=dict(active=model("active")), P2=dict(active=model("active")),
                active_last_P1=rng.random() < 0.5, active_last_P2=rng.random() < 0.5)
    if sec:
        for P in ("P1", "P2"):
            spec[P][sec] = model(sec)
            if sec == "constr":  # candidate matrices of the two outputs must have one shape
                n_obs = len(spec[P]["active"]["cand"])
                spec[P][sec]["cand"] = [[rng.gauss(-0.3, 1.0) for _ in range(nf)] for _ in range(n_obs)]
    return spec


def run_linear_explicit(ctx, specs):
    import syne_tune.optimizer.schedulers.searchers.bayesopt.models.meanstd_acqfunc_impl as M
    from syne_tune.optimizer.schedulers.searchers.bayesopt.datatypes.common import INTERNAL_METRIC_NAME, INTERNAL_CONSTRAINT_NAME
    Lin = make_linear_stub_class()

    def build(spec, P):
        act = Lin(INTERNAL_METRIC_NAME, spec[P]["active"])
        if spec["head"] in ("ei", "lcb"):
            return act
        if spec["head"] == "eipu":
            return ordered({INTERNAL_METRIC_NAME: act, "cost_metric": Lin("cost_metric", spec[P]["cost"], keys=("mean",))},
                           spec.get("active_last_" + P))
        return ordered({INTERNAL_METRIC_NAME: act, INTERNAL_CONSTRAINT_NAME: Lin(INTERNAL_CONSTRAINT_NAME, spec[P]["constr"])},
                       spec.get("active_last_" + P))

    for spec in specs:
        case = dict(kind="linear", spec=spec)
        with warnings.catch_warnings():
            warnings.simplefilter("ignore")
            P1, P2 = build(spec, "P1"), build(spec, "P2")
            acq = _make_acq(spec, M, P1)
            x = np.array(spec["x"], dtype=float)
            ctx.count(("linear", spec), nontrivial=True)
            ctx.h("linear_stub_head", spec["head"])
            check_acq_gradient(ctx, acq, x, {}, spec["head"], case, "default predictor (linear stub)", v_scale_tol=2e-6)
            check_acq_gradient(ctx, acq, x, dict(predictor=P2), spec["head"], case, "explicit predictor (linear stub)",
                               v_scale_tol=2e-6)


# Box-Cox parameter values AT the case distinction of BoxCoxTargetTransform.forward (|lambda| < 1e-7 uses the
# second-order expansion) and at the corners of its box [-1, 2]
BOXCOX_BRANCH_POINTS = [0.0, 5e-8, -5e-8, 1e-7, -1e-7, 1e-7 - 1e-12, -1e-7 + 1e-12, 1e-7 + 1e-12, -1e-7 - 1e-12,
                        1e-9, -3e-8, -1.0, 2.0]


def gen_fit_spec(rng, k=None):
    spec = dict(seed=rng.randrange(10 ** 6), d=rng.choice([1, 2, 3]), n=rng.randint(2, 7), ard=rng.random() < 0.5,
                mean=rng.choice(["scalar", "zero"]), transform=rng.choice(["none", "none", "boxcox"]),
                warp=rng.random() < 0.25, lam=None, bound=None,
                encoding=rng.choice(["logarithm", "positive"]), verbose=rng.random() < 0.4)
    nb = len(BOXCOX_BRANCH_POINTS)
    if k is not None and k < nb:   # every run visits every branch point once
        spec["transform"], spec["lam"] = "boxcox", BOXCOX_BRANCH_POINTS[k]
        spec["n"] = max(spec["n"], 3)
    elif spec["transform"] == "boxcox" and rng.random() < 0.4:
        spec["lam"] = rng.choice(BOXCOX_BRANCH_POINTS)
    if k is not None and nb + 16 <= k < nb + 28:
        # every run: the INITIAL parameter vector of a freshly constructed likelihood (what every fit starts from),
        # all coordinates or only the warping powers at their default value 1.0; full- and partial-range warpings
        j = k - nb - 16
        spec.update(warp=True, warp_range=["full", "partial"][j % 2], d=max(spec["d"], 2), n=max(spec["n"], 4),
                    at_default=["all", "warping", "subset"][j % 3], encoding=["logarithm", "positive"][(j // 2) % 2],
                    transform=["none", "boxcox"][(j // 4) % 2], lam=None, bound=None)
        return spec
    if rng.random() < 0.25:
        spec["at_default"] = rng.choice(["all", "warping", "subset"])
        spec["warp_range"] = rng.choice(["full", "partial"])
    if k is not None and nb <= k < nb + 16:
        # every run: both encodings, parameters exactly ON their bounds (where L-BFGS-B's projection puts them)
        spec.update(encoding=["logarithm", "positive"][k % 2], ard=True, warp=(k % 4 >= 2), n=max(spec["n"], 3),
                    bound=[[rng.random(), "hi" if k % 8 < 6 else "lo"] for _ in range(rng.randint(1, 3))])
    elif rng.random() < 0.45:   # bounded parameters (not the noise variance) exactly at corners of their boxes
        spec["bound"] = [[rng.random(), rng.choice(["lo", "hi"])] for _ in range(rng.randint(1, 3))]
    return spec


def run_fit_objective(ctx, specs):
    from syne_tune.optimizer.schedulers.searchers.bayesopt.gpautograd.likelihood import GaussianProcessMarginalLikelihood
    from syne_tune.optimizer.schedulers.searchers.bayesopt.gpautograd.kernel import Matern52
    from syne_tune.optimizer.schedulers.searchers.bayesopt.gpautograd.mean import ScalarMeanFunction, ZeroMeanFunction
    from syne_tune.optimizer.schedulers.searchers.bayesopt.gpautograd.target_transform import BoxCoxTargetTransform
    from syne_tune.optimizer.schedulers.searchers.bayesopt.gpautograd.warping import WarpedKernel, Warping
    from syne_tune.optimizer.schedulers.searchers.bayesopt.gpautograd.optimization_utils import (
        create_lbfgs_arguments, ParamVecDictConverter)
    for spec in specs:
        case = dict(kind="fit", spec=spec)
        rs = np.random.RandomState(spec["seed"])
        d, n = spec["d"], spec["n"]
        X = rs.uniform(size=(n, d))
        y = np.exp(0.5 * rs.normal(size=(n, 1))) + 0.1
        enc = spec.get("encoding", "logarithm")
        kernel = Matern52(d, ARD=spec["ard"], encoding_type=enc)
        if spec["warp"]:
            hi_c = d if (spec.get("warp_range", "full") == "full" or d < 2) else d - 1
            kernel = WarpedKernel(kernel=kernel, warpings=[Warping(dimension=d, coordinate_range=(0, hi_c), encoding_type=enc)])
        with warnings.catch_warnings():
            warnings.simplefilter("ignore")
            lik = GaussianProcessMarginalLikelihood(
                kernel=kernel, mean=ScalarMeanFunction() if spec["mean"] == "scalar" else ZeroMeanFunction(),
                target_transform=BoxCoxTargetTransform() if spec["transform"] == "boxcox" else None,
                encoding_type=enc)
            lik.reset_params(np.random.RandomState(spec["seed"] % 1000))
            data = {"features": X, "targets": y}
            lik.on_fit_start(data)
            verbose = bool(spec.get("verbose", False))   # logging switch of OptimizationConfig: must not affect results
            import logging
            logging.getLogger("syne_tune.optimizer.schedulers.searchers.bayesopt.gpautograd.optimization_utils").setLevel(logging.WARNING)
            obj, param_dict = create_lbfgs_arguments(criterion=lik, crit_args=[data], verbose=verbose)
            ctx.h("fit_verbose", verbose)
            conv = ParamVecDictConverter(param_dict)
            v0 = np.array(conv.to_vec(), dtype=float)
            bounds = lik.box_constraints_internal()
            v = v0.copy()
            for name in conv.names:  # random point in the interior of the box (moderate range around the start)
                lo, hi = bounds.get(name, (None, None))
                for i in conv.name_to_index[name]:
                    a = v0[i] - 1.5 if lo is None else max(float(lo) + 0.5, v0[i] - 1.5)
                    b = v0[i] + 1.5 if hi is None else min(float(hi) - 0.5, v0[i] + 1.5)
                    v[i] = rs.uniform(a, b) if a < b else v0[i]
            # keep the noise variance away from the numerically singular regime (jitter search would kick in,
            # whose dependence on the inputs the backward pass ignores by design)
            for name in conv.names:
                if "noise_variance" in name:
                    for i in conv.name_to_index[name]:
                        v[i] = rs.uniform(-7.0, 0.0)

            # coordinates left at the special / default values of a freshly constructed likelihood (warping powers
            # exactly 1.0, initial mean, noise, scales): the point every fit starts from
            mode = spec.get("at_default")
            if mode:
                rs_d = np.random.RandomState(spec["seed"] + 11)
                for name in conv.names:
                    for i in conv.name_to_index[name]:
                        if mode == "all" or (mode == "warping" and "warping" in name) or (mode == "subset" and rs_d.rand() < 0.5):
                            v[i] = v0[i]
                ctx.h("fit_at_default_values", mode + ("/warped:" + spec.get("warp_range", "full") if spec["warp"] else ""))
            placed = []
            if spec.get("lam") is not None:
                for name in conv.names:
                    if "boxcox_lambda" in name:
                        for i in conv.name_to_index[name]:
                            v[i] = float(spec["lam"])
                            placed.append(int(i))
                            ctx.h("fit_boxcox_lambda_at", repr(float(spec["lam"])))
            on_bound = {}
            for i in placed:
                if float(v[i]) in (-1.0, 2.0):
                    on_bound[i] = "lo" if float(v[i]) == -1.0 else "hi"
            bl = spec.get("bound") or []
            if bl and not isinstance(bl[0], (list, tuple)):
                bl = [bl]
            for r, side in bl:
                # (coordinate, side) pairs that have a finite bound; the softrelu encoding overflows beyond ~709,
                # the noise variance at its lower bound is the jitter regime (separate stream)
                elig = []
                for name in conv.names:
                    if "noise_variance" in name:
                        continue
                    lo, hi = bounds.get(name, (None, None))
                    for i in conv.name_to_index[name]:
                        if int(i) in placed or int(i) in on_bound:
                            continue
                        for sd, b in (("lo", lo), ("hi", hi)):
                            if b is not None and sd == side and abs(float(b)) <= 700.0:
                                elig.append((int(i), sd, float(b), name))
                if elig:
                    i, sd, b, name = elig[int(r * len(elig)) % len(elig)]
                    v[i] = b
                    on_bound[i] = sd
                    ctx.h("fit_param_on_bound", "%s/%s:%s" % (enc, name.split("_", 1)[-1], sd))
            ctx.h("fit_encoding", enc)

            def val(vec):
                return float(np.asarray(obj(np.array(vec, dtype=float))[0]).reshape(-1)[0])
            f0, g = obj(v.copy())
            f0 = float(np.asarray(f0).reshape(-1)[0])
            g = np.asarray(g, dtype=float).reshape(-1)
            ctx.count(("fit", spec), nontrivial=n >= 3)
            ctx.h("fit_config", "%s/%s/%s%s%s" % ("ard" if spec["ard"] else "iso", spec["mean"], spec["transform"],
                                                   "/warp" if spec["warp"] else "", ""))
            sig = dict(function="create_lbfgs_arguments objective")
            if not abs(val(v) - f0) <= 1e-10 * max(1.0, abs(f0)):
                ctx.violation("property", "fitting objective: two evaluations at the same point differ", case=case,
                              signature=dict(sig, defect="value_mismatch"))
            # the logging switch does not change what the objective returns
            f_o, g_o = create_lbfgs_arguments(criterion=lik, crit_args=[data], verbose=not verbose)[0](v.copy())
            f_o, g_o = float(np.asarray(f_o).reshape(-1)[0]), np.asarray(g_o, dtype=float).reshape(-1)
            if not (abs(f_o - f0) <= 1e-10 * max(1.0, abs(f0)) and np.allclose(g_o, g, rtol=1e-9, atol=1e-10 * max(1.0, abs(f0)))):
                ctx.violation("property", "fitting objective with verbose=%r returns value %r / gradient %r but with verbose=%r "
                              "value %r / gradient %r at the same parameters" % (
                                  verbose, f0, g.tolist()[:5], not verbose, f_o, g_o.tolist()[:5]), case=case,
                              signature=dict(sig, defect="depends_on_verbose"))
            check_objective_call_sequences(
                ctx, lambda: create_lbfgs_arguments(criterion=lik, crit_args=[data], verbose=verbose)[0], v,
                np.random.RandomState(spec["seed"] + 5), case)
            for i in range(v.size):
                def f(t):
                    vv = v.copy()
                    vv[i] = t
                    return val(vv)
                def estimate(step):
                    if i in on_bound:
                        # exactly on a bound: one-sided 5-point difference pointing INTO the box (what L-BFGS-B can see)
                        sgn = 1.0 if on_bound[i] == "lo" else -1.0
                        fs = [f(float(v[i]) + sgn * kk * step) for kk in range(5)]
                        return sgn * (-25.0 * fs[0] + 48.0 * fs[1] - 36.0 * fs[2] + 16.0 * fs[3] - 3.0 * fs[4]) / (12.0 * step)
                    return richardson(f, float(v[i]), step)
                h0 = (2e-4 if i in on_bound else 1e-4) * max(1.0, abs(v[i]))
                fd, fd_coarse = estimate(h0), estimate(2.0 * h0)
                # the two step sizes disagree by the truncation + round-off error of the estimate itself (large when a
                # parameter at a corner of its box makes the kernel matrix ill-conditioned): widen the tolerance by it
                fd_err = abs(fd - fd_coarse)
                if fd_err > 0.05 * max(abs(fd), abs(g[i]), 1e-300):
                    ctx.h("fit_fd", "inconclusive (finite differences too noisy)")
                    continue
                ctx.h("fit_fd", "one-sided" if i in on_bound else "central")
                if not abs(fd - g[i]) <= 1e-5 * max(1.0, abs(g[i]), abs(fd), abs(f0)) + 20.0 * fd_err:
                    pname = [nm for nm in conv.names if i in list(conv.name_to_index[nm])]
                    sg = dict(sig, defect="parameter_gradient", parameter=(pname or ["?"])[0].split("_", 1)[-1])
                    if i in placed:   # where the Box-Cox parameter sits relative to the code's case distinction
                        a = abs(float(v[i]))
                        sg["boxcox_lambda_region"] = ("abs_eq_eps" if a == 1e-7 else "abs_lt_eps" if a < 1e-7 else
                                                      "box_corner" if a in (1.0, 2.0) else "abs_gt_eps")
                    if i in on_bound:
                        sg["on_bound"], sg["encoding"] = on_bound[i], enc
                    ctx.violation("property", "fitting objective (%s encoding): gradient[%d] (%s) = %r at parameter value %r%s but "
                                  "%s differences of the objective value give %r" % (
                                      enc, i, pname, float(g[i]), float(v[i]),
                                      " (exactly on its %s bound)" % on_bound[i] if i in on_bound else "",
                                      "one-sided (into the box)" if i in on_bound else "central", fd),
                                  case=case, signature=sg)


def gen_fit_mf_spec(rng, k=None):
    return dict(seed=rng.randrange(10 ** 6), d=rng.choice([1, 2, 3]), ard=rng.random() < 0.5,
                model=["independent", "hypertune"][k % 2] if k is not None else rng.choice(["independent", "hypertune"]),
                counts=[rng.randint(3, 8), rng.randint(2, 6), rng.randint(2, 4)])


def run_fit_multifidelity(ctx, specs):
    """scipy fitting objective of the marginal likelihoods with one GP per rung level (kernel passed to the posterior
    states as a tuple (kernel, covariance_scale_r)): IndependentGPPerResourceModel and HyperTuneIndependentGPModel"""
    from syne_tune.optimizer.schedulers.searchers.bayesopt.gpautograd.kernel import Matern52
    from syne_tune.optimizer.schedulers.searchers.bayesopt.gpautograd.mean import ScalarMeanFunction
    from syne_tune.optimizer.schedulers.searchers.bayesopt.gpautograd.independent.gpind_model import IndependentGPPerResourceModel
    from syne_tune.optimizer.schedulers.searchers.bayesopt.gpautograd.hypertune.gp_model import (
        HyperTuneIndependentGPModel, HyperTuneDistributionArguments)
    from syne_tune.optimizer.schedulers.searchers.bayesopt.gpautograd.hypertune.utils import ExtendFeaturesByResourceMixin
    from syne_tune.optimizer.schedulers.searchers.bayesopt.gpautograd.optimization_utils import (
        create_lbfgs_arguments, ParamVecDictConverter)
    levels, rrange = [1, 3, 9], (1, 9)
    for spec in specs:
        case = dict(kind="fit_mf", spec=spec)
        rs = np.random.RandomState(spec["seed"])
        d = spec["d"]
        with warnings.catch_warnings():
            warnings.simplefilter("ignore")
            fparts, tparts = [], []
            for r, cnt in zip(levels, spec["counts"]):
                xr = rs.uniform(size=(cnt, d))
                fparts.append(ExtendFeaturesByResourceMixin(r, rrange).extend_features_by_resource(xr))
                tparts.append(np.sin(4.0 * xr[:, :1]) + np.sum((xr - 0.3) ** 2, axis=1, keepdims=True) + 1.0 / r
                              + 0.05 * rs.normal(size=(cnt, 1)))
            data = {"features": np.vstack(fparts), "targets": np.vstack(tparts)}
            kw = dict(kernel=Matern52(d, ARD=spec["ard"], has_covariance_scale=False),
                      mean_factory=lambda resource: ScalarMeanFunction(), resource_attr_range=rrange, random_seed=0)
            if spec["model"] == "hypertune":
                gm = HyperTuneIndependentGPModel(
                    hypertune_distribution_args=HyperTuneDistributionArguments(num_samples=10, num_brackets=3), **kw)
            else:
                gm = IndependentGPPerResourceModel(**kw)
            gm.create_likelihood(levels)
            lik = gm.likelihood
            lik.on_fit_start(data)
            obj, param_dict = create_lbfgs_arguments(criterion=lik, crit_args=[data])
            conv = ParamVecDictConverter(param_dict)
            v0 = np.array(conv.to_vec(), dtype=float)
            bounds = lik.box_constraints_internal()
            v = v0 + rs.uniform(-0.7, 0.7, size=v0.shape)
            names = []
            for name in conv.names:
                names.extend([name] * len(conv.name_to_index[name]))
            for i, name in enumerate(names):
                lo, hi = bounds.get(name, (None, None))
                if lo is not None:
                    v[i] = max(v[i], float(lo) + 0.2)
                if hi is not None:
                    v[i] = min(v[i], float(hi) - 0.2)
                if "noise_variance" in name:
                    v[i] = rs.uniform(-6.0, -1.0)

            def val(vec):
                return float(np.asarray(obj(np.array(vec, dtype=float))[0]).reshape(-1)[0])
            f0, g = obj(v.copy())
            f0, g = float(np.asarray(f0).reshape(-1)[0]), np.asarray(g, dtype=float).reshape(-1)
            ctx.count(("fit_mf", spec), nontrivial=True)
            ctx.h("fit_mf_model", spec["model"])
            sig = dict(function="create_lbfgs_arguments objective", surrogate=spec["model"] + " GPs per rung level")
            for i, name in enumerate(names):
                def f(t):
                    vv = v.copy()
                    vv[i] = t
                    return val(vv)
                fd, fd_err, ok = fd_estimate(f, float(v[i]), 1e-3 * max(1.0, abs(v[i])), floor=1e-9 * max(1.0, abs(f0)))
                if not ok:
                    ctx.h("fit_mf_fd", "inconclusive")
                    continue
                ctx.h("fit_mf_fd", "checked")
                if not abs(fd - g[i]) <= 1e-5 * max(1.0, abs(g[i]), abs(fd), abs(f0)) + 20.0 * fd_err:
                    ctx.violation("property", "fitting objective (%s GPs per rung level): gradient[%d] (%s) = %r but central "
                                  "differences of the objective value give %r" % (spec["model"], i, name, float(g[i]), fd),
                                  case=case, signature=dict(sig, defect="parameter_gradient",
                                                            parameter="".join(ch for ch in name.split("_", 1)[-1] if not ch.isdigit())))


def check_objective_call_sequences(ctx, make_objective, v, rs, case):
    """The scipy objective is a function of the VALUES in the array it is handed: sequences of calls on one buffer
    mutated in place between calls (gradient-descent style), repeated calls at one point, and two alternating
    buffers must each return what a separately created objective returns on a fresh copy of the same values."""
    obj, ref = make_objective(), make_objective()

    def res(o, arr):
        f, g = o(arr)
        return float(np.asarray(f).reshape(-1)[0]), np.array(g, dtype=float).reshape(-1)

    def same(a, b):
        return abs(a[0] - b[0]) <= 1e-10 * max(1.0, abs(b[0])) and np.allclose(a[1], b[1], rtol=1e-9, atol=1e-10 * max(1.0, abs(b[0])))
    buf, other = v.copy(), v.copy()
    other += 0.03 * rs.normal(size=v.size)
    steps = []
    for t in range(6):
        kind = ["same buffer, unchanged", "same buffer, mutated in place", "same buffer, mutated in place",
                "other buffer", "same buffer, mutated in place", "copy of the buffer"][t]
        if kind == "same buffer, mutated in place":
            # x -= lr * g  style update of the caller's own array
            buf -= 0.02 * rs.uniform(0.2, 1.0) * np.sign(last[1]) * np.minimum(1.0, np.abs(last[1]))
        arr = other if kind == "other buffer" else (buf.copy() if kind == "copy of the buffer" else buf)
        got = res(obj, arr)
        want = res(ref, np.array(arr, dtype=float, copy=True))
        steps.append(kind)
        last = want
        ctx.h("fit_call_sequence", kind)
        if not same(got, want):
            ctx.violation("property", "fitting objective, call %d of a sequence (%s): returned value %r / gradient %r but a fresh "
                          "evaluation at the same parameter values gives %r / %r" % (
                              t + 1, " -> ".join(steps), got[0], got[1].tolist()[:4], want[0], want[1].tolist()[:4]),
                          case=case, signature=dict(function="create_lbfgs_arguments objective",
                                                    defect="depends_on_call_history", step=kind))
            return


def run(ctx, replay=None):
    ctx.rule = ("cases: (a) real EI/LCB/EIpu/CEI acquisition objects on stub predictors returning generated "
                "(mean, std, cost / constraint) fantasy arrays (nf 1..5, broadcasting both ways, clamped std/cost, "
                "infeasible columns; {output: predictor} dicts of the two-output heads with the active metric listed first "
                "or last, also for the predictor= argument), compute_acq vs compute_acq_with_gradient vs PrimFloat model; (b) "
                "cholesky_factorization_backward / AddJitterOp_vjp on random lower-triangular L (n 1..6) vs the "
                "executable model; (b2) AddJitterOp on slightly indefinite symmetric matrices (smallest eigenvalue -1e-10..-1e-6 "
                "relative, tiny sigsq_init) so that the retry loop runs, and GP objectives with a numerically singular kernel "
                "matrix: forward = x + (sigsq_init + jitter_k) I for the documented jitter_k, vs the model's loop, and central "
                "differences with the retry count held fixed vs the vjp; head and GP cases include inputs many predictive standard deviations worse than the "
                "incumbent (u down to -12 / -30), EI >= 0 checked exactly and EI / dh/dmean RELATIVELY (1e-6) against the "
                "tail-accurate closed form; (c) the same acquisition classes on tiny fitted GPs, with the default predictor and "
                "with an explicit predictor= argument (a second fitted surrogate), (a2) the same on locally linear "
                "stub predictors with exact Jacobians, and (d) the scipy fitting objective at random interior points, "
                "at every branch point of the Box-Cox case distinction (lambda in {0, +-5e-8, +-1e-7 +- 1e-12, ...}, "
                "box corners -1, 2) and with one parameter at a corner of its box; gradients vs Richardson central "
                "differences (step 1e-4, wider than the branch); both parameter encodings (logarithm, positive/softrelu) with "
                "parameters exactly ON their bounds, checked with one-sided differences pointing into the box; call sequences "
                "of the objective on one buffer mutated in place / repeated / alternating buffers vs fresh evaluations; "
                "(c4) EI / LCB on GPs whose kernel diagonal depends on the input (exp-decay, freeze-thaw, product with Fabolas, "
                "warped exp-decay), gradient in all coordinates incl. the resource one; both settings of the verbose switch; the fitting objectives of the one-GP-per-rung-level marginal likelihoods "
                "(independent and HyperTune); fit A -> acquisition function -> same estimator fit again -> fit-A acquisition "
                "function asked again; (c3) EI / LCB on independent GPs per rung level with batches of 3..7 inputs at "
                "mixed, ungrouped rung levels, batch rows vs single-input calls vs closed form; (c2) EI and LCB on HyperTune independent-GP surrogates with ensemble distributions on 1, 2, 3 rung levels. "
                "Non-trivial = a head case with more than "
                "one fantasy column or a second output model; a Cholesky case with n >= 2; a GP case with pending "
                "candidates and nf > 1; a fitting case with n >= 3; distinct by content hash")
    rng = ctx.rng
    np.seterr(all="ignore")
    if replay:
        kind = replay.get("kind")
        if kind == "head":
            run_heads(ctx, [replay["spec"]])
        elif kind == "chol":
            run_chol(ctx, [replay["spec"]])
        elif kind == "gp_acq":
            run_gp_acq(ctx, [replay["spec"]])
        elif kind == "fit":
            run_fit_objective(ctx, [replay["spec"]])
        elif kind == "linear":
            run_linear_explicit(ctx, [replay["spec"]])
        elif kind == "jitter":
            run_jitter_forced(ctx, [replay["spec"]])
        elif kind == "gp_jitter":
            run_gp_jitter(ctx, [replay["spec"]])
        elif kind == "hypertune":
            run_hypertune(ctx, [replay["spec"]])
        elif kind == "indep":
            run_indep(ctx, [replay["spec"]])
        elif kind == "fit_mf":
            run_fit_multifidelity(ctx, [replay["spec"]])
        elif kind == "reskernel":
            run_gp_resource_kernel(ctx, [replay["spec"]])
        elif kind == "shared":
            run_shared_sequences(ctx, [replay["spec"]])
        return
    n_head = ctx.n(200, 2500)
    specs = [gen_head_spec(rng, head) for head in ("ei", "lcb", "eipu", "cei") for _ in range(n_head)]
    specs += [gen_head_spec(rng, head, tail=True) for head in ("ei", "eipu", "cei") for _ in range(ctx.n(60, 800))]
    run_heads(ctx, specs)
    run_chol(ctx, [gen_chol_spec(rng) for _ in range(ctx.n(200, 2000))])
    run_jitter_forced(ctx, [gen_jitter_spec(rng) for _ in range(ctx.n(100, 1500))])
    run_gp_jitter(ctx, [gen_gp_jitter_spec(rng) for _ in range(ctx.n(6, 40))])
    run_gp_acq(ctx, [gen_gp_spec(rng) for _ in range(ctx.n(70, 1200))] +
               [gen_gp_tail_spec(rng) for _ in range(ctx.n(25, 400))])
    run_hypertune(ctx, [gen_hypertune_spec(rng, k) for k in range(ctx.n(60, 900))])
    run_indep(ctx, [gen_indep_spec(rng, k) for k in range(ctx.n(30, 500))])
    run_gp_resource_kernel(ctx, [gen_reskernel_spec(rng, k) for k in range(ctx.n(32, 500))])
    run_shared_sequences(ctx, [gen_shared_spec(rng, k) for k in range(ctx.n(14, 300))])
    run_linear_explicit(ctx, [gen_linear_spec(rng) for _ in range(ctx.n(150, 2000))])
    run_fit_objective(ctx, [gen_fit_spec(rng, k) for k in range(ctx.n(64, 600))])
    run_fit_multifidelity(ctx, [gen_fit_mf_spec(rng, k) for k in range(ctx.n(10, 200))])
