"""C20 — a checkpoint exists whenever a trial is resumed or warm-started from it.

Whole runs of the REAL Tuner (syne_tune/tuner.py) with every pause-and-resume
scheduler that runs here, over the harness-side in-memory backend
`ckpt_backend.CkptBackend` (real TrialBackend base-class logic, scripted workers,
scripted random order of the reports of different trials inside one poll).

* independent checker (`check_log`) on the recorded call log: every
  delete_checkpoint(i) is allowed by the property; every resume_trial(i) and every
  start_trial(checkpoint_trial_id=j) finds the checkpoint not deleted before;
* correspondence: the recorded oracle data (poll contents, decisions, suggestions,
  callback choices) are fed to model/Checkpoint.v (vm_compute in coqc) and the
  model's trace of backend calls / decisions must equal the implementation's:
  layer 1 (arbitrary-oracle scheduler) for every run, and the scheduler models
  (promotion-type book-keeping, synchronous Hyperband, PBT) for their runs.
"""
import contextlib
import io
import logging
import os
import random
import tempfile
from unittest import mock

from common import q, lst, natlit, zlit, blit

from ckpt_backend import CkptBackend, Recorder, Explorer, METRIC, RESOURCE, MAX_RES, metric_value

IMPORTS = "From Verif Require Import model.Base model.Checkpoint.\nOpen Scope Q_scope.\n"

PRELUDE = r"""
Definition is_cmp_event (e : event) : bool :=
  match e with EClone _ _ | ERemovable _ => false | _ => true end.

Definition oracle_case := (cfg * list (list Z) * list (iter_in (decision * option Z) suggestion) * list event)%type.
Definition chk_oracle (c : oracle_case) : bool :=
  let '(cf, rm, its, impl) := c in
  trace_eqb (filter is_cmp_event (run oracle_sched_rm cf (init rm) its)) impl.

Definition promo_case := (cfg * list (iter_in decision (option Z)) * list event)%type.
Definition chk_promo (c : promo_case) : bool :=
  let '(cf, its, impl) := c in
  trace_eqb (filter is_cmp_event (run promo_sched cf (init promo0) its)) impl.

Definition sync_case := (cfg * list (list (nat * Z)) * bool * list (iter_in (option Q * Z) unit) * list event)%type.
Definition chk_sync (c : sync_case) : bool :=
  let '(cf, tbl, mx, its, impl) := c in
  trace_eqb (filter is_cmp_event (run sync_sched cf (init (sync0 tbl mx)) its)) impl.

(* bool: does the code show the behaviour after the fix of F-C20-1 (probe in the driver)? *)
Definition promo2_case := (cfg * list Z * Z * list (iter_in Z (option (Z * Z) * Z)) * list event)%type.
Definition chk_promo2 (c : promo2_case) : bool :=
  let '(cf, levels, max_t, its, impl) := c in
  trace_eqb (filter is_cmp_event (run promo2_sched cf (init (promo2_0 levels max_t)) its)) impl.

Definition dehb_case := (cfg * list (list (nat * Z)) * bool * bool * list (iter_in (option Q * Z) unit) * list event)%type.
Definition chk_dehb (c : dehb_case) : bool :=
  let '(cf, tbl, mx, sup, its, impl) := c in
  trace_eqb (filter is_cmp_event (run dehb_sched cf (init (dehb0 tbl mx sup)) its)) impl.

Definition fs_case := list (fs_op * list (Z * option Z)).
Definition chk_fs (c : fs_case) : bool := fs_replay [] c.

Definition pbt_case := (cfg * bool * pbt_prm * list (iter_in (Q * Q * Z) Z) * list event)%type.
Definition chk_pbt (c : pbt_case) : bool :=
  let '(cf, fixed, prm, its, impl) := c in
  trace_eqb (filter is_cmp_event (run (pbt_sched_gen fixed prm) cf (init pbt0) its)) impl.
"""

HB_KINDS = ["promotion", "pasha", "rush_promotion", "cost_promotion"]
KINDS = HB_KINDS + ["sync", "dehb", "pbt"]
PBT_SIG = {"scheduler": "PBT", "event": "clone_from_trial_stopped_in_same_batch"}


# ---------------------------------------------------------------------------------
# case generation and the real run
# ---------------------------------------------------------------------------------
def gen_spec(rng, kind=None):
    kind = kind or rng.choice(KINDS)
    spec = dict(kind=kind, seed=rng.randrange(10 ** 6), curve_seed=rng.randrange(10 ** 6),
                n_workers=rng.randint(1, 4), delete_checkpoints=rng.random() < 0.7,
                max_steps=rng.choice([1, 2, 3, 3]), polls=rng.randint(4, 22),
                flavour=rng.choice(["plain", "ties", "trend"]), mode=rng.choice(["min", "max"]),
                use_max_resource_attr=rng.random() < 0.5, remove_callback=False, speculative=None, plan=None,
                fail_den=rng.choice([None, None, 6, 12, 25]))
    # wait_trial_completion_when_stopping and a stop criterion that holds during a window of polls and then
    # does not hold any more (a user lambda / PlateauStopper can behave like this): no scheduling in the window
    if rng.random() < 0.35:
        a = rng.randint(1, max(1, spec["polls"] - 3))
        spec["wait_completion"] = True
        spec["stop_window"] = [a, a + rng.randint(1, 4)]
    # fault injection: the n-th backend._pause_trial raises OSError. Legal outcomes: the exception ends run()
    # (nothing is resumed afterwards) or the trial is paused with its checkpoint intact.
    if kind in HB_KINDS + ["sync"] and spec["delete_checkpoints"] and rng.random() < 0.25:
        spec["pause_fault"] = sorted({rng.randint(1, 8) for _ in range(rng.randint(1, 2))})
    if kind in HB_KINDS:
        # PASHA supports a single bracket only (hyperband_pasha.py raises IndexError with 2: outside this property)
        spec.update(max_t=rng.choice([9, 9, 27, 8]), rf=rng.choice([2, 3]),
                    brackets=1 if kind == "pasha" else rng.choice([1, 1, 2]))
        if spec["delete_checkpoints"] and rng.random() < 0.5:
            spec["speculative"] = rng.choice(["score", "by_level", "random"])
            spec["max_num_checkpoints"] = spec["n_workers"] + rng.randint(1, 3)
    elif kind in ("sync", "dehb"):
        spec.update(max_t=rng.choice([9, 9, 27, 8]), rf=rng.choice([2, 3]), nan_den=rng.choice([None, 2, 3, 5]))
        # number of brackets (per iteration): None = default (= number of rung levels), or 1..number of rung levels;
        # DEHB also with a custom first-bracket rung system and num_brackets_per_iteration below the number of rungs
        n_levels, lv = 1, spec["rf"]
        while lv <= spec["max_t"]:
            n_levels, lv = n_levels + 1, lv * spec["rf"]
        spec["brackets"] = rng.choice([None, None] + list(range(1, n_levels + 1)))
        if kind == "dehb" and rng.random() < 0.3:
            spec["custom_rungs"] = rng.choice([[[4, 1], [2, 3], [1, 9]], [[3, 1], [1, 2]], [[6, 1], [3, 2], [2, 4], [1, 8]]])
            spec["max_t"] = spec["custom_rungs"][-1][1]
            spec["brackets"] = rng.choice([None] + list(range(1, len(spec["custom_rungs"]) + 1)))
        if kind == "dehb" and rng.random() < 0.3:
            # a straggler: the first resumed trial (non-base rung of the first bracket) runs on a worker that is
            # 20-60x slower, so the other workers get ahead into later brackets (also the next one of offset 0)
            f = rng.randint(20, 60)
            spec.update(custom_rungs=rng.choice([[[9, 1], [5, 3], [3, 9]], [[6, 1], [3, 2], [2, 4], [1, 8]], [[4, 1], [3, 2], [2, 4]]]),
                        brackets=2, n_workers=rng.randint(3, 4), delete_checkpoints=True, straggler_factor=f,
                        polls=2 * f + rng.randint(20, 60), max_steps=rng.choice([2, 3]), fail_den=None,
                        nan_den=rng.choice([None, None, 5]))
            spec["max_t"] = spec["custom_rungs"][-1][1]
        if kind == "dehb" and not spec.get("straggler_factor") and rng.random() < 0.3:
            spec["support_pause_resume"] = False
        if kind == "sync" and rng.random() < 0.6:
            # tied metric values at the promotion boundary (discrete / saturated metric), several workers of
            # different speed so that results arrive out of slot order
            spec["flavour"] = rng.choice(["ties", "saturated", "saturated"])
            spec["n_workers"] = rng.randint(2, 4)
            spec["nan_den"] = None
        if kind == "sync":
            # the Tuner installs RemoveCheckpointsCallback itself iff delete_checkpoints; a user may also add it
            spec["remove_callback"] = spec["delete_checkpoints"] or rng.random() < 0.3
    else:
        spec.update(max_t=rng.choice([3, 4, 6]), population_size=rng.randint(2, 4),
                    interval=rng.choice([1, 1, 2]), qf=rng.choice([0.25, 0.5, 0.5, 0.125]),
                    use_max_resource_attr=False)
        spec["worker_epochs"] = spec["max_t"] + rng.choice([0, 0, 1, 3])
    return spec


def build_scheduler(spec, be=None):
    from syne_tune.config_space import uniform, randint
    kind = spec["kind"]
    cs = {"lr": uniform(0, 1), "w": randint(0, 10)}
    common = dict(metric=METRIC, mode=spec["mode"], resource_attr=RESOURCE, random_seed=spec["seed"])
    if kind != "pbt":
        if spec["use_max_resource_attr"]:
            cs[MAX_RES] = spec["max_t"]
            common["max_resource_attr"] = MAX_RES
        elif kind in ("sync", "dehb"):
            common["max_resource_level"] = spec["max_t"]
        else:
            common["max_t"] = spec["max_t"]
    if kind in HB_KINDS:
        from syne_tune.optimizer.schedulers.hyperband import HyperbandScheduler
        kw = dict(common, type=kind, searcher="random", grace_period=1, reduction_factor=spec["rf"],
                  brackets=spec["brackets"])
        if kind == "cost_promotion":
            kw["cost_attr"] = "elapsed_time"
        if kind == "rush_promotion":
            kw["points_to_evaluate"] = [{"lr": 0.5, "w": 3}]
            kw["rung_system_kwargs"] = dict(num_threshold_candidates=1)
        if spec.get("speculative"):
            ek = dict(max_num_checkpoints=spec["max_num_checkpoints"], max_wallclock_time=1000)
            if spec["speculative"] != "score":
                ek["baseline"] = spec["speculative"]
            kw["early_checkpoint_removal_kwargs"] = ek
        return HyperbandScheduler(cs, **kw)
    if kind == "sync":
        from syne_tune.optimizer.schedulers.synchronous.hyperband_impl import SynchronousGeometricHyperbandScheduler
        return SynchronousGeometricHyperbandScheduler(cs, searcher="random", grace_period=1,
                                                      reduction_factor=spec["rf"], brackets=spec.get("brackets"), **common)
    if kind == "dehb":
        from syne_tune.optimizer.schedulers.synchronous.hyperband_impl import (
            GeometricDifferentialEvolutionHyperbandScheduler)
        if spec.get("custom_rungs"):
            from syne_tune.optimizer.schedulers.synchronous.dehb import DifferentialEvolutionHyperbandScheduler
            return DifferentialEvolutionHyperbandScheduler(
                cs, rungs_first_bracket=[tuple(x) for x in spec["custom_rungs"]],
                num_brackets_per_iteration=spec.get("brackets"),
                support_pause_resume=spec.get("support_pause_resume", True), **common)
        return GeometricDifferentialEvolutionHyperbandScheduler(cs, grace_period=1, reduction_factor=spec["rf"],
                                                                brackets=spec.get("brackets"),
                                                                support_pause_resume=spec.get("support_pause_resume", True),
                                                                **common)
    from syne_tune.optimizer.schedulers.pbt import PopulationBasedTraining
    return PopulationBasedTraining(cs, custom_explore_fn=Explorer(be) if be is not None else None,
                                   max_t=spec["max_t"], population_size=spec["population_size"],
                                   perturbation_interval=spec["interval"], quantile_fraction=spec["qf"], **common)


class _FakeTime:
    def __init__(self, be):
        self.be = be

    def perf_counter(self):
        return float(self.be.polls)

    def time(self):
        return float(self.be.polls)


class WindowStop:
    """scripted stop criterion: holds inside spec["stop_window"] = [a, b) (polls) and from spec["polls"] on;
    every evaluation is written to the log"""

    def __init__(self, be, spec):
        self.be, self.spec = be, spec

    def __call__(self, status):
        w = self.spec.get("stop_window")
        v = self.be.polls >= self.spec["polls"] or bool(w and w[0] <= self.be.polls < w[1])
        self.be.log.append(("stopcond", v))
        return v


def run_case(spec):
    """Runs the real Tuner; returns (log, extra) — extra: crash text, world plan, rung table."""
    from syne_tune import Tuner
    from syne_tune.callbacks.remove_checkpoints_callback import RemoveCheckpointsCallback
    rng = random.Random(spec["seed"])
    be = CkptBackend(rng, spec, delete_checkpoints=spec["delete_checkpoints"])
    sch = build_scheduler(spec, be)
    cbs = [Recorder(be)]
    if spec["kind"] == "sync" and spec["remove_callback"] and not spec["delete_checkpoints"]:
        cbs.append(RemoveCheckpointsCallback())
    tuner = Tuner(trial_backend=be, scheduler=sch, stop_criterion=WindowStop(be, spec),
                  wait_trial_completion_when_stopping=bool(spec.get("wait_completion")),
                  n_workers=spec["n_workers"], sleep_time=0, callbacks=cbs, save_tuner=False,
                  tuner_name="c20", suffix_tuner_name=False, results_update_interval=1e9, print_update_interval=1e9,
                  max_failures=10 ** 6)
    crash = None
    with contextlib.redirect_stdout(io.StringIO()), \
            mock.patch("syne_tune.callbacks.hyperband_remove_checkpoints_callback.time", _FakeTime(be)):
        try:
            tuner.run()
        except Exception as e:  # the finally block (stop_all) has run
            crash = "%s: %s" % (type(e).__name__, str(e)[:200])
    extra = dict(crash=crash, plan=be.plan_out, callbacks=[type(c).__name__ for c in tuner.callbacks],
                 pbt_fixed=PBT_FIXED.get("value", True))
    if spec["kind"] in HB_KINDS:
        extra["levels"] = [int(x) for x in sch.rung_levels]
        extra["max_t"] = int(sch.max_t)
    if spec["kind"] in ("sync", "dehb"):
        extra["tbl"] = [[(int(s), int(l)) for s, l in rungs] for rungs in sch.bracket_manager.bracket_rungs]
    return be.log, extra


# ---------------------------------------------------------------------------------
# independent checker on the implementation's call log
# ---------------------------------------------------------------------------------
def check_log(spec, log):
    """Returns (violations, stats). A violation = (what, signature)."""
    kind = spec["kind"]
    viol, stats = [], dict(deletes=0, resumes=0, clones=0, spec_resume_no_ckpt=0, removable=0, stop_deletes=0)
    sched_stop = {}      # trial -> index of its STOP decision
    state = {}           # trial -> running | paused | stopped
    deleted = {}         # trial -> (ctx, index) : checkpoint deleted since the trial last ran
    never_again = {}     # trial -> index: removed as "can never be resumed"
    ended = False
    last_poll = -1
    stop_of_paused = set()
    warm, copied = {}, set()   # trial -> source of its warm start; trials whose checkpoint copy was made
    in_loop_end = False   # callbacks' on_loop_end phase: the only place where callback deletions belong
    for k, e in enumerate(log):
        tag = e[0]
        if tag == "loop_end":
            in_loop_end = True
        elif tag in ("loop_start", "tuning_end"):
            in_loop_end = False
        if tag == "poll":
            last_poll = k
            for t in e[3]:
                if state.get(t) == "running":
                    state[t] = "failed"
            for t in e[2]:
                if state.get(t) == "running":
                    state[t] = "completed"
        elif tag == "decision":
            if e[2] == "STOP":
                sched_stop[e[1]] = k
        elif tag == "start":
            state[e[1]] = "running"
            if e[2] is not None:
                stats["clones"] += 1
                j = e[2]
                warm[e[1]] = j
                if j in never_again:
                    viol.append(("trial %d listed as never-resumable was used as clone source" % j,
                                 dict(scheduler=kind.upper(), event="clone_from_removable_trial")))
                if j in deleted:
                    ctx, kd = deleted[j]
                    same_batch = j in sched_stop and sched_stop[j] > last_poll and ctx == "stop_trial"
                    ev = "clone_from_trial_stopped_in_same_batch" if same_batch else "clone_from_deleted_checkpoint"
                    viol.append(("start_trial(checkpoint_trial_id=%d) for new trial %d, but delete_checkpoint(%d) was "
                                 "called before (by %s, log index %d)" % (j, e[1], j, ctx, kd),
                                 dict(scheduler=kind.upper(), event=ev, delete_context=ctx)))
        elif tag == "schedule":
            if e[1] in warm and e[1] not in copied:
                viol.append(("the job of trial %d, started with checkpoint_trial_id=%d, is scheduled BEFORE copy_checkpoint(%d, %d): "
                             "it is launched while its checkpoint does not exist yet" % (e[1], warm[e[1]], warm[e[1]], e[1]),
                             dict(scheduler=kind.upper(), event="job_scheduled_before_checkpoint_copied")))
        elif tag == "copy":
            copied.add(e[2])
            if e[3] != (e[1] not in deleted):
                viol.append(("backend and checker disagree on checkpoint %d" % e[1],
                             dict(scheduler=kind.upper(), event="checker_inconsistent")))
        elif tag == "resume":
            i = e[1]
            stats["resumes"] += 1
            if state.get(i) != "paused":
                viol.append(("resume_trial(%d) of a trial in state %s" % (i, state.get(i)),
                             dict(scheduler=kind.upper(), event="resume_of_non_paused")))
            if i in never_again:
                viol.append(("trial %d was listed by trials_checkpoints_can_be_removed (never resumed again) but is resumed" % i,
                             dict(scheduler=kind.upper(), event="resume_of_removable_trial")))
            if i in deleted:
                ctx, kd = deleted[i]
                if ctx == "speculative":
                    stats["spec_resume_no_ckpt"] += 1     # explicitly requested: accepted cost
                else:
                    viol.append(("resume_trial(%d) after delete_checkpoint(%d) (by %s, log index %d)" % (i, i, ctx, kd),
                                 dict(scheduler=kind.upper(), event="resume_after_delete", delete_context=ctx)))
            deleted.pop(i, None)
            state[i] = "running"
        elif tag == "resume_rejected":
            # the scheduler asked to resume i, the backend refused (status not paused)
            i = e[1]
            if i in deleted and deleted[i][0] != "speculative":
                viol.append(("the scheduler resumes trial %d after delete_checkpoint(%d) (by %s, log index %d); the backend "
                             "refuses because the trial is %s" % (i, i, deleted[i][0], deleted[i][1], state.get(i)),
                             dict(scheduler=kind.upper(), event="resume_after_delete", delete_context=deleted[i][0])))
        elif tag == "pause":
            state[e[1]] = "paused"
        elif tag == "stop":
            if state.get(e[1]) == "paused" and not ended:
                # stop_trial (which deletes the checkpoint) on a trial the backend holds as paused
                stop_of_paused.add(e[1])
            state[e[1]] = "stopped"
        elif tag == "stop_all":
            ended = True
        elif tag == "delete":
            i, ctx = e[1], e[2]
            stats["deletes"] += 1
            if not spec["delete_checkpoints"] and ctx != "callback":
                viol.append(("delete_checkpoint(%d) by %s although delete_checkpoints=False" % (i, ctx),
                             dict(scheduler=kind.upper(), event="delete_while_disabled", delete_context=ctx)))
            if ended:
                deleted.setdefault(i, (ctx, k))
                continue
            if i in stop_of_paused and ctx == "stop_trial":
                viol.append(("stop_trial(%d) deletes the checkpoint of a trial that was paused (not running) when it was "
                             "stopped: a paused trial must keep its checkpoint" % i,
                             dict(scheduler=kind.upper(), event="delete_not_allowed", delete_context="stop_trial",
                                  trial_state="paused")))
                deleted[i] = (ctx, k)
            elif i in sched_stop and state.get(i) == "stopped":
                stats["stop_deletes"] += 1
                deleted[i] = (ctx, k)
            elif ctx == "callback" and not in_loop_end:
                # neither stop_trial, nor stop_all, nor a callback's on_loop_end: nobody may delete here
                viol.append(("delete_checkpoint(%d) called outside stop_trial / stop_all / on_loop_end while the trial is %s "
                             "(not stopped by the scheduler, tuning not over)" % (i, state.get(i)),
                             dict(scheduler=kind.upper(), event="delete_not_allowed", delete_context="tuner",
                                  trial_state=str(state.get(i)))))
                deleted[i] = ("tuner", k)
            elif ctx == "callback" and spec.get("speculative") and state.get(i) == "paused":
                deleted[i] = ("speculative", k)
            elif ctx == "callback" and spec.get("remove_callback") and state.get(i) in ("paused", "failed"):
                # allowed iff the trial can never be resumed: checked on the rest of the run
                stats["removable"] += 1
                never_again[i] = k
                deleted[i] = ("removable", k)
            else:
                viol.append(("delete_checkpoint(%d) by %s while the trial is %s: not stopped by the scheduler, tuning "
                             "not over, no speculative removal requested" % (i, ctx, state.get(i)),
                             dict(scheduler=kind.upper(), event="delete_not_allowed", delete_context=ctx,
                                  trial_state=str(state.get(i)))))
                deleted[i] = (ctx, k)
    return viol, stats


# ---------------------------------------------------------------------------------
# log -> model input / implementation trace
# ---------------------------------------------------------------------------------
def split_iterations(log):
    """[(poll_ids, completed, decisions, sched_events, callback_deletes)] + tail after tuning_end"""
    its, cur, phase = [], None, None
    tail = []
    done = False
    last_stop = False
    for e in log:
        tag = e[0]
        if tag == "stopcond":
            last_stop = e[1]
            continue
        if tag == "tuning_end":
            done = True
            if cur is not None:
                its.append(cur)
                cur = None
        elif done:
            tail.append(e)
        elif tag == "loop_start":
            if cur is not None:
                its.append(cur)
            cur = dict(ids=[], completed=[], failed=[], decisions=[], body=[], cb=[], ended=False, hold=last_stop)
        elif cur is None:
            continue
        elif tag == "poll":
            cur["ids"], cur["completed"], cur["failed"] = list(e[1]), list(e[2]), list(e[3])
        elif tag == "loop_end":
            cur["ended"] = True
        elif tag == "delete" and cur["ended"]:
            cur["cb"].append(e[1])
            cur["body"].append(e)
        else:
            if tag == "decision":
                cur["decisions"].append(e)
            cur["body"].append(e)
    if cur is not None:
        its.append(cur)
    return its, tail


def zl(i):
    return zlit(i)


def ev_term(e, spec):
    tag = e[0]
    if tag == "decision":
        return "EDecision %s %s" % (zl(e[1]), e[2])
    if tag == "stop":
        return "EStop %s" % zl(e[1])
    if tag == "pause":
        return "EPause %s" % zl(e[1])
    if tag == "delete":
        w = {"stop_trial": "WStop", "stop_all": "WStopAll",
             "callback": "WSpec" if spec.get("speculative") else "WCallback"}[e[2]]
        return "EDelete %s %s" % (zl(e[1]), w)
    if tag == "copy":
        return "ECopy %s %s" % (zl(e[1]), zl(e[2]))
    if tag == "start":
        return "EStart %s %s" % (zl(e[1]), "None" if e[2] is None else "(Some %s)" % zl(e[2]))
    if tag == "resume":
        return "EResume %s" % zl(e[1])
    if tag == "schedule":
        return "ESchedule %s" % zl(e[1])
    if tag == "resume_rejected":
        return "EError"
    if tag == "stop_all":
        return "EStopAll"
    return None


def impl_trace(log, spec):
    return lst([t for t in (ev_term(e, spec) for e in log) if t is not None])


def cfg_term(spec):
    return "{| delete_checkpoints := %s; remove_callback := %s; speculative := %s |}" % (
        blit(spec["delete_checkpoints"]), blit(bool(spec.get("remove_callback"))), blit(bool(spec.get("speculative"))))


def pair_reports(it):
    """poll ids -> [(trial, decision-event or None)] following the tuner's skip rule"""
    out, done, ds = [], set(), list(it["decisions"])
    for t in it["ids"]:
        if t in done or not ds:
            out.append((t, None))
            continue
        d = ds.pop(0)
        assert d[1] == t, "decision order does not follow the poll order"
        out.append((t, d))
        if d[2] in ("STOP", "PAUSE"):
            done.add(t)
    assert not ds
    return out


def iter_term(reports, completed, sugg, spec_choice, failed=(), hold=False):
    return "{| reports := %s; completed := %s; failed := %s; hold := %s; sugg := %s; spec_choice := %s |}" % (
        lst(reports), lst([zl(i) for i in completed]), lst([zl(i) for i in failed]), blit(hold), lst(sugg),
        lst([zl(i) for i in spec_choice]))


def model_cases(spec, log, extra):
    """Returns dict layer -> coq case term."""
    kind = spec["kind"]
    its, _tail = split_iterations(log)
    impl = impl_trace(log, spec)
    cf = cfg_term(spec)
    out = {}
    # ---- layer 1: oracle scheduler -------------------------------------------------
    o_its, rm_stream = [], []
    for it in its:
        reps = ["(%s, (%s, None))" % (zl(t), d[2] if d else "CONTINUE") for t, d in pair_reports(it)]
        sg = []
        for e in it["body"]:
            if e[0] == "start":
                sg.append("SNew" if e[2] is None else "(SFrom %s)" % zl(e[2]))
            elif e[0] in ("resume", "resume_rejected"):
                sg.append("(SResume %s)" % zl(e[1]))
        is_spec = bool(spec.get("speculative"))
        o_its.append(iter_term(reps, it["completed"], sg, it["cb"] if is_spec else [], it["failed"], it["hold"]))
        rm_stream.append(lst([zl(i) for i in ([] if is_spec else it["cb"])]))
    out["oracle"] = "(%s, %s, %s, %s)" % (cf, lst(rm_stream), lst(o_its), impl)
    # ---- layer 2 -------------------------------------------------------------------
    if kind in HB_KINDS or kind == "dehb":
        p_its = []
        for it in its:
            reps = ["(%s, %s)" % (zl(t), d[2] if d else "CONTINUE") for t, d in pair_reports(it)]
            sg = []
            for e in it["body"]:
                if e[0] == "start":
                    sg.append("None")
                elif e[0] in ("resume", "resume_rejected"):
                    sg.append("(Some %s)" % zl(e[1]))
            p_its.append(iter_term(reps, it["completed"], sg, it["cb"], it["failed"], it["hold"]))
        out["promo"] = "(%s, %s, %s)" % (cf, lst(p_its), impl)
    if kind in HB_KINDS:
        # the rung-system model: reports carry the resource; a resume proposes the entry (level of the
        # trial's last PAUSE, trial); a new trial's first milestone (its bracket) = resource of its
        # first PAUSE / STOP (max_t if it never gets there)
        first_ms, last_pause = {}, {}
        for e in log:
            if e[0] == "decision" and e[2] != "CONTINUE":
                first_ms.setdefault(e[1], e[3])
        q_its = []
        for it in its:
            reps = ["(%s, %s)" % (zl(t), zl(d[3] if d else 0)) for t, d in pair_reports(it)]
            sg = []
            for e in it["body"]:
                if e[0] == "decision" and e[2] == "PAUSE":
                    last_pause[e[1]] = e[3]
                elif e[0] == "start":
                    sg.append("(None, %s)" % zl(first_ms.get(e[1], extra["max_t"])))
                elif e[0] in ("resume", "resume_rejected"):
                    sg.append("(Some (%s, %s), 0%%Z)" % (zl(last_pause.get(e[1], 0)), zl(e[1])))
            q_its.append(iter_term(reps, it["completed"], sg, it["cb"], it["failed"], it["hold"]))
        out["promo2"] = "(%s, %s, %s, %s, %s)" % (cf, lst([zl(x) for x in extra["levels"]]), zl(extra["max_t"]), lst(q_its), impl)
    if kind in ("sync", "dehb"):
        s_its = []
        for it in its:
            reps = []
            for t, d in pair_reports(it):
                ep = d[3] if d else 0
                m = metric_value(spec, t, ep) if d else 0.0
                reps.append("(%s, (%s, %s))" % (zl(t), "None" if m != m else "(Some %s)" % q(m), zl(ep)))
            n_sg = sum(1 for e in it["body"] if e[0] in ("start", "resume", "resume_rejected"))
            s_its.append(iter_term(reps, it["completed"], ["tt"] * n_sg, [], it["failed"], it["hold"]))
        tbl = lst([lst(["(%s, %s)" % (natlit(s), zl(l)) for s, l in rungs]) for rungs in extra["tbl"]])
        if kind == "sync":
            out["sync"] = "(%s, %s, %s, %s, %s)" % (cf, tbl, blit(spec["mode"] == "max"), lst(s_its), impl)
        else:
            out["dehb"] = "(%s, %s, %s, %s, %s, %s)" % (cf, tbl, blit(spec["mode"] == "max"),
                                                       blit(spec.get("support_pause_resume", True)), lst(s_its), impl)
    elif kind == "pbt":
        sign = 1.0 if spec["mode"] == "max" else -1.0
        b_its = []
        for it in its:
            # PBT calls the harness's custom_explore_fn with the config of the trial it drew: an
            # "explore" event right before a STOP decision = the clone source chosen then; right
            # before a start = the source re-drawn by _suggest
            choice, redraw, last = {}, [], None
            for e in it["body"]:
                if e[0] == "explore":
                    last = e[1]
                elif e[0] == "decision":
                    if last is not None:
                        choice[id(e)] = last
                    last = None
                elif e[0] == "start":
                    redraw.append(last if last is not None else 0)
                    last = None
            reps = []
            for t, d in pair_reports(it):
                ep = d[3] if d else 0
                m = metric_value(spec, t, ep) if d else 0.0
                reps.append("(%s, (%s, %s, %s))" % (zl(t), q(ep), q(sign * m), zl(choice.get(id(d), 0) if d else 0)))
            b_its.append(iter_term(reps, it["completed"], [zl(j) for j in redraw], [], it["failed"], it["hold"]))
        prm = "{| pp_max_t := %s; pp_interval := %s; pp_qf := %s |}" % (q(spec["max_t"]), q(spec["interval"]), q(spec["qf"]))
        out["pbt"] = "(%s, %s, %s, %s, %s)" % (cf, blit(extra["pbt_fixed"]), prm, lst(b_its), impl)
    return out


# ---------------------------------------------------------------------------------
def fs_case_term(events):
    """events of ckpt_localfs.ObservedLocalBackend -> [(fs_op, observed directory contents after the call)]:
    the worker's write of the source is made visible by an FsWrite before each copy"""
    import json
    table = []

    def cid(snap):
        key = json.dumps(snap, sort_keys=True)
        if key not in table:
            table.append(key)
        return table.index(key) + 1

    def obs(pairs):
        return lst(["(%s, %s)" % (zl(t), "None" if sn is None else "(Some %s)" % zl(cid(sn))) for t, sn in pairs])

    ops, started_from = [], set()
    for e in events:
        if e[0] == "copy":
            _, src, tgt, before, after, tgt_snap, err = e
            if before is not None:
                ops.append("(FsWrite %s %s, %s)" % (zl(src), zl(cid(before)), obs([(src, before)])))
            ops.append("(FsCopy %s %s, %s)" % (zl(src), zl(tgt), obs([(src, after), (tgt, tgt_snap)])))
            started_from.add(tgt)
        elif e[0] == "delete":
            ops.append("(FsDelete %s, [])" % zl(e[1]))
        elif e[0] == "launch" and e[1] in started_from:
            ops.append("(FsSchedule %s, %s)" % (zl(e[1]), obs([(e[1], e[2])])))
    return lst(ops)


PBT_FIXED = {}
PROBE_SPEC = dict(kind="pbt", seed=0, curve_seed=0, n_workers=2, delete_checkpoints=True, max_steps=3, polls=2,
                  flavour="plain", mode="min", use_max_resource_attr=False, remove_callback=False, speculative=None,
                  max_t=3, population_size=2, interval=1, qf=0.5, worker_epochs=5,
                  curve_table={"0:1": 2.0, "0:2": 2.0, "1:1": 1.0, "1:2": 1.0, "1:3": 1.0}, plan=[2, 3, 0, 1, 0, 0, 0])


def probe_pbt_mode():
    """Which of the two modelled behaviours of PBT._suggest does the code under test show on the minimal
    scenario of finding F-C20-1 (clone source stopped later in the same batch)?  True = source re-drawn /
    fresh start (pbt_sched), False = stopped source used (pbt_sched_unfixed).  Only selects the model the
    PBT runs are compared with; the property checker does not depend on it."""
    log, _ = run_case(dict(PROBE_SPEC))
    starts = [e for e in log if e[0] == "start" and e[1] == 2]
    return not (starts and starts[0][2] == 1)


def corpus_specs():
    """minimised cases that run first: corpus/C20/*.json and the replays of known findings"""
    import glob
    import json
    from common import VERIF
    out = []
    for f in sorted(glob.glob(os.path.join(VERIF, "corpus", "C20", "*.json")) +
                    glob.glob(os.path.join(VERIF, "findings", "C20-*.json"))):
        try:
            out.append(json.load(open(f))["case"]["spec"])
        except Exception:
            pass
    return out


def nontrivial(spec, log, stats):
    polls_multi = sum(1 for e in log if e[0] == "poll" and len(set(e[1])) >= 2)
    return bool(polls_multi and (stats["resumes"] or stats["clones"]) and (stats["deletes"] or not spec["delete_checkpoints"]))


def run(ctx, replay=None):
    logging.disable(logging.CRITICAL)
    os.environ["SYNETUNE_FOLDER"] = tempfile.mkdtemp(prefix="verif_c20_")
    ctx.rule = ("cases: whole runs of the real Tuner over an in-memory TrialBackend with scripted workers, for "
                "HyperbandScheduler promotion/pasha/rush_promotion/cost_promotion, synchronous Hyperband, DEHB and PBT; "
                "delete_checkpoints on/off, RemoveCheckpointsCallback / speculative Hyperband callback (score, by_level, "
                "random) on/off, n_workers 1..4, 4..22 polls, random interleaving of the reports of different trials in one "
                "poll; non-trivial = at least one poll delivering reports of >= 2 different trials AND at least one "
                "resume or clone AND (deletion enabled => at least one deletion); distinct by content hash")
    rng = ctx.rng
    PBT_FIXED["value"] = probe_pbt_mode()
    ctx.notes.append("PBT._suggest behaviour on the F-C20-1 scenario: %s" % (
        "source re-drawn (model pbt_sched)" if PBT_FIXED["value"] else "stopped source used (model pbt_sched_unfixed)"))
    if replay is not None:
        specs = [replay["spec"]] if "spec" in replay else []
    else:
        n = ctx.n(420, 6000)
        specs = corpus_specs() + [gen_spec(rng, kind=KINDS[i % len(KINDS)]) for i in range(n)]
    # ---- stream on the real LocalBackend (checkpoint directories on disk) ---------------------
    if replay is None or replay.get("stream") == "localfs":
        import ckpt_localfs
        fs_terms, fs_meta = [], []
        for name, events, crash, fviols in ckpt_localfs.run_streams():
            ctx.count(("localfs", name), nontrivial=sum(1 for e in events if e[0] == "copy") >= 2 or
                      any(e[0] == "resume_check" and e[4] == 3 for e in events))
            ctx.h("localfs", name + "_copies", sum(1 for e in events if e[0] == "copy"))
            if crash:
                ctx.h("localfs", name + "_exception:" + crash[:60])
            seen = set()
            for what, sig in fviols:
                if tuple(sorted(sig.items())) not in seen:
                    seen.add(tuple(sorted(sig.items())))
                    ctx.violation("property", what + " [real LocalBackend, stream '%s', delete_checkpoints=True]" % name,
                                  case=dict(stream="localfs", part=name), signature=sig)
            ctx.h("localfs", name + "_reports_with_checkpoint", sum(1 for e in events if e[0] == "reported" and e[3]))
            for msg in ckpt_localfs.contract_violations(events):
                ctx.violation("correspondence", "script contract 'a trial that reports has written its checkpoint' broken: " + msg,
                              case=dict(stream="localfs", part=name), failing_input=False,
                              broken="hypothesis of c20_pbt_clone_source_on_disk (harness/ckpt_localfs.py script)")
            fs_terms.append(fs_case_term(events))
            fs_meta.append(dict(stream="localfs", part=name))
            if crash and not fviols:
                ctx.violation("correspondence", "real LocalBackend stream '%s' raised %s" % (name, crash),
                              case=dict(stream="localfs", part=name), failing_input=False,
                              broken="file-system stream (harness/ckpt_localfs.py)")
        for i in ctx.coq_bad_cases("fs", IMPORTS, PRELUDE, "chk_fs", ["(%s : fs_case)" % t for t in fs_terms]):
            ctx.violation("correspondence", "directory-map model (fs_step) and the real LocalBackend checkpoint directories differ",
                          case=fs_meta[i], failing_input=False, broken="correspondence chk_fs (model/Checkpoint.v fs_step)")
        if replay is not None:
            return
    layers = {"oracle": ([], []), "promo": ([], []), "promo2": ([], []), "sync": ([], []), "dehb": ([], []), "pbt": ([], [])}
    for spec in specs:
        log, extra = run_case(spec)
        case = dict(spec=dict(spec, plan=extra["plan"]))
        viols, stats = check_log(spec, log)
        ctx.count(("run", spec), nontrivial=nontrivial(spec, log, stats))
        ctx.traces_validated += 1
        ctx.h("kind", spec["kind"])
        ctx.h("n_workers", spec["n_workers"])
        ctx.h("delete_checkpoints", spec["delete_checkpoints"])
        ctx.h("callback", spec.get("speculative") or ("RemoveCheckpointsCallback" if spec.get("remove_callback") else "none"))
        for k in ("deletes", "stop_deletes", "removable", "resumes", "clones", "spec_resume_no_ckpt"):
            ctx.h("events", k, stats[k])
        if spec.get("nan_den"):
            ctx.h("nan_metric", "reports_with_NaN", sum(1 for e in log if e[0] == "decision" and
                                                       metric_value(spec, e[1], e[3]) != metric_value(spec, e[1], e[3])))
        if spec.get("wait_completion"):
            ctx.h("stop_window", "iterations_on_hold", sum(1 for it in split_iterations(log)[0] if it["hold"]))
            ctx.h("stop_window", "resumes_after_window", sum(1 for k, e in enumerate(log) if e[0] == "resume" and
                                                              any(x == ("stopcond", True) for x in log[:k])))
        ctx.h("failures", "jobs_failed", sum(len(e[3]) for e in log if e[0] == "poll"))
        ctx.h("failures", "failed_in_poll_with_own_report", sum(1 for e in log if e[0] == "poll" for t in e[3] if t in e[1]))
        ctx.h("polls_with_2plus_trials", sum(1 for e in log if e[0] == "poll" and len(set(e[1])) >= 2) > 0)
        if spec["kind"] == "pbt":
            ctx.h("pbt", "clone_source_redrawn",
                  sum(1 for a, b in zip(log, log[1:]) if a[0] == "explore" and b[0] == "start"))
            ctx.h("pbt", "clone_decisions", sum(1 for a, b in zip(log, log[1:]) if a[0] == "explore" and b[0] == "decision"))
        if spec.get("pause_fault"):
            ctx.h("pause_fault", "runs_with_injected_fault_hit", int(any(e[0] == "pause_fault" for e in log)))
        if extra["crash"]:
            ctx.h("tuner_exception", extra["crash"][:80])
        ctx.sample(dict(spec=spec, log_head=[list(e) for e in log[:25]], stats=stats), limit=3)
        seen = set()
        for what, sig in viols:
            key = tuple(sorted(sig.items()))
            if key in seen:
                continue
            seen.add(key)
            ctx.violation("property", what + " [%s, n_workers=%d, delete_checkpoints=%s]" % (
                spec["kind"], spec["n_workers"], spec["delete_checkpoints"]), case=case, signature=sig)
        try:
            terms = model_cases(spec, log, extra)
        except AssertionError as e:
            ctx.violation("correspondence", "cannot translate the run into model input: %s" % e, case=case,
                          failing_input=False, broken="correspondence log translation (drivers/c20.py)")
            continue
        if extra["crash"] and not viols and not extra["crash"].startswith("AssertionError: Cannot resume"):
            # an exception inside the loop is outside the model unless it comes from the modelled asserts
            ctx.notes.append("tuner exception (case skipped for correspondence): " + extra["crash"][:160])
            continue
        for layer, term in terms.items():
            layers[layer][0].append("(%s : %s_case)" % (term, layer))
            layers[layer][1].append(case)
    for layer, (terms, metas) in layers.items():
        if not terms:
            continue
        ctx.h("model_cases", layer, len(terms))
        for i in ctx.coq_bad_cases(layer, IMPORTS, PRELUDE, "chk_" + layer, terms, shard=40):
            ctx.violation("correspondence", "model (%s layer) and implementation traces differ" % layer, case=metas[i],
                          failing_input=False, broken="correspondence chk_%s (model/Checkpoint.v)" % layer)
