"""C12 — tuning terminates on the stopping criterion and leaves nothing running.

Whole-run driver (a): the real ``Tuner.run()`` with ScriptedBackend + ScriptedScheduler under generated
scripts, with every StoppingCriterion field and combinations (wall-clock from a scripted clock, evaluations,
trials started / completed / finished, cost, metric thresholds), an extra scripted user criterion, both
flags, failures at scripted points (failure limit), exhausted search space; the recorded trace (incl. the
value of the criterion and of _stop_condition at every evaluation, recorded by a harness-side wrapper of
the criterion), the way run() ended, final status map and final worker statuses are compared with
model/Tuner.v ``run`` (chk_run, vm_compute). The independent Python checker ``tuner_cases.check_c12``
judges every implementation trace: nothing started / no loop body after the condition held, on_tuning_end
and stop_all exactly once, no worker InProgress after run() returns (also when it raises), counters equal
the numbers of trials per status, overshoot of count budgets, failure limit, no suggest after None.
Driver (b): real schedulers on the ScriptedBackend, judged by the same checker. Stream (c) (harness/tuner_sim.py):
the real SimulatorBackend + SimulatorCallback with criteria that combine max_wallclock_time with the other fields;
at every iteration end the ORIGINAL user criterion is re-evaluated from recorded observables (wall-clock = simulated
time of delivered results): once it holds the loop must end / nothing may be started, overshoot <= n_workers."""
import tuner_cases as tc


def run(ctx, replay=None):
    ctx.rule = ("cases: generated scripts for whole runs of the real Tuner (see C01) with a StoppingCriterion drawn "
                "from all 8 fields (0..8 fields at once), scripted wall-clock and extra criterion, max_failures 0..50, "
                "wait_trial_completion_when_stopping and asynchronous_scheduling on/off; non-trivial = the run starts "
                "trials, sees a completion or failure, a STOP or PAUSE decision and >= 3 loop iterations; distinct by "
                "content hash of (parameters, consumed oracle answers)")
    rng = ctx.rng
    if replay is not None:
        if replay.get("kind") == "real":
            import tuner_real
            tuner_real.run_real(ctx, tc.check_c12, [replay])
        elif replay.get("kind") == "sim":
            import tuner_sim
            tuner_sim.run_sim(ctx, [replay], prop="C12")
        elif replay.get("kind") == "local":
            import tuner_local
            tuner_local.run_local(ctx, [replay])
        else:
            tc.scripted_runs(ctx, [replay], tc.check_c12, "C12")
        return
    cases = tc.corpus_cases("C12")
    cases += [tc.gen_case(rng, rich_criterion=True, small=True) for _ in range(ctx.n(150, 4000))]
    cases += [tc.gen_case(rng, rich_criterion=True) for _ in range(ctx.n(550, 16000))]
    tc.scripted_runs(ctx, cases, tc.check_c12, "C12")
    import tuner_real
    tuner_real.run_real(ctx, tc.check_c12, None)
    # stream (c): real SimulatorBackend + SimulatorCallback, criteria combining max_wallclock_time (rewritten onto
    # simulated time by the callback) with the other fields; the user's criterion is re-evaluated independently
    import tuner_sim
    tuner_sim.run_sim(ctx, None, prop="C12")
    # stream (d): the real LocalBackend with real processes: pause at the job's exit -> resume -> run() ends while
    # the resumed job runs; afterwards every subprocess must be dead
    import tuner_local
    tuner_local.run_local(ctx, None)
