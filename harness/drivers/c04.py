"""C04 — promotion-type Hyperband (ASHA promotion, PASHA, cost-aware, RUSH promotion).

Sequence driver on the real HyperbandScheduler: an op list (suggest / report / late report / fail /
complete / remove / malformed reports) is interpreted against the scheduler following the tuner
protocol; every TrialSuggestion, every decision, terminator.paused_trials() and
terminator.information_for_rungs() are compared with coq/model/Promotion.v (vm_compute), and an
independent eligibility checker (own rung bookkeeping, numpy.quantile) is run on every implementation
suggestion / decision — that checker is what yields `property` violations."""
import contextlib
import datetime
import glob
import random
import io
import json
import os
import logging
import re
import traceback
from unittest import mock

import numpy as np

from common import q, lst, natlit, zlit, blit, optlit, VERIF
from rung_util import documented_max_t, gen_max_t_variant

IMPORTS = ("From Verif Require Import model.Base model.Promotion proofs.PromotionProofs.\nFrom Coq Require Import Qabs.\n"
           "From Coq Require Strings.String.\nImport String.StringSyntax.\nDelimit Scope string_scope with string.\nOpen Scope Q_scope.\n")

PRELUDE = r"""
Inductive obs :=
| ObsStart (t : Z) (mra : option Z) | ObsResume (t : Z) (mra : option Z) | ObsNone
| ObsDec (d : decision) | ObsUnit | ObsErr (cls : nat)
| ObsDecE (d : decision) (eps_after : Q) (dists : list Q).   (* PASHA report: self.epsilon afterwards, noisy_cfg_distances *)
Definition snap := (list (Z * nat * Q * Z) * list (Z * nat))%type.
Definition err_class (e : err) : nat :=
  match e with EKey => 0 | EIndex => 2 | _ => 1 end%nat.
Definition optZ_eqb := opt_eqb Z.eqb.
Definition out_matches (o : output) (ob : obs) : bool :=
  match o, ob with
  | OStart t m, ObsStart t' m' => Z.eqb t t' && optZ_eqb m m'
  | OResume t m _ _ _ _, ObsResume t' m' => Z.eqb t t' && optZ_eqb m m'
  | ONoSuggestion, ObsNone => true
  | ODecision d, ObsDec d' => decision_eqb d d'
  | ODecision d, ObsDecE d' _ _ => decision_eqb d d'
  | OUnit, ObsUnit => true
  | _, _ => false
  end.
Definition paused_eqb (a b : Z * nat * Q * Z) : bool :=
  let '(t, p, m, l) := a in let '(t', p', m', l') := b in
  Z.eqb t t' && Nat.eqb p p' && Qeqb m m' && Z.eqb l l'.
Definition info_eqb (a b : Z * nat) : bool := Z.eqb (fst a) (fst b) && Nat.eqb (snd a) (snd b).
Definition snap_ok (st : state) (sn : option snap) : bool :=
  match sn with
  | None => true
  | Some (p, i) => list_eqb paused_eqb (paused_trials st) p && list_eqb info_eqb (information_for_rungs st) i
  end.
(* PASHA: rung system of trial t before the step; the model's noisy_cfg_distances for this report and its
   epsilon afterwards must be what the implementation computed (distances: float subtraction, compared
   within relative 1e-12) *)
Definition sys_index (cfg : config) (st : state) (t : Z) : option nat :=
  match lookup t (st_task st) with Some br => Some (fst (sys_of cfg br)) | None => None end.
Definition approx_eqb (a b : Q) : bool := Qleb (Qabs (a - b)) ((1 # 1000000000000) * (Qabs a + Qabs b)).
Definition model_dists (cfg : config) (st : state) (ev : event) : option (list Q) :=
  match ev with
  | Report t r m c orc =>
      match sys_index cfg st t with
      | Some sid =>
          match nth_error (st_sys st) sid with
          | Some rs =>
              match promo_on_task_report cfg rs t r m c with
              | Ok (rs1, _) =>
                  match noisy_distances (set_hist rs1 (add_result (rs_hist rs1) t r m)) orc with
                  | Some (Ok d) => Some d
                  | _ => None
                  end
              | Err _ => None
              end
          | None => None
          end
      | None => None
      end
  | _ => None
  end.
Definition eps_ok (cfg : config) (st st' : state) (ev : event) (ob : obs) : bool :=
  match ob, ev with
  | ObsDecE _ e ds, Report t _ _ _ _ =>
      match sys_index cfg st t with
      | Some sid =>
          match nth_error (st_sys st') sid with
          | Some rs' => Qeqb (h_eps (rs_hist rs')) e
          | None => false
          end &&
          match model_dists cfg st ev with
          | Some d => list_eqb approx_eqb d ds
          | None => match ds with [] => true | _ => false end
          end
      | None => false
      end
  | _, _ => true
  end.
Definition set_b (ev : event) (b : bres) : event :=
  match ev with Suggest n br _ g => Suggest n br b g | _ => ev end.
Definition try_step (cfg : config) (st : state) (ev : event) (ob : obs) (sn : option snap) : bool * option state :=
  match step cfg st ev with
  | Err e => (match ob with ObsErr c => Nat.eqb c (err_class e) | _ => false end, None)
  | Ok (st', o) => (out_matches o ob && snap_ok st' sn && eps_ok cfg st st' ev ob, Some st')
  end.
(* Boundary comparisons of a suggest may go either way, independently per rung level: all resolutions
   (all-in-favour-of-promotion first) *)
Fixpoint all_bres (levels : list Z) : list bres :=
  match levels with
  | [] => [[]]
  | l :: r => let rest := all_bres r in map (cons (l, true)) rest ++ map (cons (l, false)) rest
  end.
Fixpoint first_match (cfg : config) (st : state) (ev : event) (ob : obs) (sn : option snap) (cands : list bres)
  : option (event * option state) :=
  match cands with
  | [] => None
  | b :: rest =>
      match try_step cfg st (set_b ev b) ob sn with
      | (true, st') => Some (set_b ev b, st')
      | (false, _) => first_match cfg st ev ob sn rest
      end
  end.
(* the event with the resolution that reproduces the implementation's answer, and the next state *)
Definition pick (cfg : config) (st : state) (ev : event) (ob : obs) (sn : option snap) : option (event * option state) :=
  match ev with
  | Suggest _ _ _ _ => first_match cfg st ev ob sn (all_bres (c_levels cfg))
  | _ => first_match cfg st ev ob sn [[]]
  end.
Fixpoint chk_run (cfg : config) (st : state) (evs : list (event * obs * option snap)) : bool :=
  match evs with
  | [] => true
  | (ev, ob, sn) :: rest =>
      match pick cfg st ev ob sn with
      | Some (_, Some st') => chk_run cfg st' rest
      | Some (_, None) => true
      | None => false
      end
  end.
(* a case carries the CONSTRUCTOR ARGUMENTS; the configuration (maximum resource, rung levels, quantiles,
   number of brackets) is computed by the model's make_config *)
Definition seq_case := (ctor * list (event * obs * option snap))%type.
Definition chk_seq (c : seq_case) : bool :=
  match make_config (fst c) with
  | Some cfg => chk_run cfg (init cfg) (snd c)
  | None => false
  end.
(* hypothesis coverage: the events (with the Boundary resolution that reproduces the implementation) of a
   protocol-following harness sequence must satisfy the hypotheses of c04_no_skipped_milestone
   ([consecutive], through its proved boolean version) and of c04_resumes_only_paused ([proto_from]) *)
Fixpoint resolve (cfg : config) (st : state) (evs : list (event * obs * option snap)) : list event :=
  match evs with
  | [] => []
  | (ev, ob, sn) :: rest =>
      match pick cfg st ev ob sn with
      | Some (ev', Some st') => ev' :: resolve cfg st' rest
      | Some (ev', None) => [ev']
      | None => [ev]
      end
  end.
Definition hyp_case := (bool * seq_case)%type.
Definition chk_hyp (c : hyp_case) : bool :=
  let '(ckpt, (k, evs)) := c in
  match make_config k with
  | Some cfg =>
      let evs' := resolve cfg (init cfg) evs in
      consecutive_b cfg ckpt (init cfg) [] evs' && proto_b cfg (init cfg) evs'
  | None => false
  end.
(* diagnostics: index of the first event on which model and implementation differ, and what the model says there *)
Fixpoint diag_run (cfg : config) (st : state) (evs : list (event * obs * option snap)) (i : Z)
  : option (Z * result (output * list (Z * nat * Q * Z) * list (Z * nat))) :=
  match evs with
  | [] => None
  | (ev, ob, sn) :: rest =>
      match pick cfg st ev ob sn with
      | Some (_, Some st') => diag_run cfg st' rest (i + 1)%Z
      | Some (_, None) => None
      | None =>
          Some (i, match step cfg st ev with
                   | Err e => Err e
                   | Ok (st', o) => Ok (o, paused_trials st', information_for_rungs st') end)
      end
  end.
Definition diag_seq (c : seq_case) :=
  match make_config (fst c) with
  | Some cfg => diag_run cfg (init cfg) (snd c) 0%Z
  | None => Some ((-1)%Z, Err EAssert)
  end.
"""

TOL = 1e-12  # Boundary region: a few thousand ulps, far above interpolation round-off (~1e-14), far below 1e-6
TYPES = ["promotion", "pasha", "cost_promotion", "rush_promotion"]
VARIANT = {"promotion": "VPromotion", "pasha": "VPasha", "cost_promotion": "VCost", "rush_promotion": "VRush"}


class OneHot:
    """bracket distribution forcing one bracket (public attribute scheduler.bracket_distribution)"""

    def __init__(self, n):
        self.n, self.b = n, 0

    def configure(self, scheduler):
        pass

    def __call__(self):
        a = np.zeros(self.n)
        a[self.b] = 1.0
        return a


# ------------------------------------------------------------------------------------------------
# case generation (open loop: ops are interpreted against whatever the scheduler answers)
# ------------------------------------------------------------------------------------------------
ZERO_VALUES = [-1.0, -0.5, 0.0, 0.0, -0.0, 0, 0.3, 0.8]


def gen_metric(rng, style):
    if style == "zeros":
        # exact zeros (0.0, -0.0, int 0: all falsy) with negative and positive neighbours
        return rng.choice(ZERO_VALUES)
    if style == "tiny":
        # tiny magnitudes (uniformly scaled grid): absolute tolerances must not decide
        return rng.randint(1, 9) * 1e-9
    if style == "neartie":
        # near ties: distinct values 2e-6 (relative) apart
        return 0.5 * (1.0 + 2e-6 * rng.randint(0, 6))
    if style == "grid":
        return float(rng.randint(1, 6))
    if style == "grid64":
        return rng.randint(64, 256) / 64.0
    return rng.uniform(0.5, 2.0)


def gen_spec(rng, force_type=None, wellformed=False):
    typ = force_type or rng.choice(TYPES)
    setup = rng.choice(["g1rf3", "g1rf3", "g1rf2", "g2rf2", "levels", "g1rf4"])
    spec = dict(type=typ, mode=rng.choice(["min", "max"]), rung_levels=None, grace=1, rf=3)
    if setup == "g1rf3":
        spec.update(grace=1, rf=3, max_t=rng.choice([9, 27, 10]))
    elif setup == "g1rf2":
        spec.update(grace=1, rf=2, max_t=rng.choice([8, 9, 16]))
    elif setup == "g2rf2":
        spec.update(grace=2, rf=2, max_t=rng.choice([9, 16]))
    elif setup == "g1rf4":
        spec.update(grace=1, rf=4, max_t=rng.choice([16, 17]))
    else:
        spec.update(rung_levels=rng.choice([[1, 2, 5], [2, 3, 6, 7], [1, 4], [1, 2, 3, 4], [3, 5]]),
                    max_t=rng.choice([8, 9, 12]))
    spec["brackets"] = rng.choice([1, 1, 2, 3])
    spec["per_bracket"] = rng.random() < 0.3
    if typ == "pasha":
        # PASHA with several brackets (any number of rung levels) is a legal configuration and is generated
        # like the others; half of the PASHA cases are pinned to one bracket so that long single-bracket
        # runs (rankings, cap increases) stay well covered (finding F-C04-1 ends multi-bracket runs early
        # on an unrepaired tree)
        if rng.random() < 0.5:
            spec["brackets"] = 1
    # how the maximum resource reaches the constructor (b-rung's helper): explicit max_t, config_space[max_resource_attr]
    # under a default or non-default key name, or a default-named constant; with distractor constants
    spec["maxt"] = gen_max_t_variant(rng, spec["max_t"])
    spec["mra"] = spec["maxt"]["max_resource_attr"] is not None
    spec["cost_attr"] = typ == "cost_promotion" or rng.random() < 0.25
    spec["nthr"] = rng.randint(0, 3) if typ == "rush_promotion" else 0
    spec["checkpointing"] = rng.random() < 0.5
    spec["n_workers"] = rng.randint(1, 4)
    spec["tiny_space"] = rng.random() < 0.08
    spec["searcher_data"] = rng.choice(["rungs", "rungs", "rungs", "all", "rungs_and_last"])
    spec["myopic"] = rng.random() < 0.5
    style = rng.choice(["grid", "grid", "grid64", "float", "tiny", "neartie", "zeros"])
    spec["style"] = style
    malformed = rng.random() < 0.15 and not wellformed
    ops = []
    nb = spec["brackets"]
    for _ in range(rng.randint(30, 90) if wellformed else rng.randint(30, 170)):
        u = rng.random()
        cost = rng.randint(1, 16) / 4.0
        if u < 0.30:
            ops.append(["S", rng.randrange(nb)])
        elif u < 0.92:
            ops.append(["R", rng.randrange(4), gen_metric(rng, style), cost])
        elif u < 0.95:
            ops.append(["L", gen_metric(rng, style), cost])
        elif u < 0.965:
            ops.append(["F", rng.randrange(4)])
        elif u < 0.975:
            ops.append(["C", rng.randrange(4)])
        elif malformed:
            k = rng.random()
            if k < 0.4:
                ops.append(["J", rng.randrange(4), rng.randint(2, 3), gen_metric(rng, style), cost])
            elif k < 0.6:
                ops.append(["U", rng.randint(1, 3), gen_metric(rng, style), cost])
            elif k < 0.8:
                ops.append(["D", rng.randrange(4)])
            else:
                ops.append(["B", rng.randrange(4), gen_metric(rng, style), cost])  # report an earlier level again
        else:
            ops.append(["S", rng.randrange(nb)])
    spec["ops"] = ops
    return spec


# ------------------------------------------------------------------------------------------------
# independent eligibility checker (own bookkeeping, numpy.quantile)
# ------------------------------------------------------------------------------------------------
class Checker:
    def __init__(self, spec, levels, max_t, num_brackets):
        self.spec, self.levels, self.max_t = spec, list(levels), max_t
        self.is_min = spec["mode"] == "min"
        self.per_bracket = spec["per_bracket"]
        nsys = num_brackets if self.per_bracket else 1
        self.sys_levels = [self.levels[s:] for s in range(nsys)]
        self.rungs = [{lv: [] for lv in self.sys_levels[s]} for s in range(nsys)]
        self.trial = {}
        self.cands = {}
        self.boundary = 0
        self.violations = []
        self.caps_seen = {}
        self.oracle_mismatch = []

    def bad(self, check, what, **extra):
        self.violations.append(dict(check=check, what=what, **extra))

    def sys_of(self, bracket):
        return (bracket, 0) if self.per_bracket else (0, bracket)

    def next_level(self, s, r):
        higher = [lv for lv in self.sys_levels[s] if lv > r]
        return min(higher) if higher else self.max_t

    def better(self, a, b):
        return a < b if self.is_min else a > b

    def cmp(self, a, c, le=None):
        """'yes' a no worse than c / 'no' / 'boundary' (relative 1e-12)"""
        if abs(a - c) <= TOL * max(abs(a), abs(c), 1e-300):
            return "boundary"
        ok = (a <= c) if (le if le is not None else self.is_min) else (a >= c)
        return "yes" if ok else "no"

    def cutoff(self, s, r):
        ents = self.rungs[s][r]
        if len(ents) < 2:
            return None
        pq = r / self.next_level(s, r)
        vals = [e["m"] for e in ents]
        return float(np.quantile(vals, pq if self.is_min else 1 - pq))

    def surely_admissible(self, s, r, e):
        if e["prom"]:
            return False
        if self.spec["type"] != "rush_promotion" or e["t"] < self.spec["nthr"]:
            return True
        return all(not self.better(c, e["m"]) for c in self.cands.get((s, r), []))

    def maybe_admissible(self, s, r, e):
        return not e["prom"]

    def cost_status(self, s, r, target=None):
        """cost rule. Returns ('yes'|'no'|'boundary', trial) for the first promotable entry; with
        [target] given: status of promoting [target] (ties in the metric resolved in its favour)."""
        ents = self.rungs[s][r]
        if len(ents) < 2:
            return "no", None
        pq = r / self.next_level(s, r)
        thr = sum(e["c"] for e in ents) * pq
        order = sorted(ents, key=lambda e: (e["m"] if self.is_min else -e["m"]))
        metrics = [e["m"] for e in order]
        ties = len(set(metrics)) < len(metrics)
        if target is not None:
            te = next(e for e in ents if e["t"] == target)
            before = [e for e in ents if self.better(e["m"], te["m"])]
            ssum, worst = 0.0, "yes"
            for e in sorted(before, key=lambda e: (e["m"] if self.is_min else -e["m"])) + [te]:
                ssum += e["c"]
                c = self.cmp(ssum, thr, le=True)
                if c == "no":
                    worst = "no"
                elif c == "boundary" and worst == "yes":
                    worst = "boundary"
            if worst == "no" and any(e is not te and e["m"] == te["m"] for e in ents):
                worst = "boundary"  # order among equal metrics is not determined for the checker
            return worst, target
        ssum, status = 0.0, "yes"
        for e in order:
            ssum += e["c"]
            c = self.cmp(ssum, thr, le=True)
            if c == "no":
                return "no", None
            if c == "boundary":
                status = "boundary"
            if not e["prom"]:
                return ("boundary" if ties else status), e["t"]
        return "no", None

    def strictly_eligible(self, s, r):
        """some entry of rung r that MUST be promotable (Boundary / undetermined cases excluded)"""
        if self.spec["type"] == "cost_promotion":
            st, t = self.cost_status(s, r)
            if st == "boundary":
                self.boundary += 1
            return t if st == "yes" else None
        c = self.cutoff(s, r)
        if c is None:
            return None
        cand = [e for e in self.rungs[s][r] if self.surely_admissible(s, r, e)]
        if not cand:
            return None
        best = cand[0]
        for e in cand[1:]:
            if self.better(e["m"], best["m"]):
                best = e
        k = self.cmp(best["m"], c)
        if k == "boundary":
            self.boundary += 1
        return best["t"] if k == "yes" else None

    # ---- suggestions ---------------------------------------------------------------------------
    def on_suggest(self, bracket, kind, tid, mra_val, cap, busy):
        s, skip = self.sys_of(bracket)
        if s >= len(self.rungs):
            return
        cap_eff = self.max_t if cap is None else cap
        if kind == "resume":
            info = self.trial.get(tid)
            if info is None or info["state"] != "paused" or tid in busy:
                self.bad("resumes_only_paused", "trial %s returned for resume is %s" % (
                    tid, "running" if tid in busy else (info or {}).get("state", "unknown")))
                if info is None:
                    return
            where = [r for r in self.sys_levels[s] if any(e["t"] == tid and not e["prom"] for e in self.rungs[s][r])]
            if not where:
                self.bad("unpromoted_entry", "resumed trial %s has no unpromoted entry in any rung "
                                             "(promoted twice, or never paused at a rung)" % tid)
                return
            r = max(where)
            ent = next(e for e in self.rungs[s][r] if e["t"] == tid)
            if not r < cap_eff:
                self.bad("cap", "trial %s resumed from rung %s which is not below the resource cap %s" % (tid, r, cap_eff))
            if self.spec["type"] == "cost_promotion":
                k, _ = self.cost_status(s, r, target=tid)
                if k == "boundary":
                    self.boundary += 1
                if k == "no":
                    self.bad("cost_rule", "trial %s resumed from rung %s although the cumulative cost up to it "
                                          "exceeds the cost threshold" % (tid, r))
            else:
                c = self.cutoff(s, r)
                if c is None:
                    self.bad("quantile", "trial %s resumed from rung %s holding fewer than 2 entries" % (tid, r))
                else:
                    k = self.cmp(ent["m"], c)
                    if k == "boundary":
                        self.boundary += 1
                    if k == "no":
                        self.bad("quantile", "trial %s (metric %r) resumed from rung %s although worse than the "
                                             "promotion quantile %r of %s" % (tid, ent["m"], r, c,
                                                                             sorted(e["m"] for e in self.rungs[s][r])))
            for e in self.rungs[s][r]:
                if e["t"] != tid and self.surely_admissible(s, r, e) and self.better(e["m"], ent["m"]):
                    self.bad("best_first", "trial %s (metric %r) resumed from rung %s although unpromoted trial %s "
                                           "(metric %r) is strictly better" % (tid, ent["m"], r, e["t"], e["m"]))
                    break
            for r2 in self.sys_levels[s]:
                if r < r2 < cap_eff:
                    t2 = self.strictly_eligible(s, r2)
                    if t2 is not None:
                        self.bad("highest_rung", "trial %s resumed from rung %s although rung %s holds eligible "
                                                 "trial %s" % (tid, r, r2, t2))
            nxt = self.next_level(s, r)
            if self.spec["mra"] and mra_val != nxt:
                self.bad("target", "resumed trial %s from rung %s is told to run to %r, next rung level is %s" % (
                    tid, r, mra_val, nxt))
            if nxt > cap_eff:
                self.bad("cap", "resumed trial %s runs to %s above the resource cap %s" % (tid, nxt, cap_eff))
            ent["prom"] = True
            info.update(state="running", milestone=nxt, resume_from=r, sys=s)
        else:
            for r2 in self.sys_levels[s]:
                if r2 < cap_eff:
                    t2 = self.strictly_eligible(s, r2)
                    if t2 is not None:
                        self.bad("start_iff_none_eligible", "%s although trial %s in rung %s is eligible for promotion" % (
                            "new trial %s started" % tid if kind == "start" else "no suggestion", t2, r2))
                        break
            if kind == "start":
                lv = self.sys_levels[s]
                first = lv[skip] if skip < len(lv) else self.max_t
                if self.spec["mra"] and mra_val != first:
                    self.bad("target", "new trial %s in bracket %s is told to run to %r, first milestone is %s" % (
                        tid, bracket, mra_val, first))
                if first > self.max_t or (cap is not None and skip == 0 and first > cap):
                    self.bad("cap", "new trial %s runs to %s above the resource cap" % (tid, first))
                self.trial[tid] = dict(state="running", milestone=first, resume_from=None, sys=s)

    # ---- decisions -----------------------------------------------------------------------------
    def on_decision(self, tid, resource, metric, total_cost, decision):
        info = self.trial.get(tid)
        if info is None or info["state"] != "running":
            return
        ms = info["milestone"]
        if resource >= self.max_t:
            want = "STOP"
        elif resource == ms:
            want = "PAUSE"
        elif resource < ms:
            want = "CONTINUE"
        else:
            return  # milestone skipped by the worker: outside the property
        if decision != want:
            self.bad("pause_at_milestone", "trial %s reporting resource %s (next milestone %s, max_t %s) got %s, "
                                           "expected %s" % (tid, resource, ms, self.max_t, decision, want))
        if want == "PAUSE":
            s = info["sys"]
            if ms in self.rungs[s]:
                self.rungs[s][ms].append(dict(t=tid, m=metric, c=total_cost, prom=False))
                if self.spec["type"] == "rush_promotion" and tid < self.spec["nthr"]:
                    self.cands.setdefault((s, ms), []).append(metric)
            info["state"] = "paused"
        elif want == "STOP":
            info["state"] = "stopped"

    def on_end(self, tid, state):
        if tid in self.trial and self.trial[tid]["state"] == "running":
            self.trial[tid]["state"] = state

    def on_cap(self, s, cap):
        prev = self.caps_seen.get(s)
        if prev is not None and cap > prev:
            self.cap_increases = getattr(self, "cap_increases", 0) + 1
        if prev is not None and cap < prev:
            self.bad("cap_monotone", "PASHA resource cap of rung system %s decreased from %s to %s" % (s, prev, cap))
        self.caps_seen[s] = cap


# ------------------------------------------------------------------------------------------------
# running one spec against the real scheduler
# ------------------------------------------------------------------------------------------------
def pasha_distances(inst, idx_before):
    """harness-side recomputation of noisy_cfg_distances of PASHARungSystem._update_epsilon from the public
    attributes of the rung system (rung_levels, current_max_epoch, epoch_to_trials, per_epoch_results), with
    the rung index in force during the call. Returns (orders, distances, error) where orders lists, for every
    epoch of the scanned range holding >= 2 trials, the iteration order of the set epoch_to_trials[epoch]."""
    import itertools
    desc = list(reversed(inst.rung_levels))  # = levels of self._rungs

    def level_at(pos):
        n = len(desc)
        return desc[pos] if -n <= pos < n else None

    top, prev = level_at(-idx_before), level_at(-idx_before + 1)
    if top is None or prev is None:
        return [], [], None
    top_epoch = min(inst.current_max_epoch, top)
    bottom_epoch = min(prev, inst.current_max_epoch)
    orders, dists, seen = [], [], set()
    try:
        for epoch in range(top_epoch, bottom_epoch, -1):
            order = list(inst.epoch_to_trials[epoch])
            if len(order) > 1:
                orders.append((epoch, [int(t) for t in order]))
                for pair in itertools.combinations(order, 2):
                    c1, c2 = sorted(pair)  # the pair is identified independently of the iteration order
                    if (c1, c2) in seen:
                        continue
                    seen.add((c1, c2))
                    p1, p2 = inst.per_epoch_results[c1][epoch], inst.per_epoch_results[c2][epoch]
                    cond = p1 > p2
                    opposite = again = False
                    for pe in range(epoch - 1, 0, -1):
                        pc = inst.per_epoch_results[c1][pe] > inst.per_epoch_results[c2][pe]
                        if pc == (not cond):
                            opposite = True
                        if opposite and pc == cond:
                            again = True
                            break
                    if opposite and again:
                        dists.append(abs(p1 - p2))
    except KeyError as e:
        return orders, dists, e
    return orders, [float(d) for d in dists], None


def exc_class(e):
    return 0 if isinstance(e, KeyError) else 1 if isinstance(e, AssertionError) else 2 if isinstance(e, IndexError) else 3


def run_spec(spec, strict=False, max_trials=None):
    """runs one scheduler through its op list (see run_spec_gen)"""
    g = run_spec_gen(spec, strict=strict, max_trials=max_trials)
    try:
        while True:
            next(g)
    except StopIteration as stop:
        return stop.value


def run_twin(tw):
    """two independent schedulers alive in the same process, their op lists interleaved (which one advances
    next is drawn from the twin's own seed); each is checked against its own model / reference"""
    gens = [run_spec_gen(sp) for sp in tw["twin"]]
    results = [None, None]
    live = [0, 1]
    order = random.Random(tw.get("schedule_seed", 0))
    first = True
    while live:
        pick = list(live) if first else [order.choice(live)]   # both schedulers are constructed before any op
        first = False
        for i in pick:
            try:
                next(gens[i])
            except StopIteration as stop:
                results[i] = stop.value
                live.remove(i)
    return results


def run_spec_gen(spec, strict=False, max_trials=None):
    """returns dict(term=Coq case, events=[...] (JSON), checker=Checker, stats=dict).
    strict: return the string "invalid" as soon as an op does not apply (used by the exhaustive stream)."""
    from syne_tune.optimizer.schedulers import hyperband as hb
    from syne_tune.optimizer.schedulers.hyperband_pasha import PASHARungSystem
    from syne_tune.backend.trial_status import Trial
    from syne_tune.config_space import uniform, choice

    instances = []

    class RecordingPASHA(PASHARungSystem):
        """harness-side subclass: exposes the rung system instances and the epsilon in force after
        _update_epsilon of each report (oracle value for the model)"""

        def __init__(self, *a, **kw):
            super().__init__(*a, **kw)
            self.eps_log = []
            instances.append(self)

        def on_task_report(self, trial_id, result, skip_rungs):
            idx_before, eps_before = self.current_rung_idx, float(self.epsilon)
            try:
                return super().on_task_report(trial_id, result, skip_rungs)
            finally:
                self.eps_log.append((float(self.epsilon), idx_before, eps_before))

    max_t = spec["max_t"]
    cs = {"x": choice(["a", "b", "c"]) if spec["tiny_space"] else uniform(0.0, 1.0)}
    kwargs = dict(type=spec["type"], searcher="random", metric="m", mode=spec["mode"], resource_attr="epoch",
                  brackets=spec["brackets"], rung_system_per_bracket=spec["per_bracket"], random_seed=0)
    if spec["rung_levels"] is not None:
        kwargs["rung_levels"] = list(spec["rung_levels"])
    else:
        kwargs.update(grace_period=spec["grace"], reduction_factor=spec["rf"])
    variant = spec.get("maxt")
    if variant is None:  # older specs (corpus, replays): max_resource_attr "epochs" or explicit max_t
        variant = (dict(max_t_arg=None, max_resource_attr="epochs", space_consts={"epochs": max_t}) if spec["mra"]
                   else dict(max_t_arg=max_t, max_resource_attr=None, space_consts={}))
    mra_key = variant["max_resource_attr"]
    cs.update(variant["space_consts"])
    if variant["max_t_arg"] is not None:
        kwargs["max_t"] = variant["max_t_arg"]
    if mra_key is not None:
        kwargs["max_resource_attr"] = mra_key
    # the reference maximum NEVER comes from scheduler.max_t: documented rule (max_t argument, else
    # config_space[max_resource_attr], else epochs / max_t / max_epochs)
    assert documented_max_t(variant["max_t_arg"], mra_key, variant["space_consts"]) == max_t, variant
    if spec["cost_attr"]:
        kwargs["cost_attr"] = "cost"
    if spec.get("searcher_data", "rungs") != "rungs":
        kwargs["searcher_data"] = spec["searcher_data"]
        kwargs["register_pending_myopic"] = bool(spec.get("myopic", False))
    if spec["type"] == "rush_promotion":
        kwargs["rung_system_kwargs"] = {"num_threshold_candidates": spec["nthr"]}
        if not spec["tiny_space"]:
            kwargs["points_to_evaluate"] = [{"x": 0.1 * (i + 1)} for i in range(spec["nthr"])]
    with mock.patch.dict(hb.RUNG_SYSTEMS, {"pasha": RecordingPASHA}):
        try:
            sch = hb.HyperbandScheduler(cs, **kwargs)
        except AssertionError:
            return None  # e.g. PASHA with an empty rung system: not constructible
    yield  # constructed
    # reference rung levels, promotion quantiles and number of brackets from the documented rules
    # (levels grace * rf^k < max_t or the given list, a final max_t stripped; q_j = r_j / r_{j+1}; at most
    # one bracket per rung level plus one) -- not read off the scheduler
    if spec["rung_levels"] is not None:
        levels = [int(l) for l in spec["rung_levels"] if l < max_t]
    else:
        levels, cur = [], spec["grace"]
        while cur < max_t:
            levels.append(int(cur))
            cur *= spec["rf"]
    rungs = [(l, l / nxt) for l, nxt in zip(levels, levels[1:] + [max_t])]
    nb = min(spec["brackets"], len(levels) + 1)
    dist = OneHot(max(nb, sch.num_brackets))
    sch.bracket_distribution = dist
    chk = Checker(spec, levels, max_t, nb)
    def strlit(x):
        return '"%s"%%string' % x

    cspace = [("x", None)] + [(k2, int(v)) for k2, v in variant["space_consts"].items()]
    cfg_term = "(mkCtor %s %s %s %s %s %s %s %s None %s %s %s %s (1 # 1000000000000) %s)" % (
        VARIANT[spec["type"]], "Min" if spec["mode"] == "min" else "Max",
        optlit(variant["max_t_arg"], zlit), optlit(mra_key, strlit),
        lst(["(%s, %s)" % (strlit(k2), optlit(v, zlit)) for k2, v in cspace]),
        optlit(spec["rung_levels"], lambda l: lst([zlit(x) for x in l])),
        zlit(spec["grace"]), "(Some (%d # 1))" % int(spec["rf"]),
        natlit(spec["brackets"]), blit(spec["per_bracket"]), blit(spec["cost_attr"]), zlit(spec["nthr"]),
        blit(spec.get("searcher_data", "rungs") == "rungs"))

    nw = spec["n_workers"]
    slots = [None] * nw
    trials, last_result, paused_last = {}, {}, None
    next_id = 0
    ev_terms, ev_json = [], []
    stats = dict(resumes=0, starts=0, starts_with_paused=0, max_rung_at_resume=0, errors=0, nosugg=0, late=0,
                 pauses=0, stops=0, ignored=0, oracle_errors=0, malformed=0, pasha_index_errors=0, pasha_reports=0, pasha_noisy=0, pasha_eps_changes=0)
    t0 = datetime.datetime(2020, 1, 1)
    step_no = [0]

    def pasha_cap(s):
        return instances[s].current_max_t if (spec["type"] == "pasha" and s < len(instances)) else None

    def snapshot():
        step_no[0] += 1
        if step_no[0] % 4 != 0:
            return "None", None
        pt = sch.terminator.paused_trials()
        inf = sch.terminator.information_for_rungs()
        term = "(Some (%s, %s))" % (
            lst(["(%s, %s, %s, %s)" % (zlit(int(t)), natlit(p), q(float(m)), zlit(l)) for (t, p, m, l) in pt]),
            lst(["(%s, %s)" % (zlit(l), natlit(n)) for (l, n, _) in inf]))
        return term, dict(paused=[[int(t), p, float(m), l] for (t, p, m, l) in pt], info=[[l, n] for (l, n, _) in inf])

    def record(ev, ob, js):
        sn_term, sn_js = snapshot() if not ob.startswith("(ObsErr") else ("None", None)
        ev_terms.append("(%s, %s, %s)" % (ev, ob, sn_term))
        js = dict(js)
        if sn_js is not None:
            js["snapshot"] = sn_js
        ev_json.append(js)
        if spec["type"] == "pasha":
            for s, inst in enumerate(instances):
                chk.on_cap(s, inst.current_max_t)

    def busy_ids():
        return {sl["tid"] for sl in slots if sl is not None}

    def raised(call, err):
        """an exception of a scheduler call on a protocol-following event sequence is a violation"""
        if stats["malformed"] == 0:
            chk.bad("scheduler_raised", "%s raised %s(%s) on a legal event sequence" % (call, type(err).__name__, str(err)[:120]),
                    signature=dict(scheduler="HyperbandScheduler", type=spec["type"], check="scheduler_raised",
                                   exception=type(err).__name__))

    def do_report(tid, resource, metric, cost, slot_idx):
        """returns decision or None after an exception"""
        result = {"epoch": resource, "m": metric}
        if spec["cost_attr"]:
            result["cost"] = cost
        eps_before = [len(i.eps_log) for i in instances]
        ev = None
        try:
            dec = sch.on_trial_result(trials[tid], dict(result))
            err = None
        except (KeyError, AssertionError, IndexError) as e:
            dec, err = None, e
        # PASHA oracles of this call: iteration order of the sets epoch_to_trials[epoch] in the epoch range of
        # _update_epsilon, and the epsilon afterwards (= np.percentile of the distances when there are any)
        orc_term, eps_after, dists, rec = "(mkO [] 0)", None, [], None
        for inst, n0 in zip(instances, eps_before):
            if len(inst.eps_log) > n0:
                rec = inst
        if rec is not None:
            eps_after, idx_before, eps_prev = rec.eps_log[-1]
            orders, dists, derr = pasha_distances(rec, idx_before)
            orc_term = "(mkO %s %s)" % (lst(["(%s, %s)" % (zlit(ep), lst([zlit(t) for t in o])) for ep, o in orders]),
                                        q(eps_after))
            want = float(np.percentile(dists, 90)) if dists else eps_prev
            if derr is None and not (want == eps_after):
                chk.oracle_mismatch.append("epsilon after the report of trial %s at %s is %r, np.percentile(distances %r, 90) "
                                           "(or the previous epsilon) is %r" % (tid, resource, eps_after, dists, want))
        ev = "Report %s %s %s %s %s" % (zlit(tid), zlit(resource), q(metric), q(cost), orc_term)
        js = dict(op="report", trial=tid, resource=resource, metric=metric, cost=cost, eps=eps_after, dists=dists)
        if err is not None:
            tb = traceback.extract_tb(err.__traceback__)
            if (isinstance(err, IndexError) and spec["type"] == "pasha" and tb
                    and tb[-1].name in ("_evaluate_soft_ranking", "_get_top_two_rungs_rankings", "_update_epsilon")):
                # finding F-C04-1: PASHA's ranking comparison raises on a legal configuration. The model
                # describes the repaired step, so the sequence ends before this event.
                stats["pasha_index_errors"] += 1
                if stats["malformed"] == 0:
                    chk.bad("scheduler_raised",
                            "scheduler raised IndexError in %s on a legal event sequence (trial %s reporting "
                            "resource %s; brackets=%d, rung levels %s)" % (tb[-1].name, tid, resource, nb, levels),
                            signature=dict(scheduler="pasha", defect="IndexError_soft_ranking",
                                           brackets_ge_2=bool(nb >= 2), num_rung_levels=len(levels)))
                return None
            stats["errors"] += 1
            raised("on_trial_result(trial %s, resource %s)" % (tid, resource), err)
            record(ev, "(ObsErr %s)" % natlit(exc_class(err)), dict(js, error=type(err).__name__))
            return None
        last_result[tid] = result
        # total cost as the scheduler computes it is cost + offset: the checker recomputes it itself
        if rec is not None:
            stats["pasha_reports"] += 1
            stats["pasha_noisy"] += int(bool(dists))
            stats["pasha_eps_changes"] += int(eps_after != rec.eps_log[-1][2])
            record(ev, "(ObsDecE %s %s %s)" % (dec, q(eps_after), lst([q(d) for d in dists])), dict(js, decision=dec))
        else:
            record(ev, "(ObsDec %s)" % dec, dict(js, decision=dec))
        return dec

    totals = {}  # harness-side cumulative cost bookkeeping: tid -> cost offset (total at the last milestone)

    alive = True
    for op in spec["ops"]:
        if not alive:
            break
        yield  # another scheduler of the same process may run its next op here
        kind = op[0]
        if kind == "S":
            free = [i for i, sl in enumerate(slots) if sl is None]
            if not free:
                if strict:
                    return "invalid"
                continue
            br = op[1] % nb
            dist.b = br
            had_paused = len(sch.terminator.paused_trials()) > 0
            s_idx = chk.sys_of(br)[0]
            cap = pasha_cap(s_idx)
            busy = busy_ids()
            try:
                sug = sch.suggest(next_id)
                err = None
            except (KeyError, AssertionError, IndexError) as e:
                sug, err = None, e
            if err is not None:
                stats["errors"] += 1
                raised("suggest(%s)" % next_id, err)
                record("Suggest %s %s [] true" % (zlit(next_id), natlit(br)), "(ObsErr %s)" % natlit(exc_class(err)),
                       dict(op="suggest", new_id=next_id, bracket=br, error=type(err).__name__))
                alive = False
                break
            if sug is None:
                stats["nosugg"] += 1
                chk.on_suggest(br, "none", None, None, cap, busy)
                record("Suggest %s %s [] false" % (zlit(next_id), natlit(br)), "ObsNone",
                       dict(op="suggest", new_id=next_id, bracket=br, result="none"))
                continue
            mra_val = sug.config.get(mra_key) if (sug.config is not None and spec["mra"]) else None
            if sug.spawn_new_trial_id:
                if strict and max_trials is not None and next_id >= max_trials:
                    return "invalid"
                tid = next_id
                next_id += 1
                trials[tid] = Trial(trial_id=tid, config=sug.config, creation_time=t0)
                stats["starts"] += 1
                stats["starts_with_paused"] += int(had_paused)
                chk.on_suggest(br, "start", tid, mra_val, cap, busy)
                record("Suggest %s %s [] true" % (zlit(tid), natlit(br)),
                       "(ObsStart %s %s)" % (zlit(tid), optlit(mra_val, zlit)),
                       dict(op="suggest", new_id=tid, bracket=br, result="start", mra=mra_val))
                sch.on_trial_add(trials[tid])
                record("Add %s" % zlit(tid), "ObsUnit", dict(op="add", trial=tid))
                target = mra_val if spec["mra"] else max_t
                slots[free[0]] = dict(tid=tid, ptr=0, target=target, resume_from=None)
            else:
                tid = int(sug.checkpoint_trial_id)
                stats["resumes"] += 1
                chk.on_suggest(br, "resume", tid, mra_val, cap, busy)
                info = chk.trial.get(tid, {})
                rf = info.get("resume_from")
                if rf is not None:
                    stats["max_rung_at_resume"] = max(stats["max_rung_at_resume"], len(chk.rungs[info["sys"]].get(rf, [])))
                record("Suggest %s %s [] true" % (zlit(next_id), natlit(br)),
                       "(ObsResume %s %s)" % (zlit(tid), optlit(mra_val, zlit)),
                       dict(op="suggest", new_id=next_id, bracket=br, result="resume", trial=tid, mra=mra_val))
                if tid not in trials:
                    alive = False
                    break
                if sug.config is not None:
                    trials[tid] = Trial(trial_id=tid, config=sug.config, creation_time=t0)
                target = mra_val if spec["mra"] else max_t
                start = (rf or 0) if spec["checkpointing"] else 0
                slots[free[0]] = dict(tid=tid, ptr=start, target=target, resume_from=rf, scratch=not spec["checkpointing"])
                if paused_last is not None and paused_last[0] == tid:
                    paused_last = None
        elif kind in ("R", "J", "B", "T"):
            i = op[1] % nw
            sl = slots[i]
            if sl is None:
                if strict:
                    return "invalid"
                continue
            if kind in ("J", "B"):
                stats["malformed"] += 1
            if kind == "R":
                resource, metric, cost = sl["ptr"] + 1, op[2], op[3]
            elif kind == "T":
                # metric from the spec's table: row = trial id, column = level
                row = spec["table"][sl["tid"] % len(spec["table"])]
                resource = sl["ptr"] + 1
                metric, cost = float(row[(resource - 1) % len(row)]), 1.0
            elif kind == "J":
                resource, metric, cost = sl["ptr"] + op[2], op[3], op[4]
            else:
                resource, metric, cost = max(1, sl["ptr"] - 1), op[2], op[3]
            tid = sl["tid"]
            # cumulative cost as the checker understands it: offset = total at the last milestone, reset when a
            # resumed trial reports a level <= resume_from (= it restarted from scratch; also a repeated level)
            if sl["resume_from"] is not None and resource <= sl["resume_from"]:
                totals[tid] = 0.0
                stats["ignored"] += 1
            tot = cost + totals.get(tid, 0.0)
            dec = do_report(tid, resource, metric, cost, i)
            if dec is None:
                alive = False
                break
            chk.on_decision(tid, resource, metric, tot, dec)
            sl["ptr"] = resource
            if dec == "CONTINUE":
                if resource >= sl["target"]:
                    # the script has run to its last epoch without being paused: it completes
                    try:
                        sch.on_trial_complete(trials[tid], dict(last_result[tid]))
                        record("Complete %s" % zlit(tid), "ObsUnit", dict(op="complete", trial=tid))
                    except (KeyError, AssertionError, IndexError) as e:
                        record("Complete %s" % zlit(tid), "(ObsErr %s)" % natlit(exc_class(e)), dict(op="complete", trial=tid))
                        alive = False
                    chk.on_end(tid, "done")
                    slots[i] = None
            else:
                stats["pauses" if dec == "PAUSE" else "stops"] += 1
                if spec["cost_attr"]:
                    totals[tid] = tot
                sch.on_trial_remove(trials[tid])
                record("Remove %s" % zlit(tid), "ObsUnit", dict(op="remove", trial=tid))
                chk.on_end(tid, "paused" if dec == "PAUSE" else "stopped")
                paused_last = (tid, resource)
                slots[i] = None
        elif kind == "L":
            if paused_last is None:
                continue
            tid, res = paused_last
            stats["late"] += 1
            dec = do_report(tid, res + 1, op[1], op[2], None)
            if dec is None:
                alive = False
                break
            paused_last = (tid, res + 1)
            if dec != "CONTINUE":
                sch.on_trial_remove(trials[tid])
                record("Remove %s" % zlit(tid), "ObsUnit", dict(op="remove", trial=tid))
        elif kind in ("F", "C", "D"):
            i = op[1] % nw
            sl = slots[i]
            if sl is None:
                continue
            tid = sl["tid"]
            try:
                if kind == "F":
                    sch.on_trial_error(trials[tid])
                    record("Fail %s" % zlit(tid), "ObsUnit", dict(op="fail", trial=tid))
                    chk.on_end(tid, "failed")
                elif kind == "C":
                    if tid not in last_result:
                        continue
                    sch.on_trial_complete(trials[tid], dict(last_result[tid]))
                    record("Complete %s" % zlit(tid), "ObsUnit", dict(op="complete", trial=tid))
                    chk.on_end(tid, "done")
                else:
                    sch.on_trial_remove(trials[tid])
                    record("Remove %s" % zlit(tid), "ObsUnit", dict(op="remove", trial=tid))
                    chk.on_end(tid, "removed")
            except (KeyError, AssertionError, IndexError) as e:
                record({"F": "Fail", "C": "Complete", "D": "Remove"}[kind] + " " + zlit(tid),
                       "(ObsErr %s)" % natlit(exc_class(e)), dict(op=kind, trial=tid, error=type(e).__name__))
                alive = False
            slots[i] = None
        elif kind == "U":
            if next_id == 0 and not ev_terms:
                continue  # before the first suggest the scheduler has no time keeper yet
            tid = next_id + op[1]
            stats["malformed"] += 1
            trials[tid] = Trial(trial_id=tid, config={"x": "a" if spec["tiny_space"] else 0.5}, creation_time=t0)
            dec = do_report(tid, 1, op[2], op[3], None)
            if dec is None:
                alive = False
    return dict(term="(%s, %s)" % (cfg_term, lst(["\n    " + t for t in ev_terms])), events=ev_json, checker=chk,
                stats=stats, config=dict(levels=levels, quantiles=[pq for _, pq in rungs], num_brackets=nb))


EXH_TABLES = [
    [[1, 1, 1], [2, 2, 2], [3, 3, 3]],   # stable ranking
    [[3, 1, 2], [1, 3, 3], [2, 2, 1]],   # ranking changes between levels
    [[1, 1, 1], [1, 1, 1], [2, 2, 2]],   # ties
    [[1e-9, 1e-9, 1e-9], [5e-9, 5e-9, 5e-9], [9e-9, 9e-9, 9e-9]],              # tiny magnitudes
    [[0.5, 0.5, 0.5], [0.500004, 0.500004, 0.500004], [0.500008, 0.500008, 0.500008]],  # near ties
]


def exhaustive_specs(ctx, depth, cap):
    """thorough tier: ALL interleavings (DFS over op sequences; only sequences in which every op applies)
    of <= 3 trials on <= 3 workers over rung levels [1, 2, 3] (max_t 4) for plain promotion: ops = suggest,
    or the next consecutive report of the trial in worker slot k. Leaves (depth reached / nothing applies)
    are the cases."""
    alphabet = [["S", 0], ["T", 0], ["T", 1], ["T", 2]]
    out = []
    sink = io.StringIO()
    for ti, table in enumerate(EXH_TABLES):
        for mode, ckpt in (("min", True), ("max", False)):
            base = dict(type="promotion", mode=mode, rung_levels=[1, 2, 3], grace=1, rf=3, max_t=4, brackets=1,
                        per_bracket=False, mra=True, cost_attr=False, nthr=0, checkpointing=ckpt, n_workers=3,
                        tiny_space=False, style="table%d" % ti, table=table)

            def valid(ops):
                with contextlib.redirect_stdout(sink), contextlib.redirect_stderr(sink):
                    r = run_spec(dict(base, ops=ops), strict=True, max_trials=3)
                return r != "invalid" and r is not None

            stack = [[]]
            while stack and len(out) < cap:
                ops = stack.pop()
                kids = [ops + [a] for a in alphabet if valid(ops + [a])] if len(ops) < depth else []
                if not kids:
                    if ops:
                        out.append(dict(base, ops=ops, exhaustive=True))
                else:
                    stack.extend(kids)
    return out


def run(ctx, replay=None):
    logging.getLogger("syne_tune").setLevel(logging.CRITICAL)
    logging.disable(logging.CRITICAL)
    ctx.rule = ("cases: op sequences (30..170 ops: suggest with forced bracket, per-worker consecutive reports, late "
                "reports of paused trials, failures, early completions; 15% of cases add malformed ops: skipped levels, "
                "unknown trials, removal of running trials, repeated levels) against HyperbandScheduler types promotion / "
                "pasha / cost_promotion / rush_promotion, searcher=random, min/max, brackets 1..3 shared or per-bracket "
                "rung systems, with/without max_resource_attr, cost_attr and script-side checkpointing, 1..4 workers, "
                "metrics on integer grids (ties), dyadic grids, floats, tiny magnitudes, near ties and tables with exact zeros; the maximum "
                "resource reaches the constructor explicitly or through config-space constants (with distractors); plus interleaved "
                "twin experiments (two schedulers alive in one process, overlapping trial ids); any exception of a scheduler call "
                "on a protocol-following sequence is a violation; non-trivial = at least one resume from a rung "
                "holding >= 3 entries and at least one start while paused trials existed; distinct by content hash")
    rng = ctx.rng
    if replay is not None:
        specs = [replay["spec"]] if "spec" in replay else []
    else:
        corpus = [json.load(open(f))["spec"] for f in sorted(glob.glob(os.path.join(VERIF, "corpus", "C04", "*.json")))]
        n = ctx.n(180, 5000)
        specs = corpus + [gen_spec(rng, force_type=TYPES[i % 4] if i < n // 2 else None) for i in range(n)]
        ctx.h("stream", "corpus", len(corpus))
        # interleaved twin experiments: two independent promotion-type schedulers alive in one process, overlapping
        # trial ids, protocol-following op lists interleaved; each is checked against its own model / reference
        for _ in range(ctx.n(24, 400)):
            specs.append(dict(twin=[gen_spec(rng, wellformed=True), gen_spec(rng, wellformed=True)],
                              schedule_seed=rng.randrange(10 ** 6)))
        if ctx.tier == "thorough":
            exh = exhaustive_specs(ctx, depth=int(os.environ.get("VERIF_C04_EXH_DEPTH", "12")), cap=30000)
            ctx.notes.append("bounded-exhaustive stream (plain promotion, <=3 trials, 3 workers, rung levels [1,2,3], "
                             "5 metric tables x {min+checkpointing, max+scratch}): %d maximal interleavings" % len(exh))
            specs += exh
    terms, meta = [], []
    hyp_terms, hyp_meta = [], []
    boundary_total = 0
    sink = io.StringIO()
    jobs = []
    for case_spec in specs:
        with contextlib.redirect_stdout(sink), contextlib.redirect_stderr(sink):
            if "twin" in case_spec:
                for sub, r in zip(case_spec["twin"], run_twin(case_spec)):
                    jobs.append((case_spec, sub, r))
            else:
                jobs.append((case_spec, case_spec, run_spec(case_spec)))
    for case_spec, spec, res in jobs:
        if res is None:
            ctx.h("construct", "rejected")
            continue
        st, chk = res["stats"], res["checker"]
        nontriv = st["resumes"] >= 1 and st["max_rung_at_resume"] >= 3 and st["starts_with_paused"] >= 1
        ctx.count(("c04", spec, "twin" in case_spec), nontrivial=nontriv)
        ctx.h("type", spec["type"])
        ctx.h("stream", "twin" if "twin" in case_spec else "exhaustive" if spec.get("exhaustive") else "random")
        ctx.h("searcher_data", spec.get("searcher_data", "rungs"))
        ctx.h("brackets", "%d%s" % (spec["brackets"], "/per_bracket" if spec["per_bracket"] else ""))
        ctx.h("mra/checkpointing", "%s/%s" % (spec["mra"], spec["checkpointing"]))
        for k in ("resumes", "starts", "starts_with_paused", "pauses", "stops", "late", "errors", "nosugg", "ignored", "oracle_errors", "pasha_index_errors", "pasha_reports", "pasha_noisy", "pasha_eps_changes"):
            ctx.h("events", k, st[k])
        ctx.h("events", "total", len(res["events"]))
        ctx.h("boundary_decisions", spec["type"], chk.boundary)
        ctx.h("events", "pasha_cap_increases", getattr(chk, "cap_increases", 0))
        boundary_total += chk.boundary
        for v in chk.violations[:3]:
            ctx.violation("property", "%s %s (mode=%s, brackets=%d): %s" % (
                "HyperbandScheduler", spec["type"], spec["mode"], spec["brackets"], v["what"]),
                case=dict(spec=case_spec, first_bad=v, events=res["events"][-12:]),
                signature=v.get("signature") or dict(scheduler="HyperbandScheduler", type=spec["type"], check=v["check"]))
        for what in chk.oracle_mismatch[:2]:
            ctx.violation("correspondence", "PASHA oracle tie broken: " + what, case=dict(spec=case_spec), failing_input=False,
                          broken="oracle tie: self.epsilon == np.percentile(noisy_cfg_distances, 90) with the distances the "
                                 "model computes")
        terms.append(res["term"])
        meta.append(dict(spec=case_spec, sub=spec, impl_events=res["events"]))
        if st["malformed"] == 0 and st["oracle_errors"] == 0:
            hyp_terms.append("(%s, %s)" % (blit(spec["checkpointing"]), res["term"]))
            hyp_meta.append(len(meta) - 1)
        ctx.sample(dict(spec={k: v for k, v in spec.items() if k != "ops"}, n_ops=len(spec["ops"]),
                        rungs=res["config"], first_events=res["events"][:12], stats=st))
    ctx.notes.append("Boundary decisions seen by the checker (|value - cutoff| <= 1e-12 relative, either answer accepted): %d"
                     % boundary_total)
    if terms:
        for i in ctx.coq_bad_cases("seq", IMPORTS, PRELUDE, "chk_seq", terms, shard=24):
            m = meta[i]
            try:
                diag = ctx.coq_eval("diag%d" % i, IMPORTS, PRELUDE, ["diag_seq %s" % terms[i]])[0]
            except Exception as e:  # diagnostics only
                diag = "diagnostic evaluation failed: %r" % (e,)
            k = re.search(r"Some \((\d+)", diag)
            at = int(k.group(1)) if k else None
            ctx.violation("correspondence", "model/Promotion.v and HyperbandScheduler(type=%s) differ on an event sequence; "
                          "first differing event #%s: implementation %s; model: %s"
                          % (m["sub"]["type"], at, m["impl_events"][at] if at is not None and at < len(m["impl_events"]) else "?",
                             diag[:700]),
                          case=dict(spec=m["spec"], impl_events=m["impl_events"][-30:]),
                          failing_input=False, broken="correspondence chk_seq (model/Promotion.v step)")
    if hyp_terms:
        ctx.h("hypothesis_coverage", "protocol-following sequences checked against consecutive/proto_from", len(hyp_terms))
        for k in ctx.coq_bad_cases("hyp", IMPORTS, PRELUDE, "chk_hyp", hyp_terms, shard=24):
            m = meta[hyp_meta[k]]
            ctx.violation("correspondence", "a protocol-following harness sequence (type=%s, checkpointing=%s) does not "
                          "satisfy the hypotheses `consecutive` / `proto_from` of the trace theorems"
                          % (m["sub"]["type"], m["sub"]["checkpointing"]),
                          case=dict(spec=m["spec"], impl_events=m["impl_events"][-30:]),
                          failing_input=False, broken="hypothesis coverage chk_hyp (consecutive_b / proto_b)")
