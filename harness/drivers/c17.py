"""C17 — the results log and the reported best configuration reflect what happened.

Correspondence of coq/model/Results.v with the REAL classes
  syne_tune.results_callback.StoreResultsCallback, syne_tune.tuning_status.TuningStatus /
  print_best_metric_found, syne_tune.tuner.Tuner (best_config, whole runs),
  syne_tune.experiments.load_experiment / ExperimentResult.best_config,
plus an independent Python checker of the property on the implementation's outputs
(rows, CSV read back from disk, running statistics, reported best trial / configuration).

Two kinds of case:
  seq : a generated script of TuningStatus.update calls and result deliveries fed to a real
        StoreResultsCallback and a real TuningStatus through their public methods
  run : a whole Tuner.run() with a harness-side in-memory TrialBackend subclass (scripted
        workers) and a real scheduler (FIFO random, Hyperband stopping / promotion with
        max_resource_attr => resumed trials with a changed configuration) or a scripted one;
        results.csv.zip written under a temporary SYNETUNE_FOLDER and read back with
        load_experiment.
"""
import contextlib
import copy
import datetime
import io
import logging
import math
import numbers
import os
import shutil
import tempfile
from pathlib import Path
from types import SimpleNamespace

_TMP_ROOT = tempfile.mkdtemp(prefix="c17-synetune-")
os.environ["SYNETUNE_FOLDER"] = _TMP_ROOT  # must be set before syne_tune is imported

import numpy as np  # noqa: E402

import pandas as pd  # noqa: E402

from common import q, lst, natlit, zlit, blit, optlit  # noqa: E402

NAN = float("nan")
INF = float("inf")

IMPORTS = "From Coq Require Import Qabs.\nFrom Verif Require Import model.Base model.Results.\nOpen Scope Q_scope.\n"

PRELUDE = r"""
Definition dict_equiv (a b : dict) : bool :=
  Nat.eqb (length a) (length b) &&
  forallb (fun kv => opt_eqb value_eqb (dget (fst kv) b) (Some (snd kv))) a &&
  forallb (fun kv => opt_eqb value_eqb (dget (fst kv) a) (Some (snd kv))) b.

Definition num_close (tol : Q) (a b : num) : bool :=
  match a, b with
  | Fin x, Fin y => Qleb (Qabs (x - y)) tol
  | _, _ => num_eqb a b
  end.
Definition ndict_equiv (cmp : num -> num -> bool) (a b : list (key * num)) : bool :=
  Nat.eqb (length a) (length b) &&
  forallb (fun kv => opt_eqb cmp (aget key_eqb (fst kv) b) (Some (snd kv))) a &&
  forallb (fun kv => opt_eqb cmp (aget key_eqb (fst kv) a) (Some (snd kv))) b.

(* implementation statistics: count, min_metrics, max_metrics, sum_metrics *)
Definition istats := (nat * list (key * num) * list (key * num) * list (key * num))%type.
Definition stats_match (tol : Q) (s : stats) (i : istats) : bool :=
  let '(c, mn, mx, sm) := i in
  Nat.eqb (st_count s) c && ndict_equiv num_eqb (st_min s) mn && ndict_equiv num_eqb (st_max s) mx &&
  ndict_equiv (num_close tol) (st_sum s) sm.

Fixpoint trials_match (tol : Q) (m : list (Z * stats)) (i : list (Z * istats)) : bool :=
  match m, i with
  | [], [] => true
  | (t, s) :: m', (t', s') :: i' => Z.eqb t t' && stats_match tol s s' && trials_match tol m' i'
  | _, _ => false
  end.

(* best-trial query: metric names, modes, queried metric, implementation answer of
   print_best_metric_found (None = returned None) *)
Definition bquery := (list key * modes * metric_ref * option (Z * num))%type.
Definition chk_bquery (ts : tstatus) (qy : bquery) : bool :=
  let '(names, ms, mref, impl) := qy in
  match metric_name_mode names ms mref with
  | None => false
  | Some (name, m) =>
      match print_best ts name m, impl with
      | None, None => true
      | Some (_, v), Some (t', v') =>
          (* tie-tolerant: same optimum value, and the reported trial attains it in the model *)
          num_eqb v v' &&
          match aget Z.eqb t' (ts_trials ts) with
          | Some s => num_eqb (per_trial_opt m name s) v
          | None => false
          end
      | _, _ => false
      end
  end.

(* Tuner.best_config query: implementation answer = Some (trial, config) or None (exception) *)
Definition cfg_equiv (a b : list (nat * value)) : bool :=
  Nat.eqb (length a) (length b) &&
  forallb (fun kv => opt_eqb value_eqb (aget Nat.eqb (fst kv) b) (Some (snd kv))) a.
Definition tquery := (list key * modes * metric_ref * option (Z * list (nat * value)))%type.
Definition chk_tquery (ts : tstatus) (backend : list (Z * list (nat * value))) (qy : tquery) : bool :=
  let '(names, ms, mref, impl) := qy in
  match tuner_best_config names ms mref ts backend, impl with
  | Err, None => true
  | Ok (t, cfg), Some (t', cfg') =>
      (* tie-tolerant on the trial; the configuration must be the backend's one of the reported trial *)
      match metric_name_mode names ms mref, aget Z.eqb t' (ts_trials ts), aget Z.eqb t' backend with
      | Some (name, m), Some s', Some c' =>
          match aget Z.eqb t (ts_trials ts) with
          | Some s => num_eqb (per_trial_opt m name s) (per_trial_opt m name s') && cfg_equiv c' cfg'
          | None => false
          end
      | _, _, _ => false
      end
  | _, _ => false
  end.

(* ExperimentResult.best_config query on the loaded table: implementation answer =
   Some row-without-st-columns, None = exception *)
Definition equery := (list key * modes * metric_ref * option dict)%type.
Definition chk_equery (table : list dict) (qy : equery) : bool :=
  let '(names, ms, mref, impl) := qy in
  match exp_best_config names ms mref table, impl with
  | EUnmodelled, _ => true
  | EError, None => true
  | EBest i cfg, Some cfg' =>
      match metric_name_mode names ms mref with
      | Some (name, m) =>
          (* tie-tolerant: some row with the model's optimum (filled) value equals the returned row *)
          let v := cell_fill m (cell_of name (nth i table [])) in
          existsb (fun row => num_eqb (cell_fill m (cell_of name row)) v && dict_equiv (strip_st row) cfg') table
      | None => false
      end
  | _, _ => false
  end.

(* the summary printed at the end of Tuner.run(): implementation answer (trial, value) or None *)
Definition squery := (list key * modes * option (Z * num))%type.
Definition chk_squery (ts : tstatus) (qy : squery) : bool :=
  let '(names, ms, impl) := qy in
  match tuner_final_summary names ms ts, impl with
  | None, None => true
  | Some (_, v), Some (t', v') =>
      num_eqb v v' &&
      match names, summary_mode ms, aget Z.eqb t' (ts_trials ts) with
      | name :: _, Some m, Some s => num_eqb (per_trial_opt m name s) v
      | _, _, _ => false
      end
  | _, _ => false
  end.

Record case := {
  c_wallclock : bool;
  c_events : list event;
  c_rows : list dict;                              (* implementation: callback.results *)
  c_history : list (list Z * list (Z * dict));     (* TuningStatus.update calls *)
  c_tol : Q;
  c_overall : istats;
  c_trials : list (Z * istats);
  c_backend : list (Z * list (nat * value));
  c_bq : list bquery;
  c_tq : list tquery;
  c_table : list dict;                             (* rows of the table read back from disk *)
  c_eq : list equery;
  c_sq : list squery;
  c_disk : option (list key * list nat);           (* columns of the file read back, tokens written as empty *)
  c_split : option nat;                            (* Some n: run interrupted after n deliveries and resumed *)
  (* whole run for the Tuner.run model: old table, scheduler answers, steps of the loop, does stop_all raise,
     did the real run() raise, observed order of the final store (0) and stop_all (1) *)
  c_run : option (option (list dict) * list answer * list step * bool * bool * list nat);
  (* ONE tuner object run several times: per leg the scheduler answers and the steps of the loop *)
  c_legs : option (list (list answer * list step))
}.

Definition ev_same (a b : event) : bool :=
  Z.eqb (ev_trial a) (ev_trial b) && dict_equiv (ev_result a) (ev_result b) &&
  Nat.eqb (ev_decision a) (ev_decision b) && Nat.eqb (ev_status a) (ev_status b) &&
  cfg_equiv (ev_config a) (ev_config b).
Definition upd_same (a b : list Z * list (Z * dict)) : bool :=
  list_eqb Z.eqb (fst a) (fst b) &&
  list_eqb (fun x y => Z.eqb (fst x) (fst y) && dict_equiv (snd x) (snd y)) (snd a) (snd b).
Definition end_order (tr : list fin_step) : list nat :=
  flat_map (fun f => match f with FCallbacksEnd => [0%nat] | FStopAll => [1%nat] | _ => [] end) tr.
Definition chk_legs (c : case) : bool :=
  match c_legs c with
  | None => true
  | Some ls =>
      let legs := map (fun l => {| lg_answers := fst l; lg_steps := snd l; lg_fails := fun _ => false |}) ls in
      let st := tuner_legs (tuner_new (c_wallclock c) None) legs in
      list_eqb ev_same (legs_delivered legs) (c_events c) &&
      list_eqb upd_same (legs_history legs) (c_history c) &&
      Nat.eqb (length (cb_results (rs_cb st))) (length (c_rows c)) &&
      stats_match (c_tol c) (ts_overall (rs_ts st)) (c_overall c) &&
      trials_match (c_tol c) (ts_trials (rs_ts st)) (c_trials c)
  end.
Definition chk_run (c : case) : bool :=
  match c_run c with
  | None => true
  | Some (old, answers, steps, stop_fails, impl_raised, impl_order) =>
      let fails := fun f => match f with FStopAll => stop_fails | _ => false end in
      let '(st, raised, tr) := tuner_run (c_wallclock c) old answers steps fails in
      list_eqb ev_same (run_delivered answers steps) (c_events c) &&
      list_eqb upd_same (run_history answers steps) (c_history c) &&
      Nat.eqb (length (cb_results (rs_cb st))) (length (c_rows c)) &&
      match cb_disk (rs_cb st), c_disk c with
      | Some d, Some _ => Nat.eqb (length d) (length (c_table c))
      | Some d, None => Nat.eqb (length d) 0        (* an empty file cannot be read back *)
      | None, _ => false
      end &&
      Bool.eqb raised impl_raised && list_eqb Nat.eqb (end_order tr) impl_order &&
      stats_match (c_tol c) (ts_overall (rs_ts st)) (c_overall c) &&
      trials_match (c_tol c) (ts_trials (rs_ts st)) (c_trials c)
  end.

(* model of to_csv / read_csv with the text level replaced by the identity: which cells hold a value, and the
   columns in order, must be what was read back from disk (values are compared by the Python checker, with
   float-text tolerance) *)
Definition na_value (nas : list nat) (v : value) : bool :=
  match v with VNum NaN => true | VTok t => mem_nat t nas | _ => false end.
Definition same_keys (a b : dict) : bool :=
  Nat.eqb (length a) (length b) &&
  forallb (fun kv => match dget (fst kv) b with Some _ => true | None => false end) a.
Definition chk_csv (c : case) : bool :=
  match c_disk c with
  | None => true
  | Some (cols, nas) =>
      let file := csv_write (fun v => v) (na_value nas) (c_rows c) in
      list_eqb key_eqb (fst file) cols &&
      list_eqb same_keys (csv_read (fun v => Some v) file) (c_table c)
  end.

Definition chk_rows (c : case) : bool :=
  match (match c_split c with
         | None => cb_run (c_wallclock c) (c_events c)
         | Some n => (* interrupted after n deliveries, resumed (Tuner.load + run) *)
             cb_run_phases (c_wallclock c) [firstn n (c_events c); skipn n (c_events c)]
         end) with
  | None => false
  | Some s =>
      list_eqb dict_equiv (cb_results s) (c_rows c) &&
      match cb_disk s with Some d => list_eqb dict_equiv d (c_rows c) | None => false end
  end.
Definition chk_stats (c : case) : bool :=
  let ts := ts_run (c_history c) in
  stats_match (c_tol c) (ts_overall ts) (c_overall c) && trials_match (c_tol c) (ts_trials ts) (c_trials c).
Definition chk_best (c : case) : bool :=
  let ts := ts_run (c_history c) in
  forallb (chk_bquery ts) (c_bq c) && forallb (chk_tquery ts (c_backend c)) (c_tq c).
Definition chk_summary (c : case) : bool := forallb (chk_squery (ts_run (c_history c))) (c_sq c).
Definition chk_exp (c : case) : bool := forallb (chk_equery (c_table c)) (c_eq c).

(* 0 = all fine; otherwise bit mask of failing parts: 1 rows, 2 statistics, 4 best (tuner), 8 best (experiment),
   16 final summary, 32 csv columns / cells with a value, 64 Tuner.run model *)
Definition chk_mask (c : case) : Z :=
  ((if chk_rows c then 0 else 1) + (if chk_stats c then 0 else 2) +
   (if chk_best c then 0 else 4) + (if chk_exp c then 0 else 8) + (if chk_summary c then 0 else 16) +
   (if chk_csv c then 0 else 32) + (if chk_run c then 0 else 64) + (if chk_legs c then 0 else 128))%Z.
Definition chk_case (c : case) : bool := Z.eqb (chk_mask c) 0.
"""

RESERVED = {"st_decision": "KDecision", "st_status": "KStatus", "trial_id": "KTrialId", "st_tuner_time": "KTunerTime"}


# --------------------------------------------------------------------------
# Python values -> Coq terms
# --------------------------------------------------------------------------
class Tables:
    """Injective maps strings -> small naturals (column names, opaque tokens)."""

    def __init__(self):
        self.names, self.toks = {}, {}

    def name(self, s):
        return self.names.setdefault(s, len(self.names))

    def tok(self, v):
        return self.toks.setdefault(repr(v), len(self.toks))


NUM_TYPES = {"float": float, "int": int, "float64": np.float64, "float32": np.float32, "int64": np.int64,
             "int32": np.int32}
INT_TYPES = ("int", "int64", "int32")


def cast_value(v, dt):
    """hand a generated number over as the given Python / numpy scalar type (exact value: float(np.float32(x)))"""
    if dt is None or isinstance(v, bool) or not isinstance(v, (int, float)):
        return v
    if dt in INT_TYPES:
        if isinstance(v, float) and not (math.isfinite(v) and v.is_integer()):
            return v
        return NUM_TYPES[dt](int(v))
    return NUM_TYPES[dt](v)


def cast_result(res, dtypes):
    return {k: cast_value(v, (dtypes or {}).get(k)) for k, v in res.items()}


def gen_dtypes(rng, names):
    return {n: rng.choice([None, None, "float", "int", "float64", "float32", "int64", "int32"])
            for n in list(names) + ["aux"]}


def is_f32(v):
    return isinstance(v, np.floating) and v.dtype == np.float32


def plain(x):
    return x.item() if isinstance(x, np.generic) else x


def num_term(x):
    x = plain(x)
    if isinstance(x, float):
        if math.isnan(x):
            return "NaN"
        if math.isinf(x):
            return "PInf" if x > 0 else "NInf"
    return "(Fin %s)" % q(x)


def val_term(tb, v):
    v = plain(v)
    if isinstance(v, numbers.Number):
        return "(VNum %s)" % num_term(v)
    return "(VTok %s)" % natlit(tb.tok(v))


def key_term(tb, s):
    if s in RESERVED:
        return RESERVED[s]
    if s.startswith("config_"):
        return "(KConfig %s)" % natlit(tb.name(s[len("config_"):]))
    if s.startswith("st_"):
        return "(KSt %s)" % natlit(tb.name(s))
    return "(KUser %s)" % natlit(tb.name(s))


def dict_term(tb, d):
    return lst(["(%s, %s)" % (key_term(tb, k), val_term(tb, v)) for k, v in d.items()])


def cfg_term(tb, cfg):
    return lst(["(%s, %s)" % (natlit(tb.name(k)), val_term(tb, v)) for k, v in cfg.items()])


def ndict_term(tb, d):
    return lst(["(%s, %s)" % (key_term(tb, k), num_term(v)) for k, v in d.items()])


def istats_term(tb, s):
    return "(%s, %s, %s, %s)" % (natlit(s["count"]), ndict_term(tb, s["min"]), ndict_term(tb, s["max"]),
                                 ndict_term(tb, s["sum"]))


def modes_term(mode):
    f = {"min": "Min", "max": "Max"}
    if isinstance(mode, list):
        return "(ModeList %s)" % lst([f[m] for m in mode])
    return "(OneMode %s)" % f[mode]


def mref_term(tb, m):
    return "(ByIndex %s)" % natlit(m) if isinstance(m, int) else "(ByName %s)" % key_term(tb, m)


def isnan(v):
    v = plain(v)
    return isinstance(v, float) and math.isnan(v)


def same_value(a, b):
    """exact equality of two in-memory values (NaN equals NaN)"""
    a, b = plain(a), plain(b)
    if isnan(a) or isnan(b):
        return isnan(a) and isnan(b)
    return type(a) == type(b) and a == b or (isinstance(a, numbers.Number) and isinstance(b, numbers.Number) and a == b)


def table_rows(df):
    """rows of a data frame as dicts without the NaN (= missing) cells"""
    rows = []
    cols = list(df.columns)
    for rec in df.itertuples(index=False, name=None):
        rows.append({c: plain(v) for c, v in zip(cols, rec) if not isnan(v) and v is not None and v is not pd.NA})
    return rows


# --------------------------------------------------------------------------
# independent checker of the property on implementation outputs
# --------------------------------------------------------------------------
def check_rows(deliveries, rows, wallclock, boundaries=()):
    """deliveries: list of dict(trial_id, status, result, decision, config) in delivery order; boundaries: row
    indices at which a resumed run starts (the tuner clock restarts there)"""
    if len(rows) != len(deliveries):
        return "table has %d rows for %d delivered results" % (len(rows), len(deliveries))
    last_stamp = None
    for i, (dv, row) in enumerate(zip(deliveries, rows)):
        if i in boundaries:
            last_stamp = None
        if not same_value(row.get("trial_id"), dv["trial_id"]):
            return "row %d: trial_id %r for a result of trial %r" % (i, row.get("trial_id"), dv["trial_id"])
        if row.get("st_decision") != dv["decision"]:
            return "row %d: decision %r, scheduler decided %r" % (i, row.get("st_decision"), dv["decision"])
        if row.get("st_status") != dv["status"]:
            return "row %d: status %r, was %r" % (i, row.get("st_status"), dv["status"])
        allowed = {"trial_id", "st_decision", "st_status", "st_tuner_time"}
        for k, v in dv["config"].items():
            allowed.add("config_" + k)
            if "config_" + k not in row or not same_value(row["config_" + k], v):
                return "row %d: config_%s = %r, trial configuration has %r" % (i, k, row.get("config_" + k), v)
        extra = dv.get("extra") or {}
        for k, v in extra.items():  # columns of the extra_results_composer, optional per row
            allowed.add(k)
            if k not in row or not same_value(row[k], v):
                return "row %d: extra column %s = %r, the composer returned %r" % (i, k, row.get(k), v)
        for k, v in dv["result"].items():
            if k in allowed:  # reserved column names overwrite a reported value of the same name
                continue
            if k not in row or not same_value(row[k], v):
                return "row %d: column %s = %r, result had %r" % (i, k, row.get(k), v)
        extra = [k for k in row if k not in allowed and k not in dv["result"]]
        if extra:
            return "row %d: columns %r come from nowhere" % (i, extra)
        if "st_tuner_time" in dv["result"]:
            if not same_value(row.get("st_tuner_time"), dv["result"]["st_tuner_time"]):
                return "row %d: existing time stamp replaced" % i
        elif wallclock:
            ts = row.get("st_tuner_time")
            if not isinstance(ts, float) or not ts >= 0:
                return "row %d: no tuner time stamp (%r)" % (i, ts)
            if last_stamp is not None and ts < last_stamp:
                return "row %d: tuner time stamp goes backwards" % i
            last_stamp = ts
    return None


def cells_agree(a, present, b):
    """a: in-memory value (if present), b: cell read back from CSV"""
    b = plain(b)
    if not present or a is None or isnan(a):
        return b is None or isnan(b) or b is pd.NA
    rtol = 1e-6 if is_f32(a) else 1e-12  # last digits of the text of a float32 / float64
    a = plain(a)
    if isinstance(a, numbers.Number):
        if isinstance(b, str):
            try:
                b = float(b)
            except ValueError:
                return False
        if not isinstance(b, numbers.Number):
            return False
        a, b = float(a), float(b)
        if math.isinf(a) or math.isinf(b):
            return a == b
        return abs(a - b) <= rtol * max(1.0, abs(a))
    return str(a) == b


def check_disk(rows, df):
    if df is None:
        return None if not rows else "no table on disk for %d rows" % len(rows)
    if len(df) != len(rows):
        return "table on disk has %d rows, in memory %d" % (len(df), len(rows))
    cols = set()
    for r in rows:
        cols.update(r.keys())
    if set(df.columns) != cols:
        return "columns on disk %r differ from in-memory columns %r" % (sorted(df.columns), sorted(cols))
    for c in df.columns:
        col = df[c].tolist()
        for i, r in enumerate(rows):
            if not cells_agree(r.get(c), c in r, col[i]):
                return "row %d column %s: in memory %r, read back %r" % (i, c, r.get(c), col[i])
    return None


def tracked(values, conv="first"):
    """Which values of a metric MetricsStatistics counts (per trial / overall), and whether numbers and
    non-numbers are mixed.
    conv="first" (the documented rule, /repo after the repair of F-C17-3): the type of the first value defines the
      metric: first value a number -> ALL numbers count (non-numbers in between are skipped); otherwise nothing.
    conv="latch" (behaviour before the repair, only used to classify a failure): the numbers before the first
      non-number."""
    vals = [plain(v) for v in values]
    isnum = [isinstance(v, numbers.Number) for v in vals]
    mixed = any(isnum) and not all(isnum)
    if conv == "latch":
        out = []
        for v, n in zip(vals, isnum):
            if not n:
                break
            out.append(v)
        return out, mixed
    if not vals or not isnum[0]:
        return [], mixed
    return [v for v, n in zip(vals, isnum) if n], mixed


def expected_stats(results, conv="first"):
    keys = []
    for r in results:
        for k in r:
            if k not in keys:
                keys.append(k)
    exp = dict(count=len(results), min={}, max={}, sum={}, mixed=set())
    for k in keys:
        vals, mixed = tracked([r[k] for r in results if k in r], conv)
        if mixed:
            exp["mixed"].add(k)
        if not vals:
            continue
        good = [float(v) for v in vals if not isnan(v)]
        exp["min"][k] = min(good) if good else INF
        exp["max"][k] = max(good) if good else -INF
        if any(isnan(v) for v in vals) or (INF in good and -INF in good):
            exp["sum"][k] = NAN
        else:
            exp["sum"][k] = math.fsum(good)
    return exp


def stats_obs(ms):
    return dict(count=int(ms.count), min=dict(ms.min_metrics), max=dict(ms.max_metrics), sum=dict(ms.sum_metrics))


def check_one_stats(who, results, obs, conv="first"):
    exp = expected_stats(results, conv)
    if obs["count"] != exp["count"]:
        return "%s: count %d for %d results handed to the loop" % (who, obs["count"], exp["count"])
    for name in ("min", "max", "sum"):
        if set(obs[name].keys()) != set(exp[name].keys()):
            return "%s: %s tracked for %r, numeric metrics are %r" % (who, name, sorted(obs[name]), sorted(exp[name]))
        for k, e in exp[name].items():
            o = float(plain(obs[name][k]))
            if isnan(e) or isnan(o):
                ok = isnan(e) and isnan(o)
            elif math.isinf(e) or math.isinf(o):
                ok = e == o
            elif name == "sum":
                rtol = 1e-5 if any(is_f32(r.get(k)) for r in results) else 1e-9  # np.float32 sums stay float32
                ok = abs(o - e) <= rtol * (1.0 + sum(abs(float(r[k])) for r in results
                                                     if k in r and isinstance(plain(r[k]), numbers.Number)
                                                     and not isnan(r[k]) and not math.isinf(float(r[k]))))
            else:
                ok = o == e
            if not ok:
                return "%s: %s of %s is %r, values handed give %r" % (who, name, k, o, e)
    return None


def check_stats(handed, overall, per_trial, conv="first"):
    """handed: list of (trial_id, result) in the order handed to the loop"""
    why = check_one_stats("overall", [r for _, r in handed], overall, conv)
    if why:
        return why
    tids = []
    for t, _ in handed:
        if t not in tids:
            tids.append(t)
    for t in tids:
        if t not in per_trial:
            return "no statistics for trial %r" % t
        why = check_one_stats("trial %r" % t, [r for tt, r in handed if tt == t], per_trial[t], conv)
        if why:
            return why
    for t, s in per_trial.items():
        if t not in tids and (s["count"] != 0 or s["min"] or s["max"] or s["sum"]):
            return "trial %r has statistics but no result" % t
    return None


def trial_values(handed, metric, conv="first"):
    """per trial: the values of the metric that count (numbers, not NaN, tracked convention)"""
    per = {}
    for t, r in handed:
        per.setdefault(t, [])
        if metric in r:
            per[t].append(r[metric])
    return {t: [float(v) for v in tracked(vs, conv)[0] if not isnan(v)] for t, vs in per.items()}


def check_best_tuner(handed, metric, mode, best, conv="first", known_trials=None):
    """best = (trial_id, value) as returned by print_best_metric_found / trial of Tuner.best_config"""
    per = trial_values(handed, metric, conv)
    allv = [v for vs in per.values() for v in vs]
    if not handed:
        return None if best is None else "a best trial is reported although no result was handed to the loop"
    if best is None:
        return "no best trial reported although results were handed to the loop"
    t, v = best
    if not allv:
        # no counted value anywhere: the documented answer is a trial that was seen, with the default +-inf
        if t not in per and not any(t == tt for tt, _ in handed) and t not in (known_trials or ()):
            return "reported trial %r is unknown" % (t,)
        dflt = INF if mode == "min" else -INF
        if v is not None and float(v) != dflt:
            return "no counted value of %s exists, reported value %r is not the default %r" % (metric, v, dflt)
        return None
    opt = min(allv) if mode == "min" else max(allv)
    if v is not None and float(v) != opt:
        return "reported best %s of %s is %r, optimum over handed results is %r" % (mode, metric, v, opt)
    if opt == (INF if mode == "min" else -INF):
        return None  # every value is the worst infinity = the default of a trial without values: nothing to attain
    if opt not in per.get(t, []):
        return "reported trial %r never attained the optimum %r of %s (%s)" % (t, opt, metric, mode)
    return None


def check_best_exp(rows, metric, mode, cfg):
    """rows: table rows (dicts without missing cells); cfg: dict returned by best_config or None (exception)"""
    col = [r.get(metric) for r in rows]
    if any(v is not None and not isinstance(plain(v), numbers.Number) for v in col):
        return None  # non-numeric column: outside the model (pandas object dtype)
    good = [float(v) for v in col if v is not None and not isnan(v)]
    if not good:
        return None if cfg is None else "best_config returned a row although the column has no value"
    if cfg is None:
        return "best_config failed although the column has values"
    opt = min(good) if mode == "min" else max(good)
    v = cfg.get(metric)
    if v is None or isnan(v):
        v = INF if mode == "min" else -INF  # pandas fills cells without a value with the worst infinity
    if float(v) != opt:
        return "loaded experiment reports %s = %r, optimum over the rows is %r (%s)" % (metric, v, opt, mode)
    for r in rows:
        stripped = {k: x for k, x in r.items() if not k.startswith("st_")}
        if set(stripped) == set(cfg) and all(same_value(stripped[k], cfg[k]) for k in cfg):
            return None
    return "the reported row is not a row of the table"


def mode_of(names, mode, metric):
    i = metric if isinstance(metric, int) else names.index(metric)
    return names[i], (mode[i] if isinstance(mode, list) else mode)


# --------------------------------------------------------------------------
# observing the real classes
# --------------------------------------------------------------------------
def make_recording_callback():
    from syne_tune.results_callback import StoreResultsCallback

    class RecordingStore(StoreResultsCallback):
        """real StoreResultsCallback; records when store_results is called (public method)"""

        def __init__(self, **kw):
            super().__init__(**kw)
            self.store_sizes = []

        def store_results(self):
            self.store_sizes.append(len(self.results))
            if getattr(self, "order", None) is not None:
                self.order.append("store")
            super().store_results()

    return RecordingStore


def make_composer(script):
    """a real ExtraResultsComposer subclass returning scripted extra columns (or None) per call; records what it
    returned"""
    from syne_tune.results_callback import ExtraResultsComposer

    class ScriptedComposer(ExtraResultsComposer):
        def __init__(self, script):
            self.script, self.returned = [None if x is None else dict(x) for x in script], []

        def __call__(self, tuner):
            x = self.script[len(self.returned) % len(self.script)]
            self.returned.append(None if x is None else dict(x))
            return None if x is None else dict(x)

        def keys(self):
            return sorted({k for x in self.script if x for k in x})

    return ScriptedComposer(script)


def gen_composer(rng):
    if rng.random() < 0.65:
        return None
    return [rng.choice([None, None, {"extra_a": rng.randint(0, 9) / 2.0}, {"extra_a": 1.5, "extra_tag": "x"},
                        {"extra_b": rng.choice([1, 2, 3])}, {}]) for _ in range(rng.randint(1, 5))]


@contextlib.contextmanager
def quiet():
    logging.disable(logging.CRITICAL)
    sink = io.StringIO()
    try:
        with contextlib.redirect_stdout(sink):
            yield sink
    finally:
        logging.disable(logging.NOTSET)


def parse_summary(text):
    """the line `<metric>: best <value> for trial-id <id>` printed by print_best_metric_found"""
    import re
    found = re.findall(r"^(.+): best (\S+) for trial-id (\d+)$", text, flags=re.M)
    if not found:
        return None
    _, v, t = found[-1]
    return int(t), float(v)


def read_table(path):
    try:
        return pd.read_csv(path)
    except pd.errors.EmptyDataError:
        return pd.DataFrame()
    except FileNotFoundError:
        return None


def queries_for(names):
    qs = list(range(len(names)))
    qs.append(names[-1])
    return qs


def raised(e):
    """marker for 'the call raised' (the model side sees it as 'no answer')"""
    return dict(raised=type(e).__name__, message=str(e)[:200])


def is_raised(b):
    return isinstance(b, dict) and "raised" in b


def answer(b):
    """what goes into the Coq term: an exception counts as no answer"""
    return None if is_raised(b) else b


def call_print_best(ts, name, md):
    from syne_tune.tuning_status import print_best_metric_found
    try:
        b = print_best_metric_found(ts, [name], md)
    except Exception as e:  # noqa: BLE001
        return raised(e)
    return None if b is None else (int(b[0]), plain(b[1]))


def call_best_config(fn, m):
    """Tuner.best_config: TypeError (cannot unpack None) is the documented outcome when no result was seen"""
    try:
        t, cfg = fn(m)
        return int(t), dict(cfg)
    except TypeError:
        return None
    except Exception as e:  # noqa: BLE001
        return raised(e)


def observe_best(ts, names, mode, backend_cfgs):
    """print_best_metric_found and Tuner.best_config (called on a stand-in with the attributes it reads)
    for every metric"""
    from syne_tune.tuning_status import print_best_metric_found
    from syne_tune import Tuner
    bq, tq = [], []
    stand_in = SimpleNamespace(
        scheduler=SimpleNamespace(metric_names=lambda: list(names), metric_mode=lambda: copy.copy(mode)),
        tuning_status=ts,
        trial_backend=SimpleNamespace(_trial_dict={t: SimpleNamespace(config=c) for t, c in backend_cfgs.items()}))
    for m in queries_for(names):
        name, md = mode_of(names, mode, m)
        with quiet():
            bq.append((m, call_print_best(ts, name, md)))
            tq.append((m, call_best_config(lambda mm: Tuner.best_config(stand_in, mm), m)))
    return bq, tq


_EXPERIMENTS = {}


def experiments_module(ctx):
    """syne_tune.experiments (load_experiment, ExperimentResult), or None when it cannot be imported: then the
    table cannot be read back at all, which is reported as a violation of the property"""
    if "mod" not in _EXPERIMENTS:
        try:
            with quiet():
                from syne_tune.experiments import load_experiment
                from syne_tune.experiments.experiment_result import ExperimentResult
            _EXPERIMENTS["mod"] = SimpleNamespace(load_experiment=load_experiment, ExperimentResult=ExperimentResult)
        except Exception as e:  # noqa: BLE001
            _EXPERIMENTS["mod"] = None
            ctx.violation("property", "disk: reading the table back is impossible, `from syne_tune.experiments import "
                          "load_experiment` fails: %s: %s" % (type(e).__name__, e), case=dict(kind="import"),
                          signature=dict(component="syne_tune.experiments", defect="import_fails"))
    return _EXPERIMENTS["mod"]


def observe_exp(ctx, df, names, mode, path):
    mod = experiments_module(ctx)
    if mod is None:
        return []
    ExperimentResult = mod.ExperimentResult
    er = ExperimentResult(name="c17", results=df, metadata=dict(metric_names=list(names), metric_mode=copy.copy(mode)),
                          tuner=None, path=Path(path))
    return exp_queries(er, names)


def exp_queries(er, names):
    out = []
    for m in queries_for(names):
        with quiet():
            try:
                cfg = {k: plain(v) for k, v in er.best_config(m).items()}
                cfg = {k: v for k, v in cfg.items() if not isnan(v) and v is not None and v is not pd.NA}
            except (ValueError, TypeError, KeyError, AssertionError, IndexError):
                cfg = None
        out.append((m, cfg))
    return out


def run_model_term(tb, rm, leg_only=False):
    def item(t, res, status, cfg):
        return ("{| hi_trial := %s; hi_result := %s; hi_status := %s; hi_config := %s; hi_clock := 0; "
                "hi_fire := false; hi_extra := None |}" % (zlit(t), dict_term(tb, res), natlit(tb.tok(status)), cfg_term(tb, cfg)))
    steps = []
    for st in rm["steps"]:
        if st[0] == "batch":
            _, status, results = st
            steps.append("Batch %s %s" % (lst([zlit(t) for t in status]),
                                          lst([item(t, r, status[t][0], status[t][1]) for t, r in results])))
        elif st[0] == "started":
            steps.append("Started %s" % zlit(st[1]))
        else:
            steps.append("Fault")
    n = len(rm["decisions"])
    answers = lst(["{| an_decision := %s; an_stops := %s; an_exec_fails := %s |}" % (
        natlit(tb.tok(d)), blit(d in ("STOP", "PAUSE")), blit(rm.get("exec_fault", False) and i == n - 1))
        for i, d in enumerate(rm["decisions"])])
    if leg_only:
        return "(%s, %s)" % (answers, lst(steps))
    return "(%s, %s, %s, %s, %s, %s)" % (
        optlit(rm["old"], lambda rows: lst([dict_term(tb, r) for r in rows])), answers, lst(steps),
        blit(rm["stop_fails"]), blit(rm["raised"]), lst([natlit(x) for x in rm["end_order"]]))


def build_case(tb, wallclock, events, rows, history, overall, per_trial, backend_cfgs, names, mode, bq, tq, table, eqs,
               summaries=(), disk_cols=None, split=None, run_model=None, legs_model=None):
    names_t = lst([key_term(tb, n) for n in names])
    ms = modes_term(mode)
    ev_terms = []
    for e in events:
        ev_terms.append("{| ev_trial := %s; ev_status := %s; ev_result := %s; ev_decision := %s; ev_config := %s; "
                        "ev_clock := %s; ev_fire := %s; ev_extra := %s |}" % (
                            zlit(e["trial_id"]), natlit(tb.tok(e["status"])), dict_term(tb, e["result"]),
                            natlit(tb.tok(e["decision"])), cfg_term(tb, e["config"]), q(e["clock"]), blit(e["fire"]),
                            optlit(e.get("extra"), lambda x: dict_term(tb, x))))
    hist = lst(["(%s, %s)" % (lst([zlit(t) for t in ids]),
                              lst(["(%s, %s)" % (zlit(t), dict_term(tb, r)) for t, r in res]))
                for ids, res in history])
    # tolerance for float sums: 1e-9 relative to the total magnitude fed
    mag = 1.0
    rtol = 1e-9
    for _, res in history:
        for _, r in res:
            for v in r.values():
                if is_f32(v):
                    rtol = 1e-5  # sums of np.float32 values are accumulated in float32
                v = plain(v)
                if isinstance(v, numbers.Number) and not isnan(v) and not math.isinf(float(v)):
                    mag += abs(float(v))
    bq = [(m, answer(b)) for m, b in bq]
    tq = [(m, answer(b)) for m, b in tq]
    summaries = [answer(b) for b in summaries]
    bq_t = lst(["(%s, %s, %s, %s)" % (names_t, ms, mref_term(tb, m),
                                      optlit(b, lambda b: "(%s, %s)" % (zlit(b[0]), num_term(b[1])))) for m, b in bq])
    tq_t = lst(["(%s, %s, %s, %s)" % (names_t, ms, mref_term(tb, m),
                                      optlit(b, lambda b: "(%s, %s)" % (zlit(b[0]), cfg_term(tb, b[1])))) for m, b in tq])
    eq_t = lst(["(%s, %s, %s, %s)" % (names_t, ms, mref_term(tb, m), optlit(c, lambda c: dict_term(tb, c)))
                for m, c in eqs])
    sq_t = lst(["(%s, %s, %s)" % (names_t, ms, optlit(b, lambda b: "(%s, %s)" % (zlit(b[0]), num_term(b[1]))))
                for b in summaries])
    return ("{| c_wallclock := %s;\n c_events := %s;\n c_rows := %s;\n c_history := %s;\n c_tol := %s;\n"
            " c_overall := %s;\n c_trials := %s;\n c_backend := %s;\n c_bq := %s;\n c_tq := %s;\n c_table := %s;\n"
            " c_eq := %s;\n c_sq := %s;\n c_disk := %s;\n c_split := %s;\n c_run := %s;\n c_legs := %s |}" % (
                blit(wallclock), lst(ev_terms), lst([dict_term(tb, r) for r in rows]), hist, q(rtol * mag),
                istats_term(tb, overall),
                lst(["(%s, %s)" % (zlit(t), istats_term(tb, s)) for t, s in per_trial.items()]),
                lst(["(%s, %s)" % (zlit(t), cfg_term(tb, c)) for t, c in backend_cfgs.items()]),
                bq_t, tq_t, lst([dict_term(tb, r) for r in table]), eq_t, sq_t,
                optlit(disk_cols, lambda cols: "(%s, %s)" % (lst([key_term(tb, c) for c in cols]),
                                                            lst([natlit(tb.tok(None))]))),
                optlit(split, natlit), optlit(run_model, lambda rm: run_model_term(tb, rm)),
                optlit(legs_model, lambda legs: lst([run_model_term(tb, rm, leg_only=True) for rm in legs]))))


SKIP_DISK = object()


def property_checks(ctx, case, kind, deliveries, rows, wallclock, df, handed, overall, per_trial, names, mode, bq, tq,
                    table, eqs, sched=None, summaries=(), run_error=None, boundaries=()):
    """independent checker; every failure is a `property` violation with a structural signature"""
    def bad(part, why, **sig):
        s = dict(part=part, kind=kind)
        if sched:
            s["scheduler"] = sched
        s.update(sig)
        ctx.violation("property", "%s: %s" % (part, why), case=case, signature=s)

    def cbt(*a, **k):
        return check_best_tuner(*a, known_trials=list(per_trial), **k)

    why = check_rows(deliveries, rows, wallclock, boundaries)
    if why:
        bad("rows", why, **(dict(resumed=True) if boundaries else {}))
    why = None if df is SKIP_DISK else check_disk(rows, df)
    if why:
        bad("disk", why)
    LATCH = "numeric_values_after_non_numeric_ignored"  # F-C17-3: what the code did before its repair

    def bad_or_latch(part, why, ok_under_latch, **sig):
        """a failure that disappears when only the numbers before the first non-number are counted is the old
        latch behaviour of MetricsStatistics.add: reported under the signature of F-C17-3"""
        if ok_under_latch:
            bad("statistics", "%s [numbers reported after a non-numeric value of the metric are ignored]: %s"
                % (part, why), defect=LATCH)
        else:
            bad(part, why, **sig)

    why = check_stats(handed, overall, per_trial)
    if why:
        bad_or_latch("statistics", why, check_stats(handed, overall, per_trial, "latch") is None)
    if run_error is not None:
        bad("run", "Tuner.run() raised %s: %s (after %d delivered results; every run must end normally and store "
            "its results)" % (run_error["raised"], run_error["message"], len(deliveries)),
            defect="run_raised", exception=run_error["raised"])
    for m, b in bq:
        name, md = mode_of(names, mode, m)
        if is_raised(b):
            bad("best_tuner", "print_best_metric_found raised %s: %s (%d results handed to the loop; trials without a "
                "value of %s count with the default +-inf)" % (b["raised"], b["message"], len(handed), name),
                defect="raised", exception=b["raised"], mode=md)
            continue
        why = cbt(handed, name, md, b)
        if why:
            bad_or_latch("best_tuner", why, cbt(handed, name, md, b, "latch") is None, mode=md)
    for m, b in tq:
        name, md = mode_of(names, mode, m)
        if is_raised(b):
            bad("best_config", "Tuner.best_config raised %s: %s (%d results handed to the loop; it may fail only when "
                "no result was seen)" % (b["raised"], b["message"], len(handed)),
                defect="raised", exception=b["raised"], mode=md)
            continue
        bb = None if b is None else (b[0], None)
        why = cbt(handed, name, md, bb)
        if why:
            bad_or_latch("best_config", why, cbt(handed, name, md, bb, "latch") is None, mode=md)
    for m, c in eqs:
        name, md = mode_of(names, mode, m)
        why = check_best_exp(table, name, md, c)
        if why:
            bad("best_experiment", why, mode=md)
    for b in summaries:
        name, md = mode_of(names, mode, 0)
        if is_raised(b):
            bad("final_summary", "the summary call of Tuner.run() raised %s: %s (%d results handed to the loop)"
                % (b["raised"], b["message"], len(handed)), defect="raised", exception=b["raised"], mode=md)
            continue
        why = cbt(handed, name, md, b)
        if why and cbt(handed, name, md, b, "latch") is None:
            bad_or_latch("final_summary", why, True)
        elif why:
            extra = dict(defect="mode_list_read_as_max") if isinstance(mode, list) and md == "min" else {}
            bad("final_summary", "summary printed at the end of Tuner.run(): " + why, mode=md,
                mode_is_list=isinstance(mode, list), **extra)


# --------------------------------------------------------------------------
# seq cases
# --------------------------------------------------------------------------
STYLES = ["grid", "grid", "int", "float", "nan", "inf", "mixed", "str"]
HP_ALL = ["lr", "bs", "opt"]


def gen_value(rng, style):
    if style == "grid":
        return rng.randint(0, 4) / 4.0
    if style == "int":
        return rng.randint(-3, 3)
    if style == "float":
        return rng.uniform(-5, 5)
    if style == "nan":
        return rng.choice([NAN, NAN, rng.uniform(-1, 1), float(rng.randint(0, 3))])
    if style == "inf":
        return rng.choice([INF, -INF, NAN, rng.uniform(-1, 1), 1.0, 2.0])
    if style == "mixed":
        return rng.choice(["diverged", None, rng.uniform(-1, 1), float(rng.randint(0, 3)), NAN])
    return rng.choice(["a", "b", "diverged"])


def gen_cfg(rng, hps):
    full = {"lr": rng.choice([0.1, 0.01, rng.uniform(0, 1)]), "bs": rng.choice([16, 32, 64]),
            "opt": rng.choice(["adam", "sgd"])}
    return {k: full[k] for k in hps}


def gen_seq_spec(rng):
    k = rng.randint(1, 3)
    names = ["m%d" % i for i in range(k)]
    mode = rng.choice(["min", "max", [rng.choice(["min", "max"]) for _ in names]])
    styles = [rng.choice(STYLES) for _ in names]
    hps = HP_ALL[:rng.randint(1, 3)]
    n_trials = rng.randint(1, 6)
    state = {}
    cfgs = {}
    ops = []
    clock = 0.0
    iters = {}
    for _ in range(rng.randint(1, 9)):
        # start new trials / resume paused ones (each is one update call with no result, as in the tuner)
        for t in range(n_trials):
            if state.get(t) is None and rng.random() < 0.5:
                state[t] = "run"
                cfgs[t] = gen_cfg(rng, hps)
                ops.append(dict(status=[[t, "InProgress", dict(cfgs[t])]], results=[]))
            elif state.get(t) == "paused" and rng.random() < 0.6:
                state[t] = "run"
                if rng.random() < 0.7:
                    cfgs[t] = gen_cfg(rng, hps)  # resumed with a changed configuration
                ops.append(dict(status=[[t, "InProgress", dict(cfgs[t])]], results=[]))
        running = [t for t in state if state[t] == "run"]
        rng.shuffle(running)
        done = {}
        results = []
        for _ in range(rng.randint(0, 6) if running else 0):
            t = rng.choice(running)
            clock += rng.choice([0.25, 0.5, 1.0])
            iters[t] = iters.get(t, 0) + 1
            res = {"epoch": iters[t], "st_worker_timestamp": clock}
            for nm, sty in zip(names, styles):
                if rng.random() < 0.9:
                    res[nm] = gen_value(rng, sty)
            if rng.random() < 0.1:
                res["st_tuner_time"] = clock * 2  # stamp already set by the backend
            if rng.random() < 0.03:
                res["config_" + hps[0]] = 123.0  # a reported value with a reserved column name
            if t in done:
                decision = None  # the tuner does not deliver results that follow a STOP/PAUSE in the same batch
            else:
                decision = rng.choice(["CONTINUE"] * 5 + ["STOP", "PAUSE"])
                if decision != "CONTINUE":
                    done[t] = decision
            results.append([t, res, decision, rng.choice(["InProgress", "InProgress", "Completed"])])
        status = [[t, "InProgress", dict(cfgs[t])] for t in running]
        for t, d in done.items():
            state[t] = "paused" if d == "PAUSE" else "done"
        ops.append(dict(status=status, results=results))
    return dict(names=names, mode=mode, hps=hps, wallclock=rng.random() < 0.8, dtypes=gen_dtypes(rng, names),
                composer=gen_composer(rng),
                rui=rng.choice([-1, -1, 0, 0.5, 10.0]), ops=ops, styles=styles)


def run_seq(ctx, spec, workdir):
    from syne_tune.tuning_status import TuningStatus
    from syne_tune.backend.trial_status import Trial
    RecordingStore = make_recording_callback()
    names, mode = spec["names"], spec["mode"]
    comp = make_composer(spec["composer"]) if spec.get("composer") else None
    cb = RecordingStore(add_wallclock_time=spec["wallclock"], extra_results_composer=comp)
    cb.on_tuning_start(SimpleNamespace(tuner_path=Path(workdir), results_update_interval=spec["rui"]))
    ts = TuningStatus(metric_names=list(names))
    t0 = datetime.datetime(2024, 1, 1)
    deliveries, events, handed, history = [], [], [], []
    backend_cfgs = {}
    prefix_ok = True
    with quiet():
        ops = [dict(status=op["status"],
                    results=[[t, cast_result(res, spec.get("dtypes")), d, st] for t, res, d, st in op["results"]])
               for op in spec["ops"]]
        for op in ops:
            cfg_now = {t: c for t, _, c in op["status"]}
            backend_cfgs.update({t: dict(c) for t, c in cfg_now.items()})
            for t, res, decision, status in op["results"]:
                if decision is None:
                    continue
                n_before = len(cb.store_sizes)
                trial = Trial(trial_id=t, config=dict(cfg_now[t]), creation_time=t0)
                arg = dict(res)
                cb.on_trial_result(trial=trial, status=status, result=arg, decision=decision)
                if arg != res and not (len(arg) == len(res) and all(same_value(arg[k], res[k]) for k in res)):
                    prefix_ok = False  # the callback must not modify the scheduler's result dict
                row = cb.results[-1]
                fired = len(cb.store_sizes) > n_before
                deliveries.append(dict(trial_id=t, status=status, result=dict(res), decision=decision,
                                       config=dict(cfg_now[t]), extra=comp.returned[-1] if comp else None))
                clock = row.get("st_tuner_time", 0.0) if "st_tuner_time" not in res else 0.0
                if not isinstance(clock, float):
                    clock = 0.0
                events.append(dict(deliveries[-1], clock=clock if isinstance(clock, float) else 0.0, fire=fired))
            new_results = [(t, dict(res)) for t, res, _, _ in op["results"]]
            ts.update(trial_status_dict={t: (Trial(trial_id=t, config=dict(c), creation_time=t0), st)
                                         for t, st, c in op["status"]},
                      new_results=[(t, res) for t, res, _, _ in op["results"]])
            handed.extend(new_results)
            history.append(([t for t, _, _ in op["status"]], new_results))
        cb.on_tuning_end()
    rows = [dict(r) for r in cb.results]
    df = read_table(cb.csv_file)
    overall = stats_obs(ts.overall_metric_statistics)
    per_trial = {int(t): stats_obs(s) for t, s in ts.trial_metric_statistics.items()}
    bq, tq = observe_best(ts, names, mode, backend_cfgs)
    from syne_tune.tuning_status import print_best_metric_found
    with quiet() as out:  # exactly the call in the `finally` block of Tuner.run()
        try:
            print_best_metric_found(tuning_status=ts, metric_names=list(names), mode=copy.copy(mode))
            summaries = None
        except Exception as e:  # noqa: BLE001
            summaries = [raised(e)]
    if summaries is None:
        summaries = [parse_summary(out.getvalue())]
    table = table_rows(df) if df is not None else []
    eqs = observe_exp(ctx, df, names, mode, workdir) if df is not None and len(df.columns) else []
    return dict(deliveries=deliveries, events=events, handed=handed, history=history, rows=rows, df=df,
                overall=overall, per_trial=per_trial, backend_cfgs=backend_cfgs, bq=bq, tq=tq, table=table, eqs=eqs,
                stores=list(cb.store_sizes), arg_untouched=prefix_ok, summaries=summaries)


def seq_nontrivial(spec, obs):
    vals = [r.get(spec["names"][0]) for _, r in obs["handed"]]
    nums = [float(v) for v in vals if isinstance(plain(v), numbers.Number) and not isnan(v)]
    tie = len(set(nums)) < len(nums)
    odd = any(v is None or isinstance(v, str) or isnan(v) or (isinstance(v, float) and math.isinf(v))
              for _, r in obs["handed"] for v in r.values())
    return len(obs["deliveries"]) >= 2 and len(obs["per_trial"]) >= 2 and (tie or odd)


# --------------------------------------------------------------------------
# run cases: whole Tuner.run() with a harness-side in-memory backend
# --------------------------------------------------------------------------
def make_run_classes():
    from syne_tune.backend.trial_backend import TrialBackend
    from syne_tune.backend.trial_status import Status
    from syne_tune.optimizer.scheduler import TrialScheduler, TrialSuggestion, SchedulerDecision
    from syne_tune.tuner_callback import TunerCallback
    from syne_tune.tuning_status import TuningStatus

    class ScriptedBackend(TrialBackend):
        """In-memory workers. Trial i reports scripts[i] (list of metric dicts), a few reports per poll
        (chunks, cycled); it stops at its script's end or at config[limit_attr] epochs; then it is
        Completed, or Failed if outcomes[i] == 'fail'. Paused trials continue where they stopped."""

        def __init__(self, scripts, chunks, outcomes, limit_attr=None, faults=None):
            super().__init__()
            self.scripts, self.chunks, self.outcomes, self.limit_attr = scripts, chunks, outcomes, limit_attr
            self.faults = dict(faults or {})  # injected faults: stop_all raises; the poll_at-th poll raises
            self.calls = 0
            self.fired = []
            self.n_exec = {}
            self.poll = 0
            self.stamp = 0.0
            self.limit = {}

        def _schedule(self, trial_id, config):
            lim = len(self.scripts[trial_id % len(self.scripts)])
            if self.limit_attr is not None and self.limit_attr in config:
                lim = min(lim, int(config[self.limit_attr]))
            self.limit[trial_id] = lim

        def stop_all(self):
            if getattr(self, "order", None) is not None:
                self.order.append("stop_all")
            if self.faults.get("stop_all"):
                self.fired.append("stop_all")
                raise ConnectionError("injected fault: backend unreachable in stop_all")
            super().stop_all()

        def _all_trial_results(self, trial_ids):
            self.calls += 1
            if self.faults.get("poll_at") == self.calls:
                self.fired.append("poll")
                raise ConnectionError("injected fault: backend unreachable in poll %d" % self.calls)
            out = []
            for tid in trial_ids:
                tr = self._trial_dict[tid]
                if tr.status == Status.in_progress:
                    script = self.scripts[tid % len(self.scripts)]
                    k = self.chunks[self.poll % len(self.chunks)]
                    self.poll += 1
                    for _ in range(k):
                        if len(tr.metrics) >= self.limit[tid]:
                            break
                        self.stamp += 1.0
                        rep = dict(script[len(tr.metrics)])
                        rep["epoch"] = len(tr.metrics) + 1
                        rep["st_worker_timestamp"] = self.stamp
                        tr.metrics.append(rep)
                    fail_at = self.outcomes[tid % len(self.outcomes)]
                    if isinstance(fail_at, int) and len(tr.metrics) >= fail_at:
                        tr.status = Status.failed
                    elif len(tr.metrics) >= self.limit[tid] and len(tr.metrics) > 0:
                        tr.status = Status.completed
                out.append(tr)
            return out

        def _decision_fault(self, what, result):
            """injected fault while a STOP / PAUSE decision of the scheduler is carried out (result is not None
            then; stop_all stops trials without a result)"""
            if result is None:
                return
            self.n_exec[what] = self.n_exec.get(what, 0) + 1
            if self.faults.get(what + "_at") == self.n_exec[what]:
                self.fired.append("exec")
                raise ConnectionError("injected fault: backend unreachable in %s" % what)

        def _pause_trial(self, trial_id, result):
            self._decision_fault("pause_trial", result)

        def _resume_trial(self, trial_id):
            pass

        def _stop_trial(self, trial_id, result):
            self._decision_fault("stop_trial", result)
            self._trial_dict[trial_id].status = Status.stopped

        def busy_trial_ids(self):
            return [(t, tr.status) for t, tr in self._trial_dict.items() if tr.status == Status.in_progress]

        def stdout(self, trial_id):
            return []

        def stderr(self, trial_id):
            return []

        def copy_checkpoint(self, src_trial_id, tgt_trial_id):
            pass

        def delete_checkpoint(self, trial_id):
            pass

        def entrypoint_path(self):
            return Path("scripted_worker.py")

        def set_entrypoint(self, entry_point):
            pass

        def current_configs(self):
            return {int(t): dict(tr.config) for t, tr in self._trial_dict.items()}

    class ScriptedScheduler(TrialScheduler):
        """decisions and suggestions from a script: several metrics with their own modes, STOP/PAUSE decisions,
        paused trials resumed with a changed configuration"""

        def __init__(self, names, mode, configs, decisions, resume_configs):
            super().__init__(config_space={})
            self.names, self.mode = list(names), mode
            self.configs, self.decisions, self.resume_configs = list(configs), list(decisions), list(resume_configs)
            self.n_res = 0
            self.paused = []
            self.n_suggest = 0

        def suggest(self, trial_id):
            self.n_suggest += 1
            if self.paused and self.n_suggest % 2 == 0:
                t = self.paused.pop(0)
                cfg = self.resume_configs[t % len(self.resume_configs)]
                return TrialSuggestion.resume_suggestion(trial_id=t, config=None if cfg is None else dict(cfg))
            if trial_id < len(self.configs):
                return TrialSuggestion.start_suggestion(dict(self.configs[trial_id]))
            if self.paused:
                t = self.paused.pop(0)
                return TrialSuggestion.resume_suggestion(trial_id=t, config=None)
            return None

        def on_trial_result(self, trial, result):
            d = self.decisions[self.n_res % len(self.decisions)]
            self.n_res += 1
            if d == "PAUSE":
                self.paused.append(trial.trial_id)
            return {"CONTINUE": SchedulerDecision.CONTINUE, "STOP": SchedulerDecision.STOP,
                    "PAUSE": SchedulerDecision.PAUSE}[d]

        def metric_names(self):
            return list(self.names)

        def metric_mode(self):
            return copy.copy(self.mode)

    class RecordingScheduler(TrialScheduler):
        """delegates everything to the real scheduler; records what is delivered to it and its decisions"""

        def __init__(self, inner, suggest_fault_at=None, remove_fault_at=None):
            super().__init__(config_space=inner.config_space)
            self.inner = inner
            self.delivered = []
            self.suggest_fault_at, self.n_suggest_calls = suggest_fault_at, 0
            self.remove_fault_at, self.n_remove_calls, self.exec_fault_fired = remove_fault_at, 0, False

        def suggest(self, trial_id):
            self.n_suggest_calls += 1
            if self.suggest_fault_at == self.n_suggest_calls:
                self.fault_fired = True
                raise RuntimeError("injected fault: scheduler failed in suggest call %d" % self.n_suggest_calls)
            return self.inner.suggest(trial_id)

        def on_trial_add(self, trial):
            return self.inner.on_trial_add(trial)

        def on_trial_error(self, trial):
            return self.inner.on_trial_error(trial)

        def on_trial_result(self, trial, result):
            before = dict(result)
            decision = self.inner.on_trial_result(trial, result)
            self.delivered.append(dict(trial_id=int(trial.trial_id), result=before, decision=decision,
                                       config=dict(trial.config)))
            return decision

        def on_trial_complete(self, trial, result):
            return self.inner.on_trial_complete(trial, result)

        def on_trial_remove(self, trial):
            self.n_remove_calls += 1
            if self.remove_fault_at == self.n_remove_calls:
                self.exec_fault_fired = True
                raise RuntimeError("injected fault: scheduler failed in on_trial_remove call %d" % self.n_remove_calls)
            return self.inner.on_trial_remove(trial)

        def metric_names(self):
            return self.inner.metric_names()

        def metric_mode(self):
            return self.inner.metric_mode()

        def metadata(self):
            return self.inner.metadata()

        def is_multiobjective_scheduler(self):
            return self.inner.is_multiobjective_scheduler()

    class Recorder(TunerCallback):
        def __init__(self):
            self.handed, self.statuses, self.loops = [], [], 0
            self.log = []  # the loop as the Tuner.run model sees it: polls and trial starts, in order

        def on_fetch_status_results(self, trial_status_dict, new_results):
            self.handed.extend((int(t), dict(r)) for t, r in new_results)
            self.log.append(("batch", {int(t): (st, dict(tr.config)) for t, (tr, st) in trial_status_dict.items()},
                             [(int(t), dict(r)) for t, r in new_results]))

        def on_start_trial(self, trial):
            self.log.append(("started", int(trial.trial_id)))

        def on_resume_trial(self, trial):
            self.log.append(("started", int(trial.trial_id)))

        def on_trial_result(self, trial, status, result, decision):
            self.statuses.append(status)

        def on_loop_end(self):
            self.loops += 1

    class RecordingStatus(TuningStatus):
        def __init__(self, metric_names):
            super().__init__(metric_names)
            self.calls = []

        def update(self, trial_status_dict, new_results):
            self.calls.append(([int(t) for t in trial_status_dict.keys()], [(int(t), dict(r)) for t, r in new_results]))
            super().update(trial_status_dict, new_results)

    class StopAfter:
        """stop criterion that can be stored with the tuner: enough results handed to the loop, or too many calls"""

        def __init__(self, max_results, max_calls):
            self.max_results, self.max_calls, self.calls = max_results, max_calls, 0

        def __call__(self, status):
            self.calls += 1
            return status.overall_metric_statistics.count >= self.max_results or self.calls >= self.max_calls

    return SimpleNamespace(ScriptedBackend=ScriptedBackend, ScriptedScheduler=ScriptedScheduler,
                           RecordingScheduler=RecordingScheduler, Recorder=Recorder, RecordingStatus=RecordingStatus,
                           StopAfter=StopAfter)


def gen_run_spec(rng, idx):
    kind = rng.choice(["fifo", "fifo", "hb_stopping", "hb_promotion", "scripted", "scripted"])
    if kind == "scripted":
        k = rng.randint(1, 3)
    elif kind == "fifo":
        k = rng.randint(1, 2)
    else:
        k = 1
    names = ["m%d" % i for i in range(k)]
    if k == 1:
        mode = rng.choice(["min", "max"])
    else:
        mode = [rng.choice(["min", "max"]) for _ in names]
        if kind == "scripted" and rng.random() < 0.3:
            mode = rng.choice(["min", "max"])
    styles = [rng.choice(STYLES) for _ in names]
    if kind.startswith("hb"):
        styles[0] = rng.choice(["grid", "float", "int"])  # the rung rule needs comparable numbers
    elif kind == "fifo":  # FIFOScheduler formats its target metrics as floats: numbers only (NaN, inf allowed)
        styles = [rng.choice(["grid", "int", "float", "nan", "inf"]) for _ in names]
    never_numeric = kind == "scripted" and rng.random() < 0.35
    if never_numeric:  # the scheduler's first metric has no numeric value in any result, the others are numbers
        styles = ["str"] + [rng.choice(["grid", "int", "float", "nan"]) for _ in names[1:]]
    aux_style = rng.choice(["mixed", "str", "nan", "grid"])  # an extra reported value that is no target metric
    n_scripts = rng.randint(3, 7)
    scripts = []
    for _ in range(n_scripts):
        n_rep = rng.randint(1, 9 if kind.startswith("hb") else 5)
        reps = []
        for _ in range(n_rep):
            rep = {}
            for j, (nm, sty) in enumerate(zip(names, styles)):
                if kind != "scripted" or never_numeric or rng.random() < 0.9:
                    rep[nm] = gen_value(rng, sty) if not (never_numeric and sty == "str") else \
                        rng.choice(["diverged", "diverged", None, "a"])
            if rng.random() < 0.7:
                rep["aux"] = gen_value(rng, aux_style)
            reps.append(rep)
        scripts.append(reps)
    outcomes = [rng.choice(["ok"] * 5 + [0, 1, 2]) for _ in range(n_scripts)]
    spec = dict(kind=kind, name="c17-run-%d" % idx, names=names, mode=mode, styles=styles, scripts=scripts,
                chunks=[rng.randint(0, 3) for _ in range(rng.randint(1, 5))], outcomes=outcomes,
                n_workers=rng.randint(1, 3), seed=rng.randint(0, 10 ** 6), rui=rng.choice([-1, 0, 10.0]),
                max_results=rng.randint(3, 25), max_loops=rng.randint(10, 60))
    spec["dtypes"] = gen_dtypes(rng, names)
    spec["composer"] = gen_composer(rng)
    if rng.random() < 0.4:  # injected faults: the run ends with an exception, the table must be complete anyway
        spec["faults"] = rng.choice([dict(stop_all=True), dict(stop_all=True), dict(suggest_at=rng.randint(2, 6)),
                                     dict(poll_at=rng.randint(2, 8)),
                                     dict(stop_all=True, poll_at=rng.randint(2, 8)),
                                     # a STOP / PAUSE decision cannot be carried out
                                     dict(stop_trial_at=rng.randint(1, 2)), dict(pause_trial_at=1),
                                     dict(remove_at=rng.randint(1, 2)), dict(stop_trial_at=1, stop_all=True)])
    if kind == "fifo" and k > 1 and rng.random() < 0.5:
        one = rng.choice(["min", "max"])
        spec["mode"] = [one] * k
        spec["ctor_mode"] = rng.choice([one, [one]])
    if kind == "scripted":
        hps = HP_ALL[:rng.randint(1, 3)]
        spec["configs"] = [gen_cfg(rng, hps) for _ in range(rng.randint(1, 6))]
        spec["decisions"] = [rng.choice(["CONTINUE"] * 4 + ["STOP", "PAUSE", "PAUSE"]) for _ in range(rng.randint(1, 9))]
        spec["resume_configs"] = [rng.choice([None, gen_cfg(rng, hps)]) for _ in range(3)]
    return spec


def build_scheduler(spec):
    from syne_tune.config_space import uniform, randint, choice
    from syne_tune.optimizer.schedulers.fifo import FIFOScheduler
    from syne_tune.optimizer.schedulers.hyperband import HyperbandScheduler
    kind = spec["kind"]
    names, mode = spec["names"], spec["mode"]
    metric = names[0] if len(names) == 1 else list(names)
    if kind == "fifo":
        space = {"lr": uniform(0.0, 1.0), "bs": randint(1, 64), "opt": choice(["adam", "sgd"])}
        try:
            return FIFOScheduler(space, searcher="random", metric=metric, mode=spec.get("ctor_mode", mode),
                                 random_seed=spec["seed"]), None
        except AssertionError:
            # fifo.py `[mode * num_objectives]`: one mode for several metrics is rejected ("minmin"); not C17's
            # business (patches/fifo-mode-list.diff): fall back to the equivalent list
            return FIFOScheduler(space, searcher="random", metric=metric, mode=mode, random_seed=spec["seed"]), None
    if kind == "hb_stopping":
        space = {"lr": uniform(0.0, 1.0), "bs": randint(1, 64)}
        return HyperbandScheduler(space, type="stopping", searcher="random", metric=metric, mode=mode,
                                  resource_attr="epoch", max_t=9, grace_period=1, reduction_factor=3,
                                  random_seed=spec["seed"]), None
    if kind == "hb_promotion":
        space = {"lr": uniform(0.0, 1.0), "epochs": 9}
        return HyperbandScheduler(space, type="promotion", searcher="random", metric=metric, mode=mode,
                                  resource_attr="epoch", max_resource_attr="epochs", grace_period=1,
                                  reduction_factor=3, random_seed=spec["seed"]), "epochs"
    cls = make_run_classes()
    return cls.ScriptedScheduler(names, mode, spec["configs"], spec["decisions"], spec["resume_configs"]), None


def build_whole(spec, metadata=None):
    """scheduler, backend, callbacks and Tuner of one whole-run case (constructed, not run)"""
    from syne_tune import Tuner
    cls = make_run_classes()
    RecordingStore = make_recording_callback()
    with quiet():
        inner, limit_attr = build_scheduler(spec)
        sched = cls.RecordingScheduler(inner, (spec.get("faults") or {}).get("suggest_at"),
                                       (spec.get("faults") or {}).get("remove_at"))
        backend = cls.ScriptedBackend([[cast_result(r, spec.get("dtypes")) for r in sc] for sc in spec["scripts"]],
                                      spec["chunks"], spec["outcomes"], limit_attr, spec.get("faults"))
        comp = make_composer(spec["composer"]) if spec.get("composer") else None
        store, rec = RecordingStore(add_wallclock_time=True, extra_results_composer=comp), cls.Recorder()
        store.composer = comp
        store.order = backend.order = []

        def stop(status):
            return status.overall_metric_statistics.count >= spec["max_results"] or rec.loops >= spec["max_loops"]

        tuner = Tuner(trial_backend=backend, scheduler=sched, stop_criterion=stop, n_workers=spec["n_workers"],
                      sleep_time=0, results_update_interval=spec["rui"], print_update_interval=1e9, max_failures=1000,
                      tuner_name=spec["name"], suffix_tuner_name=False, save_tuner=False, callbacks=[store, rec],
                      metadata=metadata)
        tuner.tuning_status = cls.RecordingStatus(metric_names=list(spec["names"]))
    return dict(tuner=tuner, sched=sched, backend=backend, store=store, rec=rec)


def run_whole(ctx, spec, metadata=None, built=None):
    b = built if built is not None else build_whole(spec, metadata)
    with quiet() as out:
        run_error = None
        try:
            b["tuner"].run()
        except Exception as e:  # noqa: BLE001
            run_error = raised(e)
        summaries = [parse_summary(out.getvalue())] if run_error is None else []
        return collect_run(ctx, spec, b["tuner"], b["sched"], b["backend"], b["store"], b["rec"], summaries, run_error)


def collect_run(ctx, spec, tuner, sched, backend, store, rec, summaries, run_error, split=None):
    """everything observable after (the last phase of) a whole run; called inside quiet()"""
    mod = experiments_module(ctx)
    names, mode = spec["names"], spec["mode"]
    ts = tuner.tuning_status
    rows = [dict(r) for r in store.results]
    import itertools
    comp = getattr(store, "composer", None)
    extras = list(comp.returned) if comp is not None else []
    deliveries = [dict(d, status=st, extra=ex) for d, st, ex in
                  itertools.zip_longest(sched.delivered, rec.statuses, extras) if d is not None]
    n_delivered = (len(sched.delivered), len(rec.statuses))
    overall = stats_obs(ts.overall_metric_statistics)
    per_trial = {int(t): stats_obs(s) for t, s in ts.trial_metric_statistics.items()}
    backend_cfgs = backend.current_configs()
    bq, tq = [], []
    for m in queries_for(names):
        name, md = mode_of(names, mode, m)
        bq.append((m, call_print_best(ts, name, md)))
        tq.append((m, call_best_config(tuner.best_config, m)))
    df, eqs, meta_ok, df_again = None, [], True, None
    if mod is not None:
        er = mod.load_experiment(spec["name"], download_if_not_found=False)
        df = er.results
        meta_ok = er.metadata is not None and er.metadata.get("metric_names") == list(names) \
            and er.metadata.get("metric_mode") == mode
        if df is not None and len(df.columns):
            eqs = exp_queries(er, names)
            # a loaded table is the caller's to edit (load_experiments_df annotates it in place): loading the same,
            # unmodified experiment AGAIN in this process must give the stored table, not the edited object
            snapshot = df.copy(deep=True)
            try:
                df["c17_probe_column"] = 1.0
                if len(df) > 1:
                    df.drop(df.index[-1], inplace=True)
            except Exception:  # noqa: BLE001
                pass
            df_again = mod.load_experiment(spec["name"], download_if_not_found=False).results
            df = snapshot
    events = []
    stores = list(store.store_sizes)
    for i, (dv, row) in enumerate(zip(deliveries, rows)):
        clock = row.get("st_tuner_time", 0.0) if "st_tuner_time" not in dv["result"] else 0.0
        events.append(dict(dv, clock=clock if isinstance(clock, float) else 0.0, fire=(i + 1) in stores[:-1]))
    table = table_rows(df) if df is not None else []
    # the update calls: recorded by the status object the harness put into the tuner; if the tuner replaced that
    # object, reconstructed from the recorded loop (every poll and every trial start is one update call)
    if hasattr(ts, "calls"):
        history = list(ts.calls)
    else:
        history = [(list(st[1].keys()), list(st[2])) if st[0] == "batch" else ([st[1]], []) for st in rec.log]
    handed = list(rec.handed)
    if "exec" in getattr(backend, "fired", []) or getattr(sched, "exec_fault_fired", False):
        # the run died while a STOP / PAUSE was carried out, in the middle of a poll: the tuning status is only
        # updated at the end of a poll, so the results of that last poll are not part of the statistics
        last = [st for st in rec.log if st[0] == "batch"][-1]
        handed = handed[:len(handed) - len(last[2])]
    return dict(deliveries=deliveries, events=events, handed=handed, history=history, rows=rows, df=df,
                overall=overall, per_trial=per_trial, backend_cfgs=backend_cfgs, bq=bq, tq=tq, table=table, eqs=eqs,
                stores=stores, n_delivered=n_delivered, meta_ok=meta_ok, summaries=summaries, run_error=run_error,
                df_again=df_again, split=split, run_model=None if split is not None else tuner_run_inputs(sched, backend, store, rec, run_error),
                legs_model=legs_inputs(sched, rec, split, run_error))


def legs_inputs(sched, rec, split, run_error):
    """one tuner object run twice (or stored and loaded back in between): answers and steps per leg"""
    cut = getattr(rec, "leg_cut", None)
    if split is None or cut is None or run_error is not None:
        return None
    decisions = [d["decision"] for d in sched.delivered]
    return [dict(decisions=decisions[:split], steps=list(rec.log[:cut])),
            dict(decisions=decisions[split:], steps=list(rec.log[cut:]))]


def tuner_run_inputs(sched, backend, store, rec, run_error):
    """inputs and observations for the Tuner.run model (tuner_run in model/Results.v)"""
    order = list(getattr(store, "order", None) or [])
    last_store = max([i for i, x in enumerate(order) if x == "store"], default=None)
    end_order = [0 if x == "store" else 1 for i, x in enumerate(order) if x == "stop_all" or i == last_store]
    steps = list(rec.log)
    if "poll" in backend.fired or getattr(sched, "fault_fired", False):
        steps.append(("fault",))
    exec_fault = "exec" in backend.fired or getattr(sched, "exec_fault_fired", False)
    return dict(old=None, exec_fault=exec_fault, decisions=[d["decision"] for d in sched.delivered], steps=steps,
                stop_fails="stop_all" in backend.fired, raised=run_error is not None, end_order=end_order)


def run_resumed(ctx, spec):
    """A run that is interrupted and resumed: phase 1 with save_tuner=True (small budget); the tuner is loaded back
    from tuner.dill with Tuner.load - under the same results root, or after the experiment directory was copied to
    another root and SYNETUNE_FOLDER points there (another machine) - and run() again with a larger budget.
    The scheduler wrapper, the recorder and the status travel inside tuner.dill, so their logs cover both phases."""
    from syne_tune import Tuner
    cls = make_run_classes()
    RecordingStore = make_recording_callback()
    names = spec["names"]
    root = os.environ["SYNETUNE_FOLDER"]
    try:
        with quiet() as out:
            inner, limit_attr = build_scheduler(spec)
            sched = cls.RecordingScheduler(inner)
            backend = cls.ScriptedBackend([[cast_result(r, spec.get("dtypes")) for r in sc] for sc in spec["scripts"]],
                                         spec["chunks"], spec["outcomes"], limit_attr, spec.get("faults"))
            comp = make_composer(spec["composer"]) if spec.get("composer") else None
            store, rec = RecordingStore(add_wallclock_time=True, extra_results_composer=comp), cls.Recorder()
            store.composer = comp
            tuner = Tuner(trial_backend=backend, scheduler=sched,
                          stop_criterion=cls.StopAfter(spec["max_results"], spec["max_loops"]),
                          n_workers=spec["n_workers"], sleep_time=0, results_update_interval=spec["rui"],
                          print_update_interval=1e9, max_failures=1000, tuner_name=spec["name"],
                          suffix_tuner_name=False, save_tuner=True, callbacks=[store, rec])
            tuner.tuning_status = cls.RecordingStatus(metric_names=list(names))
            run_error = None
            try:
                tuner.run()
            except Exception as e:  # noqa: BLE001
                run_error = raised(e)
            split = len(sched.delivered)
            rec.leg_cut = len(rec.log)  # travels with the recorder (also through tuner.dill)
            path = str(tuner.tuner_path)
            if spec["resume"] == "same_object" and run_error is None:
                # the SAME Tuner object is continued: larger stop criterion, run() again
                try:
                    tuner.stop_criterion = cls.StopAfter(spec["max_results"] + spec["more_results"],
                                                         spec["max_loops"])
                    n_out = len(out.getvalue())
                    tuner.run()
                    summaries = [parse_summary(out.getvalue()[n_out:])]
                except Exception as e:  # noqa: BLE001
                    run_error, summaries = raised(e), []
                return collect_run(ctx, spec, tuner, sched, backend, store, rec, summaries, run_error, split=split)
            if spec["resume"] == "moved":  # the user copies the experiment directory to the other machine
                other = os.path.join(root, "other-root")
                os.makedirs(other, exist_ok=True)
                shutil.copytree(path, os.path.join(other, spec["name"]))
                shutil.rmtree(path)
                os.environ["SYNETUNE_FOLDER"] = other
                path = os.path.join(other, spec["name"])
            if run_error is None:
                try:
                    resumed = Tuner.load(path)
                    resumed.stop_criterion = cls.StopAfter(spec["max_results"] + spec["more_results"],
                                                           spec["max_loops"])
                    for c in resumed.callbacks:
                        if hasattr(c, "statuses"):
                            c.leg_cut = len(c.log)  # the recorder came back from tuner.dill with the log of leg 1
                    n_out = len(out.getvalue())
                    resumed.run()
                    summaries = [parse_summary(out.getvalue()[n_out:])]
                    tuner = resumed
                    sched, backend = resumed.scheduler, resumed.trial_backend
                    store = [c for c in resumed.callbacks if hasattr(c, "store_sizes")][0]
                    rec = [c for c in resumed.callbacks if hasattr(c, "statuses")][0]
                except Exception as e:  # noqa: BLE001
                    run_error, summaries = raised(e), []
            else:
                summaries = []
            obs = collect_run(ctx, spec, tuner, sched, backend, store, rec, summaries, run_error, split=split)
            if spec["resume"] == "moved":
                shutil.rmtree(os.path.join(root, "other-root"), ignore_errors=True)
            return obs
    finally:
        os.environ["SYNETUNE_FOLDER"] = root


def run_cases(ctx, replay, corpus_only=False):
    rng = ctx.rng
    if replay and replay.get("kind") == "run":
        if corpus_only:
            return
        specs = [replay["spec"]]
    elif replay:
        return
    elif corpus_only:  # formerly failing whole runs first, so that they are among the reported violations
        specs = corpus_specs("run")
    else:
        specs = [gen_run_spec(rng, i) for i in range(ctx.n(48, 800))]
        for i in range(ctx.n(24, 360)):  # runs that are interrupted and continued (same object, or Tuner.load)
            sp = gen_run_spec(rng, 10000 + i)
            sp.pop("faults", None)
            sp.update(resume=rng.choice(["same", "moved", "moved", "same_object", "same_object"]), more_results=rng.randint(2, 15),
                      max_results=rng.randint(2, 10), rui=rng.choice([0, 10.0, 10.0, -1]))
            specs.append(sp)
        for i in range(ctx.n(12, 160)):  # experiments sharing one metadata dict
            sp = gen_run_spec(rng, 30000 + i)
            sp.pop("faults", None)
            sp["shared_metadata"] = rng.choice([True, "constructed_first", "constructed_first"])
            if sp["shared_metadata"] == "constructed_first" and sp["kind"] != "hb_promotion" and rng.random() < 0.5:
                sp["rename_first"] = True  # the first experiment also has other metric names
            specs.append(sp)
        for i in range(ctx.n(12, 200)):  # the experiment is run AGAIN under the same fixed name (fresh objects)
            sp = gen_run_spec(rng, 20000 + i)
            sp.pop("faults", None)
            how = rng.choice(["stop_at_once", "stop_at_once", "never_report", "one", "several"])
            sp["rerun"] = {"stop_at_once": dict(max_results=0), "never_report": dict(chunks=[0], max_loops=4),
                           "one": dict(max_results=1),
                           "several": dict(max_results=rng.randint(2, 8))}[how]
            sp["rerun"]["seed"] = sp["seed"] + 1
            if rng.random() < 0.5:
                sp["first_flipped"] = True
                sp["first_renamed"] = rng.random() < 0.5
            sp["max_results"] = max(sp["max_results"], 4)
            specs.append(sp)
    terms, meta = [], []
    for i, spec in enumerate(specs):
        case = dict(kind="run", spec=spec)
        if spec.get("shared_metadata") == "constructed_first":
            # BOTH tuners are constructed with the same metadata dict before the first one runs (a list of
            # experiments built first, launched afterwards): each experiment's metadata.json and loaded
            # best_config must describe that experiment, and the caller's dict stays as it was (F-C17-5)
            md = {"benchmark": "c17"}
            md_before = dict(md)
            flip = {"min": "max", "max": "min"}
            m = spec["mode"]
            first_spec = dict(spec, name=spec["name"] + "-a", shared_metadata=None,
                              names=[n + "x" for n in spec["names"]] if spec.get("rename_first") else spec["names"],
                              mode=[flip[x] for x in m] if isinstance(m, list) else flip[m])
            if spec.get("rename_first"):
                first_spec["scripts"] = [[{(k + "x" if k in spec["names"] else k): v for k, v in r.items()}
                                          for r in sc] for sc in spec["scripts"]]
                first_spec["dtypes"] = {(k + "x" if k in spec["names"] else k): v
                                        for k, v in (spec.get("dtypes") or {}).items()}
                if first_spec["kind"] == "scripted":
                    pass
            first_spec.pop("ctor_mode", None)
            b1 = build_whole(first_spec, md)
            b2 = build_whole(dict(spec, shared_metadata=None), md)
            SHARED = dict(part="best_experiment", kind="run", scheduler=spec["kind"],
                          defect="metadata_dict_shared_between_tuners")
            if md != md_before:
                ctx.violation("property", "best_experiment: the metadata dict passed to Tuner was modified (keys %r "
                              "added): the next tuner given the same dict inherits this experiment's entries"
                              % sorted(set(md) - set(md_before)), case=case, signature=SHARED)
            first = run_whole(ctx, first_spec, built=b1)
            n_before = len(ctx.violations)
            first_case = dict(kind="run", spec=spec)
            if not first["meta_ok"]:
                ctx.violation("property", "best_experiment: metadata.json of the FIRST of two experiments constructed "
                              "with one metadata dict states the other experiment's metric names / modes",
                              case=first_case, signature=SHARED)
            for mm, c in first["eqs"]:
                name, mdm = mode_of(first_spec["names"], first_spec["mode"], mm)
                why = check_best_exp(first["table"], name, mdm, c)
                if why:
                    ctx.violation("property", "best_experiment (first of two experiments constructed with one "
                                  "metadata dict): " + why, case=first_case, signature=SHARED)
            shutil.rmtree(os.path.join(_TMP_ROOT, first_spec["name"]), ignore_errors=True)
            obs = run_whole(ctx, dict(spec, shared_metadata=None), built=b2)
            ctx.h("run_shared_metadata", "both constructed first%s" % (", other metric names" if spec.get("rename_first")
                                                                        else ""))
        elif spec.get("shared_metadata"):
            # a benchmark loop: ONE metadata dict is passed to consecutive experiments whose schedulers differ in
            # mode; what is loaded afterwards for the LAST experiment must describe the last experiment
            md = {"benchmark": "c17"}
            flip = {"min": "max", "max": "min"}
            m = spec["mode"]
            first_spec = dict(spec, name=spec["name"] + "-a", shared_metadata=None,
                              mode=[flip[x] for x in m] if isinstance(m, list) else flip[m])
            first_spec.pop("ctor_mode", None)
            first = run_whole(ctx, first_spec, metadata=md)
            shutil.rmtree(os.path.join(_TMP_ROOT, first_spec["name"]), ignore_errors=True)
            obs = run_whole(ctx, dict(spec, shared_metadata=None), metadata=md)
            ctx.h("run_shared_metadata", "second of two experiments, rows: %s" % ("some" if obs["rows"] else "none"))
        elif spec.get("rerun"):
            # first run under the fixed name stores its table; then fresh scheduler / backend / callbacks / Tuner in
            # the same experiment directory: what is read back afterwards must be the table of the LAST run only
            first_spec = dict(spec, rerun=None)
            if spec.get("first_flipped"):
                # the EARLIER experiment under this name optimised the other way round (and, for scripted runs, other
                # metric names): what is loaded after the second run must describe the second run's scheduler
                flip = {"min": "max", "max": "min"}
                m = spec["mode"]
                first_spec["mode"] = [flip[x] for x in m] if isinstance(m, list) else flip[m]
                first_spec.pop("ctor_mode", None)
                if spec.get("first_renamed"):
                    ren = {n: n + "x" for n in spec["names"]}
                    first_spec["names"] = [ren[n] for n in spec["names"]]
                    first_spec["scripts"] = [[{ren.get(k, k): v for k, v in r.items()} for r in sc]
                                             for sc in spec["scripts"]]
                    first_spec["dtypes"] = {ren.get(k, k): v for k, v in (spec.get("dtypes") or {}).items()}
            first = run_whole(ctx, first_spec)
            obs = run_whole(ctx, dict(spec, rerun=None, **{k: v for k, v in spec["rerun"].items()}))
            ctx.h("run_rerun_first_scheduler", "flipped mode%s" % (", other metric names" if spec.get("first_renamed")
                                                                   else "") if spec.get("first_flipped") else "same")
            if obs.get("run_model") is not None:
                obs["run_model"]["old"] = first["rows"]  # what results.csv.zip held before the second run
            ctx.h("run_rerun", "first run %s rows, second run %s" % (
                "some" if first["rows"] else "no", "0 rows" if not obs["rows"] else "1 row" if len(obs["rows"]) == 1
                else "several rows"))
        else:
            obs = run_resumed(ctx, spec) if spec.get("resume") else run_whole(ctx, spec)
        shutil.rmtree(os.path.join(_TMP_ROOT, spec["name"]), ignore_errors=True)
        sched = spec["kind"]
        split = obs.get("split")
        err = obs.get("run_error")
        expected_fault = bool(spec.get("faults")) and err is not None and "injected fault" in err["message"]
        ctx.h("run_injected_fault", "none" if not spec.get("faults") else
              "%s -> %s" % ("+".join(sorted(spec["faults"])), err["raised"] if err else "run ended normally"))
        for dt in (spec.get("dtypes") or {}).values():
            ctx.h("run_value_type", dt)
        ctx.h("run_composer", "none" if not spec.get("composer") else "extra columns")
        if spec.get("resume"):
            ctx.h("run_resume", "%s, rows before/after: %s" % (
                spec["resume"], "both" if 0 < (split or 0) < len(obs["deliveries"]) else
                "only before" if split else "only after" if obs["deliveries"] else "none"))
        resumed_changed = any(obs["deliveries"][a]["trial_id"] == obs["deliveries"][b]["trial_id"]
                              and obs["deliveries"][a]["config"] != obs["deliveries"][b]["config"]
                              for a in range(len(obs["deliveries"])) for b in range(a + 1, len(obs["deliveries"])))
        ctx.count(("run", spec), nontrivial=len(obs["rows"]) >= 3 and len(obs["per_trial"]) >= 2)
        ctx.h("run_scheduler", sched)
        ctx.h("run_rows", min(len(obs["rows"]) // 5 * 5, 30))
        ctx.h("run_resumed_with_changed_config", resumed_changed)
        ctx.h("run_undelivered_results", len(obs["handed"]) > len(obs["rows"]))
        ctx.h("run_trials_without_results", sum(1 for s in obs["per_trial"].values() if s["count"] == 0) > 0)
        if obs["n_delivered"][0] != obs["n_delivered"][1]:
            ctx.violation("property", "rows: scheduler received %d results, callbacks %d" % obs["n_delivered"],
                          case=case, signature=dict(part="rows", kind="run", scheduler=sched, defect="delivery_count"))
        if not obs["meta_ok"]:
            ctx.violation("property", "best_experiment: metadata.json does not hold the scheduler's metric names/modes",
                          case=case, signature=dict(part="best_experiment", kind="run", scheduler=sched,
                                                    defect="metadata"))
        if obs.get("df_again") is not None:
            why = check_disk(obs["rows"], obs["df_again"])
            if why:
                ctx.violation("property", "disk: loading the experiment a second time (after the first loaded table "
                              "was edited in place, the file untouched) does not give the stored table: " + why,
                              case=case, signature=dict(part="disk", kind="run", scheduler=sched,
                                                        defect="second_load_differs"))
        if obs["df"] is None and experiments_module(ctx) is not None and obs["rows"]:
            ctx.violation("property", "disk: load_experiment found no results table for %d rows" % len(obs["rows"]),
                          case=case, signature=dict(part="disk", kind="run", scheduler=sched, defect="no_table"))
        property_checks(ctx, case, "run", obs["deliveries"], obs["rows"], True,
                        obs["df"] if experiments_module(ctx) is not None else SKIP_DISK,
                        obs["handed"], obs["overall"], obs["per_trial"], spec["names"], spec["mode"], obs["bq"],
                        obs["tq"], obs["table"], obs["eqs"], sched=sched, summaries=obs["summaries"],
                        run_error=None if expected_fault else obs["run_error"],
                        boundaries=() if split is None else (split,))
        ctx.h("run_first_metric_never_numeric",
              bool(obs["handed"]) and not any(isinstance(plain(r.get(spec["names"][0])), numbers.Number)
                                              for _, r in obs["handed"]))
        if (obs["stores"] or [0])[-1] != len(obs["rows"]):
            ctx.violation("property", "disk: last store wrote %r rows of %d" % (obs["stores"][-1:], len(obs["rows"])),
                          case=case, signature=dict(part="disk", kind="run", scheduler=sched,
                                                    defect="final_store_missing"))
        tb = Tables()
        terms.append(build_case(tb, True, obs["events"], obs["rows"], obs["history"], obs["overall"], obs["per_trial"],
                                obs["backend_cfgs"], spec["names"], spec["mode"], obs["bq"], obs["tq"], obs["table"],
                                obs["eqs"], summaries=obs["summaries"],
                                disk_cols=None if obs["df"] is None else [str(c) for c in obs["df"].columns],
                                split=split, run_model=obs.get("run_model"), legs_model=obs.get("legs_model")))
        meta.append(case)
        if len(obs["rows"]) >= 3 and not getattr(ctx, "_c17_run_sampled", False):
            ctx._c17_run_sampled = True
            ctx.sample(dict(kind="run", scheduler=sched, names=spec["names"], mode=spec["mode"],
                            n_rows=len(obs["rows"]), n_handed=len(obs["handed"]),
                            best_config=[(m, repr(b)) for m, b in obs["tq"]],
                            experiment_best=[(m, repr(c)) for m, c in obs["eqs"]]))
    report_model_mismatches(ctx, "runc" if corpus_only else "run", terms, meta)


# --------------------------------------------------------------------------
# driver
# --------------------------------------------------------------------------
def run(ctx, replay=None):
    ctx.rule = ("seq cases: generated scripts of TuningStatus.update calls and result deliveries (1-6 trials, 1-3 "
                "metrics with min/max/list modes; values on a tie grid, ints, floats, NaN, +-inf, strings, None; "
                "trials without results; paused trials resumed with a changed configuration; results after a "
                "STOP/PAUSE in the same batch handed but not delivered; results_update_interval in {-1,0,0.5,10}; "
                "add_wallclock_time on/off; time stamp preset by the backend) fed to the real StoreResultsCallback and "
                "TuningStatus; run cases: whole Tuner.run() with a harness-side in-memory backend and FIFO/Hyperband/"
                "scripted schedulers, results.csv.zip read back with load_experiment; also runs with save_tuner that are "
                "interrupted, loaded back with Tuner.load (same results root, or experiment directory copied to another "
"SYNETUNE_FOLDER) and continued with a larger budget, and experiments run a second time under the same "
                "fixed name (second run with 0, 1 or several results; the table read back must be the last run's). "
                "non-trivial = at least 2 "
                "delivered results, 2 trials and a tie or a NaN/inf/non-numeric value (seq), or a run with >= 3 rows "
                "and >= 2 trials (run); distinct by content hash")
    try:
        experiments_module(ctx)
        if replay and replay.get("kind") == "import":
            return
        run_cases(ctx, replay, corpus_only=True)
        seq_cases(ctx, replay)
        run_cases(ctx, replay)
    finally:
        shutil.rmtree(_TMP_ROOT, ignore_errors=True)


def corpus_specs(kind):
    """minimised / formerly failing cases, run first"""
    import glob
    import json
    out = []
    for f in sorted(glob.glob(os.path.join(os.path.dirname(os.path.dirname(os.path.dirname(os.path.abspath(__file__)))),
                                           "corpus", "C17", "*.json"))):
        case = json.load(open(f)).get("case", {})
        if case.get("kind") == kind:
            out.append(case["spec"])
    return out


def seq_cases(ctx, replay):
    rng = ctx.rng
    if replay and replay.get("kind") == "seq":
        specs = [replay["spec"]]
    elif replay:
        return
    else:
        specs = corpus_specs("seq") + [gen_seq_spec(rng) for _ in range(ctx.n(200, 4000))]
    terms, meta = [], []
    for i, spec in enumerate(specs):
        workdir = os.path.join(_TMP_ROOT, "seq-%d" % i)
        os.makedirs(workdir, exist_ok=True)
        obs = run_seq(ctx, spec, workdir)
        shutil.rmtree(workdir, ignore_errors=True)
        case = dict(kind="seq", spec=spec)
        ctx.count(("seq", spec), nontrivial=seq_nontrivial(spec, obs))
        ctx.h("seq_rows", min(len(obs["rows"]) // 5 * 5, 30))
        ctx.h("seq_trials", len(obs["per_trial"]))
        ctx.h("seq_rui", spec["rui"])
        for s in spec["styles"]:
            ctx.h("seq_metric_style", s)
        for dt in (spec.get("dtypes") or {}).values():
            ctx.h("seq_value_type", dt)
        ctx.h("seq_undelivered", sum(1 for op in spec["ops"] for r in op["results"] if r[2] is None) > 0)
        ctx.h("seq_trials_without_results", sum(1 for s in obs["per_trial"].values() if s["count"] == 0) > 0)
        property_checks(ctx, case, "seq", obs["deliveries"], obs["rows"], spec["wallclock"], obs["df"], obs["handed"],
                        obs["overall"], obs["per_trial"], spec["names"], spec["mode"], obs["bq"], obs["tq"],
                        obs["table"], obs["eqs"], summaries=obs["summaries"])
        if not obs["arg_untouched"]:
            ctx.violation("property", "rows: on_trial_result modified the result dict it was given", case=case,
                          signature=dict(part="rows", kind="seq", defect="result_not_copied"))
        # stores: every store wrote a prefix (all rows so far), the last one everything
        if obs["stores"] != sorted(obs["stores"]) or (obs["stores"] or [0])[-1] != len(obs["rows"]):
            ctx.violation("property", "disk: store sizes %r for %d rows" % (obs["stores"], len(obs["rows"])),
                          case=case, signature=dict(part="disk", kind="seq", defect="final_store_missing"))
        tb = Tables()
        terms.append(build_case(tb, spec["wallclock"], obs["events"], obs["rows"], obs["history"], obs["overall"],
                                obs["per_trial"], obs["backend_cfgs"], spec["names"], spec["mode"], obs["bq"],
                                obs["tq"], obs["table"], obs["eqs"], summaries=obs["summaries"],
                                disk_cols=None if obs["df"] is None else [str(c) for c in obs["df"].columns]))
        meta.append(case)
        if i == 0:
            ctx.sample(dict(kind="seq", names=spec["names"], mode=spec["mode"], n_ops=len(spec["ops"]),
                            first_rows=[{k: repr(v) for k, v in r.items()} for r in obs["rows"][:2]],
                            overall_min={k: repr(v) for k, v in obs["overall"]["min"].items()},
                            best=[(m, repr(b)) for m, b in obs["bq"]]))
    report_model_mismatches(ctx, "seq", terms, meta)


PARTS = {128: "one tuner object run several times (tuner_legs)", 64: "whole run (tuner_run: deliver_batch / run_body / finally block)",
         32: "table read back from disk (csv_write / csv_read / columns)",
         16: "final summary of Tuner.run (tuner_final_summary)", 1: "rows (cb_run / make_row)", 2: "statistics (ts_run / stats_add)",
         4: "best trial (print_best / tuner_best_config)", 8: "best row (exp_best_config)"}


def report_model_mismatches(ctx, tag, terms, meta):
    if not terms:
        return
    # one single-threaded evaluation first: common's per-process scratch directory is created lazily and the
    # parallel shards of coq_bad_cases would race on its creation
    ctx.coq_eval(tag + "_warm", IMPORTS, "", ["0%nat"])
    bad = ctx.coq_bad_cases(tag, IMPORTS, PRELUDE, "chk_case", terms, shard=25)
    if not bad:
        return
    masks = ctx.coq_eval(tag + "_why", IMPORTS, PRELUDE, ["chk_mask (%s)" % terms[i] for i in bad[:6]])
    for i, mk in zip(bad[:6], masks):
        try:
            bits = int(mk.split()[0].strip("()%Z"))
        except ValueError:
            bits = 255
        parts = [v for b, v in PARTS.items() if bits & b]
        ctx.violation("correspondence", "model and implementation differ on: " + "; ".join(parts), case=meta[i],
                      failing_input=False, broken="correspondence chk_case (model/Results.v): " + "; ".join(parts))
