"""C06 — correspondence of model/Searcher.v with the real searchers (RandomSearcher incl.
restrict_configurations, GridSearcher, GPFIFOSearcher selection layer, _postprocess_config) and an
independent checker on what the real schedulers suggest (keys, constants, typed membership, initial
points first, no repeats, 'nothing left' only at exhaustion)."""
import contextlib
import datetime
import io
import logging
from unittest import mock

import numpy as np

from common import lst, natlit, zlit, blit, optlit

IMPORTS = "From Verif Require Import model.Base model.Searcher.\nOpen Scope Z_scope.\n"

PRELUDE = r"""
Definition Cf := (Z * Z)%type.
Definition ceqb (a b : Cf) : bool := Z.eqb (fst a) (fst b) && Z.eqb (snd a) (snd b).
Definition msf (c : Cf) : Z := snd c.
Definition oeqb := res_eqb (opt_eqb ceqb).
Definition no_rest (l : list (draw Cf)) : bool := match l with [] => true | _ => false end.

(* RandomSearcher: user points (imputed, before dedup), debug_log, allow_duplicates,
   restrict_configurations, configspace_size, events, observed answers *)
Definition rs_case := (list Cf * bool * bool * option (list Cf) * option nat *
                       list (rs_event Cf) * list (res (option Cf)))%type.
Fixpoint rs_run_chk (s : rs_state Cf Z) (es : list (rs_event Cf)) : list (res (option Cf)) * bool :=
  match es with
  | [] => ([], true)
  | RGet _ ds :: r =>
      match rs_get_config Cf Z Z.eqb msf s ds with
      | Ok (s', c, rest) => let '(o, b) := rs_run_chk s' r in (Ok c :: o, b && no_rest rest)
      | Err x => let '(o, b) := rs_run_chk s r in (Err x :: o, b)
      end
  | e :: r => rs_run_chk (fst (rs_step Cf Z Z.eqb msf s e)) r
  end.
Definition chk_rs (c : rs_case) : bool :=
  let '(pts, dbg, ad, rc, size, evs, obs) := c in
  match rs_ctor Cf Z Z.eqb msf (dedup Cf ceqb [] pts) (DLBool dbg) ad rc size 100 with
  | Err _ => false
  | Ok s => let '(o, b) := rs_run_chk s evs in b && list_eqb oeqb o obs
  end.

(* GridSearcher: user points, real hp_values_combinations, allow_duplicates, events (true = get_config), answers *)
Definition gs_case := (list Cf * list Cf * bool * list bool * list (option Cf))%type.
Definition chk_gs (c : gs_case) : bool :=
  let '(pts, grid, ad, evs, obs) := c in
  let s := gs_ctor Cf Z grid (fun (_ : unit) l => l) (dedup Cf ceqb [] pts) tt false ad in
  list_eqb (opt_eqb ceqb)
    (snd (gs_run Cf Z Z.eqb msf s (map (fun b : bool => if b then GGet else GOther) evs))) obs.

(* product order of the unshuffled grid: value lists per position, observed combinations *)
Definition chk_prod (c : list (list Z) * list (list Z)) : bool :=
  list_eqb (list_eqb Z.eqb) (cart (fst c)) (snd c).

(* GPFIFOSearcher behind FIFOScheduler._suggest *)
Fixpoint tbl_opt (t : list (Cf * Cf)) (c : Cf) : Cf :=
  match t with [] => c | (k, v) :: r => if ceqb k c then v else tbl_opt r c end.
Inductive mbe := ESug (t : Z) (ds : list (draw Cf)) (cands : list Cf) (tbl : list (Cf * Cf))
               | EUpd (t : Z) (c : Cf) | EFail (t : Z) | ENonFinite (t : Z).
Definition mb_case := (list Cf * nat * bool * option nat * list mbe * list (res (option Cf)))%type.
Fixpoint mb_run_chk (s : mb_state Cf Z) (es : list mbe) : list (res (option Cf)) * bool :=
  match es with
  | [] => ([], true)
  | ESug t ds cands tbl :: r =>
      match mb_get_config Cf Z Z.eqb msf s ds cands (tbl_opt tbl) with
      | Err x => let '(o, b) := mb_run_chk s r in (Err x :: o, b)
      | Ok (s', None, rest) => let '(o, b) := mb_run_chk s' r in (Ok None :: o, b && no_rest rest)
      | Ok (s', Some c, rest) =>
          match mb_register_pending Cf Z s' t c with
          | Ok s'' => let '(o, b) := mb_run_chk s'' r in (Ok (Some c) :: o, b && no_rest rest)
          | Err x => let '(o, b) := mb_run_chk s' r in (Err x :: o, b)
          end
      end
  | EUpd t c :: r => mb_run_chk (mb_update Cf Z s t c) r
  | EFail t :: r => mb_run_chk (mb_evaluation_failed Cf Z s t) r
  | ENonFinite t :: r => mb_run_chk (mb_update_nonfinite Cf Z s t) r
  end.
Definition chk_mb (c : mb_case) : bool :=
  let '(pts, ninit, ad, size, evs, obs) := c in
  let '(o, b) := mb_run_chk (mb_ctor Cf Z (dedup Cf ceqb [] pts) ninit ad size 100 50) evs in
  b && list_eqb oeqb o obs.

(* get_batch_configs, model-based phase: size, requested, exclusion list (match strings),
   per greedy iteration the optimised candidates in call order with their results, the real batch *)
Definition batch_case := (option nat * nat * list Z * list (list Cf * list (Cf * Cf)) * list Cf)%type.
Definition chk_batch (c : batch_case) : bool :=
  let '(size, n, e, its, obs) := c in
  list_eqb ceqb (bo_batch Cf Z Z.eqb msf size n e (map (fun it => (fst it, tbl_opt (snd it))) its)) obs.

(* get_batch_configs after a history: points, num_init_random, size, events (EGetOnly = suggested, trial not
   started), batch size, draws of the batch call, per-iteration oracles, observed batch *)
Inductive mbe2 := E2 (e : mbe) | EGetOnly (ds : list (draw Cf)) (cands : list Cf) (tbl : list (Cf * Cf)).
Fixpoint mb_replay (s : mb_state Cf Z) (es : list mbe2) : option (mb_state Cf Z) :=
  match es with
  | [] => Some s
  | E2 (ESug t ds cands tbl) :: r =>
      match mb_get_config Cf Z Z.eqb msf s ds cands (tbl_opt tbl) with
      | Ok (s', Some c, _) => match mb_register_pending Cf Z s' t c with Ok s'' => mb_replay s'' r | Err _ => None end
      | Ok (s', None, _) => mb_replay s' r
      | Err _ => None
      end
  | E2 (EUpd t c) :: r => mb_replay (mb_update Cf Z s t c) r
  | E2 (EFail t) :: r => mb_replay (mb_evaluation_failed Cf Z s t) r
  | E2 (ENonFinite t) :: r => mb_replay (mb_update_nonfinite Cf Z s t) r
  | EGetOnly ds cands tbl :: r =>
      match mb_get_config Cf Z Z.eqb msf s ds cands (tbl_opt tbl) with
      | Ok (s', _, _) => mb_replay s' r
      | Err _ => None
      end
  end.
Definition mbatch_case := (list Cf * nat * option nat * list mbe2 * nat * list (draw Cf) *
                           list (list Cf * list (Cf * Cf)) * list Cf)%type.
Definition chk_mbatch (c : mbatch_case) : bool :=
  let '(pts, ninit, size, evs, n, ds, its, obs) := c in
  match mb_replay (mb_ctor Cf Z (dedup Cf ceqb [] pts) ninit false size 100 50) evs with
  | None => false
  | Some s =>
      match mb_get_batch Cf Z Z.eqb msf s n ds (map (fun it => (fst it, tbl_opt (snd it))) its) with
      | Ok (_, b) => list_eqb ceqb b obs
      | Err _ => false
      end
  end.

(* _postprocess_config: keys = Z, values = Z ids, domain = Z id, cast = table *)
Definition pp_case := (list (Z * entry Z Z) * list (Z * Z) * list (Z * Z * Z) * list (Z * (bool * Z)))%type.
Fixpoint cast_tbl (t : list (Z * Z * Z)) (d v : Z) : Z :=
  match t with [] => v | (d', v', r) :: rest => if Z.eqb d d' && Z.eqb v v' then r else cast_tbl rest d v end.
Definition ov_eqb (a : oval Z Z) (b : bool * Z) : bool :=
  match a with OVal v => fst b && Z.eqb v (snd b) | ODomObj d => negb (fst b) && Z.eqb d (snd b) end.
Fixpoint pp_eq (a : list (Z * oval Z Z)) (b : list (Z * (bool * Z))) : bool :=
  match a, b with
  | [], [] => true
  | x :: a', y :: b' => Z.eqb (fst x) (fst y) && ov_eqb (snd x) (snd y) && pp_eq a' b'
  | _, _ => false
  end.
(* resume suggestion under max_resource_attr: space, stored searcher configuration, key of max_resource_attr,
   milestone, cast table, observed configuration of the suggestion *)
Definition resume_case := (list (Z * entry Z Z) * list (Z * Z) * Z * Z * list (Z * Z * Z) * list (Z * (bool * Z)))%type.
Definition chk_resume (c : resume_case) : bool :=
  let '(space, cfg, mra, milestone, tbl, obs) := c in
  pp_eq (postprocess_config Z Z Z Z.eqb (cast_tbl tbl) (with_milestone Z Z Z.eqb cfg mra milestone) space) obs.
Definition chk_pp (c : pp_case) : bool :=
  let '(space, cfg, tbl, obs) := c in
  pp_eq (postprocess_config Z Z Z Z.eqb (cast_tbl tbl) cfg space) obs.
"""

T0 = datetime.datetime(2020, 1, 1)


# --------------------------------------------------------------------------
# configuration spaces from all public constructors
# --------------------------------------------------------------------------
def gen_domain_spec(rng, finite_only=False, small=False):
    kinds = ["randint", "lograndint", "choice", "ordinal", "finrange", "logfinrange", "qrandint",
             "single_choice", "single_randint", "single_finrange", "single_lograndint", "single_logfinrange"]
    if not finite_only:
        kinds += ["uniform", "loguniform", "quniform", "single_uniform", "uniform", "loguniform",
                  "loguniform_odd", "uniform_odd", "reverseloguniform",
                  "single_loguniform", "single_loguniform", "single_reverseloguniform", "single_uniform_odd",
                  "quniform_odd", "qloguniform_odd"]
    k = rng.choice(kinds)
    if k == "uniform":
        lo = rng.choice([0.0, -1.5, 0.25, 10.0])
        return [k, lo, lo + rng.choice([1.0, 0.5, 7.25])]
    if k == "loguniform":
        lo = rng.choice([1e-4, 0.01, 1.0])
        return [k, lo, lo * rng.choice([10.0, 1000.0])]
    if k == "quniform_odd":          # upper bound k*q which the float product does not reproduce (3*0.1 > 0.3)
        return ["quniform"] + rng.choice([[0.1, 0.3, 0.1], [0.1, 0.7, 0.1], [0.2, 0.6, 0.2]])
    if k == "qloguniform_odd":
        return ["qloguniform"] + rng.choice([[0.1, 0.7, 0.1], [0.1, 0.3, 0.1]])
    if k == "loguniform_odd":        # bounds b with exp(log(b)) != b
        return ["loguniform"] + rng.choice([[1e-6, 0.1], [1e-5, 1e-2], [0.3, 30.0], [1e-2, 0.3]])
    if k == "uniform_odd":
        return ["uniform"] + rng.choice([[0.1, 0.7], [0.3, 0.9], [1e-2, 0.3]])
    if k == "reverseloguniform":
        return [k] + rng.choice([[0.1, 0.9], [0.0, 0.99], [0.3, 0.999]])
    if k == "randint":
        lo = rng.choice([0, -3, 1, 5])
        return [k, lo, lo + (rng.randint(1, 3) if small else rng.randint(1, 12))]
    if k == "lograndint":
        lo = rng.choice([1, 2, 4])
        return [k, lo, lo * rng.choice([2, 4]) if small else lo * rng.choice([4, 16, 64])]
    if k == "choice":
        return [k, rng.choice([["a", "b"], ["x", "y", "z"], [1, 2, 4], [0.5, 1.5], ["relu", "tanh", "gelu", "elu"]])]
    if k == "ordinal":
        cats = rng.choice([[1, 2, 4, 8], [0.1, 0.2, 0.4], ["s", "m", "l"], [3, 5]])
        return [k, cats, rng.choice([None, "equal"] + ([] if isinstance(cats[0], str) else ["nn", "nn"]))]
    if k == "finrange":
        return [k, rng.choice([0.0, 1.0]), rng.choice([2.0, 5.0]), rng.randint(2, 5), rng.random() < 0.3]
    if k == "logfinrange":
        ci = rng.random() < 0.3     # cast_int only with lower >= 1 (int(rint(0.01)) = 0 leaves [lower, upper]: C07's business)
        return [k, 1.0 if ci else rng.choice([1.0, 0.01]), rng.choice([16.0, 100.0]), rng.randint(2, 5), ci]
    if k == "quniform":          # bounds divisible by an exactly representable q
        q = rng.choice([0.25, 0.5])
        return [k, 0.0, q * rng.randint(2, 6), q]
    if k == "qrandint":
        q = rng.choice([2, 4, 5])
        return [k, 0, q * rng.randint(1, 4), q]
    if k == "single_choice":
        return ["choice", [rng.choice(["only", 3, 2.5])]]
    if k == "single_randint":
        v = rng.randint(-2, 9)
        return ["randint", v, v]
    if k == "single_finrange":
        return ["finrange", 2.0, 2.0, 1, False]
    if k == "single_uniform":
        return ["uniform", 1.5, 1.5]
    # lower == upper with values v for which exp(log(v)) or the mid-point formula need not give v back
    if k == "single_loguniform":
        v = rng.choice([0.1, 0.01, 0.05, 1e-3, 1e-5, 0.3, 7.0])
        return ["loguniform", v, v]
    if k == "single_reverseloguniform":
        v = rng.choice([0.3, 0.9, 0.1, 0.999])
        return ["reverseloguniform", v, v]
    if k == "single_uniform_odd":
        v = rng.choice([0.1, 0.3, 1e-2])
        return ["uniform", v, v]
    if k == "single_lograndint":
        v = rng.choice([1, 3, 10])
        return ["lograndint", v, v]
    if k == "single_logfinrange":
        v = rng.choice([0.1, 3.0])
        return ["logfinrange", v, v, 1, False]
    raise AssertionError(k)


def build_domain(spec):
    from syne_tune import config_space as cs
    k = spec[0]
    if k in ("uniform", "loguniform", "randint", "lograndint", "reverseloguniform"):
        return getattr(cs, k)(spec[1], spec[2])
    if k == "choice":
        return cs.choice(list(spec[1]))
    if k == "ordinal":
        return cs.ordinal(list(spec[1]), kind=spec[2])
    if k == "finrange":
        return cs.finrange(spec[1], spec[2], spec[3], cast_int=spec[4])
    if k == "logfinrange":
        return cs.logfinrange(spec[1], spec[2], spec[3], cast_int=spec[4])
    if k == "quniform":
        return cs.quniform(spec[1], spec[2], spec[3])
    if k == "qloguniform":
        return cs.qloguniform(spec[1], spec[2], spec[3])
    if k == "qrandint":
        return cs.qrandint(spec[1], spec[2], spec[3])
    raise AssertionError(k)


def gen_space_spec(rng, finite_only=False, small=False, nmax=4, consts=True):
    n = rng.randint(1, 2 if small else nmax)
    names = rng.sample(["lr", "wd", "layers", "act", "bs", "mom", "depth", "drop"], n)
    spec = [[nm, "dom", gen_domain_spec(rng, finite_only, small)] for nm in names]
    if consts:
        for nm, v in rng.sample([["dataset", "cifar"], ["seed", 7], ["gamma", 0.5], ["flag", True]], rng.randint(0, 2)):
            spec.insert(rng.randint(0, len(spec)), [nm, "const", v])
    return spec


def build_space(spec):
    return {nm: (build_domain(d) if kind == "dom" else d) for nm, kind, d in spec}


def tag_retyped(rng, v):
    """JSON-able tag for a value EQUAL to v but of another type (numpy scalars, int-valued floats, ints for
    floats, bool for 0/1): what arrives from numpy tables, CSV or JSON files of earlier results"""
    if isinstance(v, bool):
        return v
    if isinstance(v, int):
        opts = ["np.int64", "float", "np.float64"] + (["bool"] if v in (0, 1) else [])   # np.bool_ is rejected by Integer.cast (TypeError), not suggested
    elif isinstance(v, float):
        opts = ["np.float64"] + (["int"] if float(v).is_integer() else [])
    elif isinstance(v, str):
        opts = ["np.str_"]
    else:
        return v
    return {"__t": rng.choice(opts), "v": v}


def untag(v):
    if isinstance(v, dict) and "__t" in v:
        conv = {"np.int64": np.int64, "np.float64": np.float64, "np.str_": np.str_, "np.bool_": np.bool_,
                "float": float, "int": int, "bool": bool}[v["__t"]]
        return conv(v["v"])
    return v


def pts_of(case):
    """points_to_evaluate of a case with the tagged values converted to their real types"""
    pts = case["pts"]
    return None if pts is None else [{k: untag(v) for k, v in pt.items()} for pt in pts]


def retype_config(space, config, seed):
    """a trial's configuration as it comes back from a backend which stored it in a table: values of
    hyperparameters equal but differently typed (constants untouched)"""
    import random as _random
    from syne_tune.config_space import Domain
    r = _random.Random(seed)
    return {k: (untag(tag_retyped(r, v)) if isinstance(space.get(k), Domain) and r.random() < 0.5 else v)
            for k, v in config.items()}


def gen_points(rng, spec, space, retype=False):
    """partial / duplicate / empty / None points_to_evaluate; with [retype], some values are tagged to be
    replaced by equal values of another type"""
    from syne_tune.config_space import Domain
    from syne_tune.config_space import Float, Integer
    mode = rng.choice(["none", "empty", "some", "some", "dups", "bounds"])
    if mode == "none":
        return None
    if mode == "empty":
        return []
    hp = [nm for nm, kind, _ in spec if kind == "dom"]
    pts = []
    for _ in range(rng.randint(1, 4)):
        pt = {}
        for nm in hp:
            from syne_tune.config_space import Quantized
            if isinstance(space[nm], Integer) and isinstance(space[nm].get_sampler(), Quantized) and rng.random() < 0.5:
                pt[nm] = rng.randint(space[nm].lower, space[nm].upper)    # any integer of the range is a valid value
            elif mode == "bounds" and isinstance(space[nm], (Float, Integer)) and rng.random() < 0.85:
                pt[nm] = rng.choice([space[nm].lower, space[nm].upper])     # exactly ON a domain bound
            elif rng.random() < 0.6:
                v = space[nm].sample(random_state=np.random.RandomState(rng.randrange(10 ** 6)))
                pt[nm] = v.item() if hasattr(v, "item") else v
        pts.append(pt)
    if mode == "dups" or rng.random() < 0.3:
        pts.append(dict(rng.choice(pts)))
        if rng.random() < 0.5:
            pts.insert(0, {})
            pts.append({})
    if retype and rng.random() < 0.6:
        pts = [{k: (tag_retyped(rng, v) if rng.random() < 0.6 else v) for k, v in pt.items()} for pt in pts]
    return pts


# --------------------------------------------------------------------------
# independent checker helpers
# --------------------------------------------------------------------------
def value_ok(dom, v):
    from syne_tune.config_space import Categorical, FiniteRange, Float, Integer
    if isinstance(dom, Categorical):
        return any(type(v) is type(c) and v == c for c in dom.categories)
    vt = dom.value_type
    if type(v) is not vt:           # strictly the domain's type: no bool for int, no numpy scalar for float/int
        return False
    if isinstance(dom, FiniteRange):
        return any(v == x for x in dom.values)
    if isinstance(dom, (Float, Integer)):
        return dom.lower <= v <= dom.upper
    return False


def check_suggestion(space, config, exempt=()):
    """returns None or (event, detail): keys / constants / typed membership"""
    from syne_tune.config_space import Domain
    if list(sorted(config.keys())) != list(sorted(space.keys())):
        return "wrong_keys", "keys %s vs space %s" % (sorted(config), sorted(space))
    for k, d in space.items():
        if k in exempt:
            continue
        if isinstance(d, Domain):
            if isinstance(config[k], Domain) or not value_ok(d, config[k]):
                return "value_not_in_domain", "%s=%r (%s) not a member of %r" % (k, config[k], type(config[k]).__name__, d)
        else:
            if type(config[k]) is not type(d) or config[k] != d:
                return "constant_changed", "%s=%r, constant is %r" % (k, config[k], d)
    return None


def as_scheduler_would(space, c):
    """constants merged and values cast with the public cast_config_values, as TrialScheduler.suggest does"""
    from syne_tune.config_space import cast_config_values
    full = dict(space)
    full.update(cast_config_values(c, space))
    return full


def true_size(space):
    """number of distinct configurations (None = infinite), counted from the domains' real value sets
    (config_space_size over-counts quantised domains and cast_int ranges with colliding values)"""
    from syne_tune.config_space import Domain, Categorical, FiniteRange, Float, Integer, Quantized
    n = 1
    for d in space.values():
        if not isinstance(d, Domain):
            continue
        if isinstance(d, Categorical):
            k = len(set(d.categories))
        elif isinstance(d, FiniteRange):
            k = len(set(d.values))
        elif isinstance(d.get_sampler(), Quantized):
            q = d.get_sampler().q
            k = len({d.cast(min(max(i * q, d.lower), d.upper))
                     for i in range(int(np.floor(d.lower / q + 0.5)), int(np.floor(d.upper / q + 0.5)) + 1)})
        elif isinstance(d, Integer):
            k = d.upper - d.lower + 1
        elif isinstance(d, Float):
            k = 1 if d.lower == d.upper else None
        else:
            k = None
        if k is None:
            return None
        n *= k
    return n


def reachable(space, config):
    """can the samplers produce this configuration? (a quantised Integer domain admits every integer of its range,
    e.g. in points_to_evaluate, but is sampled at multiples of q only; true_size counts the sampled values)"""
    from syne_tune.config_space import Integer, Quantized
    for k, d in space.items():
        if isinstance(d, Integer) and isinstance(d.get_sampler(), Quantized) and config[k] % d.get_sampler().q != 0:
            return False
    return True


def hp_tuple(space, config):
    from syne_tune.config_space import Domain
    return tuple(config[k] for k in sorted(space) if isinstance(space[k], Domain))


def expected_initial(space, pts):
    from syne_tune.optimizer.schedulers.searchers.searcher import impute_points_to_evaluate
    return impute_points_to_evaluate(pts, space)


class Enc:
    """configurations -> (cid, mid) integer pairs: cid by Python equality of the value tuple,
    mid by match string"""

    def __init__(self, space):
        from syne_tune.optimizer.schedulers.searchers.utils import make_hyperparameter_ranges
        self.space = space
        self.hp = make_hyperparameter_ranges(space)
        self.cids, self.mids = {}, {}

    def __call__(self, config):
        t = hp_tuple(self.space, config)
        cid = self.cids.setdefault(t, len(self.cids))
        m = self.hp.config_to_match_string(config)
        mid = self.mids.setdefault(m, len(self.mids))
        return "(%d, %d)" % (cid, mid)

    def opt(self, c):
        return "None" if c is None else "(Some %s)" % self(c)


class Recorder:
    """records every HyperparameterRanges.random_config result (the configuration draws)"""

    def __init__(self):
        self.log = []

    def patch(self):
        from syne_tune.optimizer.schedulers.searchers.utils.hp_ranges import HyperparameterRanges
        orig = HyperparameterRanges.random_config
        rec = self

        def wrapper(hp_self, random_state):
            c = orig(hp_self, random_state)
            rec.log.append(("cfg", dict(c)))
            return c
        return mock.patch.object(HyperparameterRanges, "random_config", wrapper)


class RecRandomState(np.random.RandomState):
    """RandomState that reports randint(low=0, high=n) position draws (restrict_configurations)"""
    rec = None

    def randint(self, low, high=None, size=None, dtype=int):
        r = super().randint(low, high, size, dtype)
        if self.rec is not None and size is None and low == 0:
            self.rec.log.append(("pos", int(r)))
        return r


def draws_term(enc, draws):
    return lst(["(DCfg %s)" % enc(d) if k == "cfg" else "(DPos %s)" % natlit(d) for k, d in draws])


def quiet():
    logging.disable(logging.CRITICAL)


# --------------------------------------------------------------------------
# 1. RandomSearcher sequences (model correspondence + checker)
# --------------------------------------------------------------------------
def gen_rs_case(rng, retype=False):
    finite = rng.random() < 0.6
    spec = gen_space_spec(rng, finite_only=finite, small=finite and rng.random() < 0.6)
    space = build_space(spec)
    pts = gen_points(rng, spec, space, retype)
    restrict = None
    if rng.random() < 0.25:
        rs = np.random.RandomState(rng.randrange(10 ** 6))
        from syne_tune.optimizer.schedulers.searchers.utils import make_hyperparameter_ranges
        hp = make_hyperparameter_ranges(space)
        restrict = []
        for _ in range(rng.randint(1, 6)):
            c = hp.random_config(rs)
            restrict.append({k: (v.item() if hasattr(v, "item") else v) for k, v in c.items()})
        if rng.random() < 0.5 and pts:
            restrict.append(expected_initial(space, pts_of(dict(pts=pts)))[0])
    ops = []
    for _ in range(rng.randint(3, 30)):
        ops.append(rng.choice(["get", "get", "get", "pending", "failed", "update"]))
    return dict(kind="rs", spec=spec, pts=pts, restrict=restrict, allow_dup=rng.random() < 0.3,
                debug=rng.random() < 0.5, seed=rng.randrange(10 ** 6), ops=ops)


def run_rs_case(ctx, case):
    from syne_tune.optimizer.schedulers.searchers import RandomSearcher
    from syne_tune.config_space import config_space_size
    quiet()
    space = build_space(case["spec"])
    enc = Enc(space)
    rec = Recorder()
    pts = pts_of(case)
    restrict = [dict(c) for c in case["restrict"]] if case["restrict"] is not None else None
    with rec.patch():
        s = RandomSearcher(space, metric="m", points_to_evaluate=pts, allow_duplicates=case["allow_dup"],
                           restrict_configurations=restrict, debug_log=case["debug"], random_seed=case["seed"])
        rs = RecRandomState(case["seed"])
        rs.rec = rec
        s.set_random_state(rs)
        evs, obs, outs = [], [], []
        suggested = []
        tid = 0
        for op in case["ops"]:
            if op == "get":
                n0 = len(rec.log)
                with contextlib.redirect_stdout(io.StringIO()):
                    try:
                        c = s.get_config(trial_id=str(tid))
                        res = "(Ok %s)" % enc.opt(c)
                    except AttributeError:
                        c, res = None, "(Err AttrErrorNone)"
                draws = rec.log[n0:]
                if restrict is None:
                    draws = [d for d in draws if d[0] == "cfg"]
                else:
                    draws = [d for d in draws if d[0] == "pos"]
                evs.append("(RGet Cf %s)" % draws_term(enc, draws))
                obs.append(res)
                outs.append(c)
                if c is not None:
                    suggested.append((tid, c))
                    tid += 1
            elif op == "pending" and suggested:
                t, c = suggested[-1]
                s.register_pending(str(t), config=c)
                evs.append("(RPending Cf %s %s)" % (zlit(t), enc(c)))
            elif op == "failed" and suggested:
                t, c = suggested[len(suggested) // 2]
                s.evaluation_failed(str(t))
                evs.append("(RFailed Cf %s)" % zlit(t))
            elif op == "update" and suggested:
                t, c = suggested[0]
                s.on_trial_result(str(t), c, {"m": 0.5}, update=True)
                evs.append("(RUpdate Cf %s)" % zlit(t))
    imputed = [expected_initial(space, [p])[0] for p in (pts if pts is not None else [dict()])]
    size = config_space_size(space)
    term = "(%s, %s, %s, %s, %s, %s, %s)" % (
        lst([enc(c) for c in imputed]), blit(case["debug"]), blit(case["allow_dup"]),
        optlit(case["restrict"], lambda r: lst([enc(c) for c in r])),
        optlit(size if (size is not None and size < 4000) else None, natlit),
        lst(evs), lst(obs))
    # ---- independent checker ----
    got = [c for c in outs if c is not None]
    viol = None
    init = expected_initial(space, pts)
    if restrict is not None:
        ms = {enc.hp.config_to_match_string(c) for c in case["restrict"]}
        init = [c for c in init if enc.hp.config_to_match_string(c) in ms]
    k = min(len(got), len(init))
    if [hp_tuple(space, c) for c in got[:k]] != [hp_tuple(space, c) for c in init[:k]]:
        viol = ("initial_points_not_first", "first suggestions %s, expected %s" % (got[:k], init[:k]))
    for c in got:
        full = as_scheduler_would(space, c)
        bad = check_suggestion(space, full, ())
        if bad and viol is None:
            viol = bad
    if not case["allow_dup"] and viol is None:
        tl = [hp_tuple(space, c) for c in got]
        if len(set(tl)) != len(tl):
            viol = ("repeated_configuration", "suggestions %s" % (tl,))
    if viol is None and restrict is None and not case["allow_dup"] and any(c is None for c in outs):
        tsize = true_size(space)
        if tsize is None or len({hp_tuple(space, c) for c in got if reachable(space, as_scheduler_would(space, c))}) < tsize:
            viol = ("none_before_finite_space_exhausted",
                    "None after %d distinct of %s configurations" % (len(got), tsize))
    nontriv = len(got) > len(init) and (len(init) >= 2 or any(o == "(Ok None)" for o in obs) or restrict is not None)
    return term, viol, nontriv, dict(n_get=len(outs), n_none=sum(1 for c in outs if c is None))


# --------------------------------------------------------------------------
# 2. GridSearcher sequences
# --------------------------------------------------------------------------
def gen_gs_case(rng, retype=False):
    spec = gen_space_spec(rng, finite_only=rng.random() < 0.7, small=True, nmax=3)
    space = build_space(spec)
    return dict(kind="gs", spec=spec, pts=gen_points(rng, spec, space, retype), shuffle=rng.random() < 0.6,
                allow_dup=rng.random() < 0.25, seed=rng.randrange(10 ** 6), num_samples=rng.choice([None, 2, 3]),
                ops=[rng.random() < 0.8 for _ in range(rng.randint(3, 45))])


def gen_gs_on_grid_case(rng, retype=False):
    """initial points taken FROM the grid (plus partial ones), the whole grid run through, with a
    get_state / clone_from_state restore at some point of the run"""
    from syne_tune.optimizer.schedulers.searchers import GridSearcher
    from syne_tune.config_space import Float, Integer
    quiet()
    case = gen_gs_case(rng, False)
    space = build_space(case["spec"])
    ns = None
    if case["num_samples"] is not None:
        ns = {k: case["num_samples"] for k, d in space.items() if isinstance(d, (Float, Integer))}
    g = GridSearcher(space, metric="m", points_to_evaluate=[], num_samples=ns, shuffle_config=False)
    grid = [dict(zip(g.hp_keys, vals)) for vals in g.hp_values_combinations]
    pick = rng.sample(grid, min(len(grid), rng.randint(1, 3)))
    pts = [{k: (v.item() if hasattr(v, "item") else v) for k, v in c.items() if k in space and not isinstance(v, bool)}
           for c in pick]
    from syne_tune.config_space import Domain
    pts = [{k: v for k, v in pt.items() if isinstance(space[k], Domain)} for pt in pts]
    if rng.random() < 0.4:
        pts.insert(rng.randint(0, len(pts)), {})
    n = len(grid) + len(pts) + 3
    case.update(pts=pts, allow_dup=False, ops=[True] * n, restore_at=rng.randint(1, n - 2), on_grid=True)
    return case


def run_gs_case(ctx, case):
    from syne_tune.optimizer.schedulers.searchers import GridSearcher
    from syne_tune.config_space import Domain, Float, Integer
    quiet()
    space = build_space(case["spec"])
    enc = Enc(space)
    ns = None
    if case["num_samples"] is not None:
        ns = {k: case["num_samples"] for k, d in space.items() if isinstance(d, (Float, Integer))}
    s = GridSearcher(space, metric="m", points_to_evaluate=pts_of(case), num_samples=ns,
                     shuffle_config=case["shuffle"], allow_duplicates=case["allow_dup"], random_seed=case["seed"])
    combos = [dict(zip(s.hp_keys, vals)) for vals in s.hp_values_combinations]
    outs = []
    for i, g in enumerate(case["ops"]):
        if case.get("restore_at") == i:
            # the run goes on with a searcher re-created from a state snapshot: it must still enumerate the grid once
            s = s.clone_from_state(s.get_state())
        if g:
            outs.append(s.get_config(trial_id=str(i)))
        else:
            s.register_pending(str(i), config=combos[0] if combos else None)
            s.evaluation_failed(str(i))
    pts = pts_of(case)
    imputed = [expected_initial(space, [p])[0] for p in (pts if pts is not None else [dict()])]
    term = "(%s, %s, %s, %s, %s)" % (lst([enc(c) for c in imputed]), lst([enc(c) for c in combos]),
                                       blit(case["allow_dup"]), lst([blit(g) for g in case["ops"]]),
                                       lst([enc.opt(c) for c in outs]))
    # product-order case (unshuffled twin)
    s2 = GridSearcher(space, metric="m", points_to_evaluate=[], num_samples=ns, shuffle_config=False)
    vids = {}
    cols = [[] for _ in s2.hp_keys]
    rows = []
    for vals in s2.hp_values_combinations:
        row = []
        for j, v in enumerate(vals):
            key = (j, type(v).__name__, repr(v))
            vid = vids.setdefault(key, len(vids))
            if vid not in cols[j]:
                cols[j].append(vid)
            row.append(vid)
        rows.append(row)
    prod_term = "(%s, %s)" % (lst([lst([str(v) for v in c]) for c in cols]), lst([lst([str(v) for v in r]) for r in rows]))
    # ---- independent checker ----
    viol = None
    got = [c for c in outs if c is not None]
    init = expected_initial(space, pts)
    k = min(len(got), len(init))
    if [hp_tuple(space, c) for c in got[:k]] != [hp_tuple(space, c) for c in init[:k]]:
        viol = ("initial_points_not_first", "first suggestions %s, expected %s" % (got[:k], init[:k]))
    for c in got:
        full = as_scheduler_would(space, c)
        bad = check_suggestion(space, full, ())
        if bad and viol is None:
            viol = bad
    if not case["allow_dup"] and viol is None:
        tl = [hp_tuple(space, c) for c in got]
        if len(set(tl)) != len(tl):
            viol = ("repeated_configuration", "suggestions %s" % (tl,))
        if any(c is None for c in outs):
            first_none = outs.index(None)
            if any(c is not None for c in outs[first_none:]):
                viol = ("suggestion_after_none", "outputs %s" % (outs,))
            init_ms = {enc.hp.config_to_match_string(c) for c in init}
            want = {hp_tuple(space, c) for c in combos if enc.hp.config_to_match_string(c) not in init_ms}
            have = {hp_tuple(space, c) for c in got[len(init):]}
            if viol is None and want != have:
                viol = ("grid_not_enumerated_exactly_once", "missing %s extra %s" % (want - have, have - want))
    nontriv = len(got) > len(init) >= 1 or any(c is None for c in outs)
    return term, prod_term, viol, nontriv


# --------------------------------------------------------------------------
# 3. schedulers: checker on every suggestion
# --------------------------------------------------------------------------
def gen_metrics(rng, n, nonfinite=0.0):
    """metric values; non-finite ones are stored as strings ('nan', 'inf', '-inf') to stay JSON-able"""
    return [rng.choice(["nan", "inf", "-inf"]) if rng.random() < nonfinite else round(rng.uniform(0, 1), 3)
            for _ in range(n)]


def corner_of_box(hp_ranges, seed):
    """what a box-constrained local optimiser returns when the optimum lies outside: a corner of the encoded
    box (public get_ndarray_bounds / from_ndarray)"""
    import random as _random
    r = _random.Random(seed)
    x = np.array([b[r.randrange(2)] for b in hp_ranges.get_ndarray_bounds()], dtype=float)
    return hp_ranges.from_ndarray(x)


def corner_optimizer_class(seed):
    from syne_tune.optimizer.schedulers.searchers.bayesopt.tuning_algorithms.bo_algorithm_components import (
        LBFGSOptimizeAcquisition)
    calls = [0]

    class CornerOptimizer(LBFGSOptimizeAcquisition):
        def optimize(self, candidate, predictor=None):
            calls[0] += 1
            return corner_of_box(self.hp_ranges, seed + calls[0])
    return CornerOptimizer


def small_finite_spec(rng):
    """3..12 configurations"""
    while True:
        doms = [rng.choice([["randint", 0, rng.randint(1, 3)], ["choice", rng.choice([["a", "b"], ["x", "y", "z"]])],
                            ["ordinal", [1, 2, 4], rng.choice([None, "equal"])],
                            ["finrange", 0.0, 1.0, rng.randint(2, 3), False]]) for _ in range(rng.randint(1, 2))]
        spec = [["h%d" % i, "dom", d] for i, d in enumerate(doms)]
        size = true_size(build_space(spec))
        if 3 <= size <= 12:
            return spec, size


SCHED_KINDS = ["fifo-random", "fifo-grid", "fifo-bayesopt", "hb-stopping-random", "hb-promotion-random",
               "hb-stopping-bayesopt", "hb-promotion-hypertune", "dehb", "pbt"]
NO_REPEAT = {"dehb", "synchb", "hb-pasha-random", "hb-promotion-bayesopt", "fifo-random", "fifo-grid", "fifo-bayesopt", "hb-stopping-random", "hb-promotion-random",
             "hb-stopping-bayesopt", "hb-promotion-hypertune"}
FAST_GP = dict(opt_maxiter=3, opt_nstarts=1, num_init_candidates=15, debug_log=False)


def gen_sched_case(rng, kind, retype=False):
    gp = "bayesopt" in kind or "hypertune" in kind
    if gp and rng.random() < 0.4:
        # small finite space driven beyond its size, results partly NaN / inf (rejected as model data): the
        # configurations of such trials must stay excluded
        spec, size = small_finite_spec(rng)
        n = size + 2
        ops = [rng.choice(["suggest", "suggest", "complete", "complete", "error"]) for _ in range(n * 3)]
        return dict(kind="sched", sched=kind, spec=spec, pts=gen_points(rng, spec, build_space(spec), retype),
                    retype_trial_configs=False, seed=rng.randrange(10 ** 6), num_init_random=rng.choice([1, 2, 3]),
                    max_suggest=n, ops=ops, metrics=gen_metrics(rng, n * 4, 0.4), directed="small_finite_nonfinite_metrics")
    finite = rng.random() < (0.3 if gp else 0.5)
    spec = gen_space_spec(rng, finite_only=finite, small=False, nmax=3 if gp else 4)
    space = build_space(spec)
    n = rng.randint(6, 9) if gp else rng.randint(8, 40)
    ops = [rng.choice(["suggest", "suggest", "suggest", "report", "report", "complete", "error"]) for _ in range(n * 2)]
    return dict(kind="sched", sched=kind, spec=spec, pts=gen_points(rng, spec, space, retype),
                retype_trial_configs=bool(retype and rng.random() < 0.4), seed=rng.randrange(10 ** 6),
                num_init_random=rng.choice([1, 2, 3, 50]), max_suggest=n, ops=ops,
                corner_optimizer=bool(gp and rng.random() < 0.4),
                metrics=gen_metrics(rng, n * 4, 0.15 if gp else 0.0))


def make_scheduler(case, space):
    from syne_tune.optimizer.schedulers import FIFOScheduler, HyperbandScheduler, PopulationBasedTraining
    from syne_tune.optimizer.schedulers.synchronous import GeometricDifferentialEvolutionHyperbandScheduler
    kind, seed, pts = case["sched"], case["seed"], pts_of(case)
    so = dict(debug_log=False)
    if "bayesopt" in kind or "hypertune" in kind:
        so = dict(FAST_GP, num_init_random=case["num_init_random"])
        so.update(case.get("search_options") or {})
        if case.get("corner_optimizer") or case.get("local_minimizer") == "corner":
            so["local_minimizer_class"] = corner_optimizer_class(case["seed"])
        elif case.get("local_minimizer") == "NoOptimization":
            from syne_tune.optimizer.schedulers.searchers.bayesopt.tuning_algorithms.bo_algorithm_components import NoOptimization
            so["local_minimizer_class"] = NoOptimization
    if kind == "hb-promotion-hypertune":
        so["model"] = "gp_independent"
    common = dict(metric="m", mode=case.get("mode", "min"), random_seed=seed, points_to_evaluate=pts)
    if kind.startswith("fifo-"):
        return FIFOScheduler(space, searcher=kind[5:], search_options=so, **common)
    mra = case.get("max_resource_attr")        # name of the constant in the space which holds the maximum resource
    if kind.startswith("hb-"):
        _, typ, searcher = kind.split("-")
        lim = dict(max_resource_attr=mra) if mra else dict(max_t=9)
        extra = dict(searcher_data=case["searcher_data"]) if case.get("searcher_data") else {}
        return HyperbandScheduler(space, searcher=searcher, type=typ, resource_attr="epoch", **extra,
                                  grace_period=case.get("grace_period", 1), reduction_factor=3, brackets=2 if searcher == "hypertune" else 1,
                                  search_options=so, **lim, **common)
    if kind == "dehb":
        lim = dict(max_resource_attr=mra) if mra else dict(max_resource_level=9)
        return GeometricDifferentialEvolutionHyperbandScheduler(space, resource_attr="epoch",
                                                                grace_period=1, reduction_factor=3, **lim, **common)
    if kind == "synchb":
        from syne_tune.optimizer.schedulers.synchronous import SynchronousGeometricHyperbandScheduler
        lim = dict(max_resource_attr=mra) if mra else dict(max_resource_level=9)
        return SynchronousGeometricHyperbandScheduler(space, searcher="random", resource_attr="epoch", grace_period=1,
                                                      reduction_factor=3, search_options=dict(debug_log=False),
                                                      **lim, **common)
    if kind == "pbt":
        return PopulationBasedTraining(space, resource_attr="epoch", max_t=9, population_size=3,
                                       perturbation_interval=1, **common)
    raise AssertionError(kind)


def run_sched_case(ctx, case):
    from syne_tune.backend.trial_status import Trial
    from syne_tune.config_space import config_space_size
    quiet()
    space = build_space(case["spec"])
    kind = case["sched"]
    with contextlib.redirect_stdout(io.StringIO()):
        sch = make_scheduler(case, space)
    running, epoch, new_cfgs, viol = {}, {}, [], None
    scratch_cfgs = []
    n_resume_checked, resumed_bad = 0, False
    last_res = {}
    next_id, mi, n_sug, none_seen = 0, 0, 0, False
    metrics = case["metrics"]
    sync = kind in ("dehb", "synchb")
    mra = case.get("max_resource_attr")
    exempt = (mra,) if mra else ()      # the scheduler writes the next milestone into this constant by design
    for op in case["ops"]:
        if viol is not None:
            break
        if op == "suggest" or not running:
            if n_sug >= case["max_suggest"] or (sync and len(running) >= 3) or len(running) >= 4:
                op = "report"
            else:
                try:
                    with contextlib.redirect_stdout(io.StringIO()):
                        sg = sch.suggest(next_id)
                except AssertionError as e:
                    if sync and "must be str, int, or float" in str(e):
                        # DEHB encodes a sampled numpy-typed ordinal value before any cast and asserts on its
                        # type: a crash, not a suggestion (outside C06; noted in the evidence)
                        ctx.h("dehb_suggest_assertion_numpy_type", "cases")
                        break
                    raise
                except KeyError as e:
                    if kind == "hb-promotion-hypertune" and any(isinstance(m, str) for m in metrics):
                        # HyperTune's independent-GP posterior has no state for a rung level whose observations were
                        # all rejected as NaN / inf (posterior_state.py predict: KeyError): a crash, not a suggestion
                        ctx.h("hypertune_keyerror_rung_without_finite_data", "cases")
                        break
                    if sync and e.args == (None,):
                        # DEHB _de_mutation looks up a parent slot whose trial id is still None (results of the
                        # parent rung outstanding): a crash, not a suggestion (outside C06; noted in the evidence)
                        ctx.h("dehb_suggest_keyerror_none_parent", "cases")
                        break
                    raise
                n_sug += 1
                if sg is None:
                    none_seen = True
                    if not running:
                        break
                    op = "report"
                else:
                    if sg.config is not None:
                        # new trials AND resumed (promoted) trials whose configuration is overwritten by the suggestion
                        bad = check_suggestion(space, sg.config, exempt)
                        if bad is None and mra and not (type(sg.config[mra]) is int and 1 <= sg.config[mra] <= space[mra]):
                            bad = ("max_resource_value_invalid", "%s=%r" % (mra, sg.config[mra]))
                        if bad:
                            viol = (bad[0], ("resume suggestion for trial %s: " % sg.checkpoint_trial_id if not sg.spawn_new_trial_id
                                             else "") + bad[1])
                            resumed_bad = not sg.spawn_new_trial_id
                            break
                        if not sg.spawn_new_trial_id:
                            n_resume_checked += 1
                            if mra and sg.checkpoint_trial_id in PAUSED and list(sg.config) == list(space):
                                RESUME_TERMS.append((resume_term(space, PAUSED[sg.checkpoint_trial_id].config, mra, sg.config),
                                                     dict(case, resumed_trial=sg.checkpoint_trial_id)))
                    if sg.spawn_new_trial_id:
                        new_cfgs.append(sg.config)
                        if sg.checkpoint_trial_id is None:
                            scratch_cfgs.append(sg.config)      # started from scratch = asked from the searcher
                        back = sg.config
                        if case.get("retype_trial_configs"):
                            back = retype_config(space, sg.config, case["seed"] + next_id)
                        tr = Trial(trial_id=next_id, config=back, creation_time=T0)
                        sch.on_trial_add(tr)
                        running[next_id] = tr
                        epoch[next_id] = 0
                        next_id += 1
                    else:
                        t = sg.checkpoint_trial_id
                        # resumed trial: keep its stored trial object (config possibly overwritten)
                        if t in PAUSED:
                            tr = PAUSED.pop(t)
                            if sg.config is not None:
                                tr = Trial(trial_id=t, config=sg.config, creation_time=T0)
                            running[t] = tr
                    continue
        if not running:
            continue
        t = sorted(running)[mi % len(running)]
        tr = running[t]
        mi += 1
        if sync and op in ("error", "complete"):
            op = "report"      # synchronous schedulers: failure paths belong to C05/C13
        if op == "error":
            sch.on_trial_error(tr)
            del running[t]
            continue
        if op == "finish" and t in last_res:
            sch.on_trial_complete(tr, dict(last_res[t]))      # the script ends: completed with its last reported result
            del running[t]
            continue
        # as the Tuner does: every result goes through on_trial_result; a finished trial is then
        # completed with the result it reported last
        if op == "repeat" and t in last_res:
            res = dict(last_res[t])                           # the same epoch is reported once more
        else:
            epoch[t] += 1
            res = {"m": float(metrics[mi % len(metrics)]), "epoch": epoch[t]}
        last_res[t] = dict(res)
        dec = sch.on_trial_result(tr, res)
        if dec == "STOP":
            sch.on_trial_remove(tr)
            del running[t]
        elif dec == "PAUSE":
            sch.on_trial_remove(tr)
            PAUSED[t] = tr
            del running[t]
        elif op == "complete" or epoch[t] >= 9:
            sch.on_trial_complete(tr, res)
            del running[t]
    PAUSED.clear()
    if mra:
        ctx.h("resume_suggestions_checked", "%s: %d" % (kind, min(n_resume_checked, 5)))
    if viol is not None and resumed_bad:
        return (viol[0] + "_in_resume_suggestion", viol[1]), len(new_cfgs), 0, none_seen
    # ---- checker over the new-trial suggestions ----
    init = expected_initial(space, pts_of(case))
    size = config_space_size(space)
    if viol is None:
        # trials started from scratch (PBT's exploit/explore trials are warm-started from a checkpoint and
        # do not come from the searcher's queue of initial points)
        def same(a, b):      # DEHB keeps configurations encoded: decode(encode(x)) may differ from x in the last bits
            if kind == "dehb" and isinstance(a, float) and isinstance(b, float):
                return a == b or abs(a - b) <= 1e-9 * max(abs(a), abs(b))
            return a == b
        if kind == "dehb":
            # DEHB removes initial points which coincide in its encoded representation (equal up to round-off)
            ded = []
            for c in init:
                if not any(all(same(u, v) for u, v in zip(hp_tuple(space, c), hp_tuple(space, d))) for d in ded):
                    ded.append(c)
            init = ded
        k = min(len(scratch_cfgs), len(init))
        if not all(len(x) == len(y) and all(same(u, v) for u, v in zip(x, y)) for x, y in
                   zip([hp_tuple(space, c) for c in scratch_cfgs[:k]], [hp_tuple(space, c) for c in init[:k]])):
            viol = ("initial_points_not_first", "first suggestions %s, expected %s" % (
                [hp_tuple(space, c) for c in scratch_cfgs[:k]], [hp_tuple(space, c) for c in init[:k]]))
    if viol is None and kind in NO_REPEAT:
        tl = [hp_tuple(space, c) for c in new_cfgs]
        if len(set(tl)) != len(tl):
            viol = ("repeated_configuration", "suggestions %s" % (tl,))
    if viol is None and none_seen and kind in ("fifo-random", "fifo-bayesopt", "hb-stopping-random"):
        tsize = true_size(space)
        if tsize is None or len({hp_tuple(space, c) for c in new_cfgs if reachable(space, c)}) < tsize:
            viol = ("none_before_finite_space_exhausted",
                    "None after %d distinct of %s configurations" % (len(new_cfgs), tsize))
    return viol, len(new_cfgs), len(init), none_seen


PAUSED = {}
RESUME_TERMS = []


# --------------------------------------------------------------------------
# 4. GPFIFOSearcher behind FIFOScheduler: correspondence of the selection layer
# --------------------------------------------------------------------------
def gen_mb_case(rng, retype=False):
    finite = rng.random() < 0.5
    spec = gen_space_spec(rng, finite_only=finite, small=finite, nmax=2, consts=False)
    space = build_space(spec)
    n = rng.randint(5, 8)
    ops = [rng.choice(["suggest", "suggest", "update", "fail"]) for _ in range(n * 2)]
    return dict(kind="mb", spec=spec, pts=gen_points(rng, spec, space, retype), seed=rng.randrange(10 ** 6),
                num_init_random=rng.choice([0, 1, 2, 3, 30]), ops=ops, max_suggest=n,
                corner_optimizer=rng.random() < 0.4, metrics=gen_metrics(rng, 20, 0.25))


def run_mb_case(ctx, case):
    from syne_tune.optimizer.schedulers import FIFOScheduler
    from syne_tune.backend.trial_status import Trial
    from syne_tune.config_space import config_space_size
    from syne_tune.optimizer.schedulers.searchers.bayesopt.tuning_algorithms.bo_algorithm_components import (
        LBFGSOptimizeAcquisition)
    quiet()
    space = build_space(case["spec"])
    enc = Enc(space)
    rec = Recorder()
    pairs = []

    class RecordingOptimizer(LBFGSOptimizeAcquisition):
        def optimize(self, candidate, predictor=None):
            if case.get("corner_optimizer"):
                out = corner_of_box(self.hp_ranges, case["seed"] + len(pairs))
            else:
                out = super().optimize(candidate, predictor=predictor)
            pairs.append((dict(candidate), dict(out)))
            return out

    so = dict(FAST_GP, num_init_random=case["num_init_random"], local_minimizer_class=RecordingOptimizer)
    with rec.patch(), contextlib.redirect_stdout(io.StringIO()):
        sch = FIFOScheduler(space, searcher="bayesopt", search_options=so, metric="m", mode="min",
                            random_seed=case["seed"], points_to_evaluate=pts_of(case))
        evs, obs, running, tid, mi, n_sug, n_bo = [], [], {}, 0, 0, 0, 0
        new_cfgs = []
        viol = None
        for op in case["ops"]:
            if op == "suggest" or not running:
                if n_sug >= case["max_suggest"]:
                    continue
                n0, p0 = len(rec.log), len(pairs)
                sg = sch.suggest(tid)
                n_sug += 1
                draws = [d for d in rec.log[n0:] if d[0] == "cfg"]
                prs = pairs[p0:]
                n_bo += 1 if prs else 0
                cands = lst([enc(o) for o, _ in prs])
                tbl = lst(["(%s, %s)" % (enc(o), enc(p)) for o, p in prs])
                evs.append("(ESug %s %s %s %s)" % (zlit(tid), draws_term(enc, draws), cands, tbl))
                if sg is None:
                    obs.append("(Ok None)")
                else:
                    # the searcher's configuration = hyperparameter part of the suggestion
                    obs.append("(Ok %s)" % enc.opt(sg.config))
                    bad = check_suggestion(space, sg.config)
                    if bad and viol is None:
                        viol = bad
                    new_cfgs.append(sg.config)
                    tr = Trial(trial_id=tid, config=sg.config, creation_time=T0)
                    sch.on_trial_add(tr)
                    running[tid] = tr
                    tid += 1
            elif op == "update":
                t = sorted(running)[0]
                tr = running.pop(t)
                mv = float(case["metrics"][mi % 20])
                sch.on_trial_complete(tr, {"m": mv})
                mi += 1
                if np.isfinite(mv):
                    evs.append("(EUpd %s %s)" % (zlit(t), enc(tr.config)))
                else:       # rejected as model data: the trial stays pending (and is marked failed)
                    evs.append("(ENonFinite %s)" % zlit(t))
            elif op == "fail":
                t = sorted(running)[-1]
                tr = running.pop(t)
                sch.on_trial_error(tr)
                evs.append("(EFail %s)" % zlit(t))
    pts = pts_of(case)
    imputed = [expected_initial(space, [p])[0] for p in (pts if pts is not None else [dict()])]
    size = config_space_size(space)
    term = "(%s, %s, false, %s, %s, %s)" % (
        lst([enc(c) for c in imputed]), natlit(case["num_init_random"]),
        optlit(size if size is not None and size < 4000 else None, natlit), lst(evs), lst(obs))
    if viol is None:
        tl = [hp_tuple(space, c) for c in new_cfgs]
        if len(set(tl)) != len(tl):
            viol = ("repeated_configuration", "suggestions %s" % (tl,))
    return term, viol, n_bo


# --------------------------------------------------------------------------
# 4b. GPFIFOSearcher.get_batch_configs on small finite spaces (greedy batch selection)
# --------------------------------------------------------------------------
def enum_values(dom):
    from syne_tune.config_space import Categorical, FiniteRange, Integer
    if isinstance(dom, Categorical):
        return list(dict.fromkeys(dom.categories))
    if isinstance(dom, FiniteRange):
        return list(dict.fromkeys(dom.values))
    if isinstance(dom, Integer):
        return list(range(dom.lower, dom.upper + 1))
    raise AssertionError(dom)


def gen_batch_case(rng):
    import itertools
    while True:
        doms = []
        for _ in range(rng.randint(1, 2)):
            doms.append(rng.choice([["randint", 0, rng.randint(1, 3)], ["choice", rng.choice([["a", "b"], ["x", "y", "z"]])],
                                    ["ordinal", [1, 2, 4], rng.choice([None, "equal"])],
                                    ["finrange", 0.0, 1.0, rng.randint(2, 3), False], ["randint", 5, 5]]))
        spec = [["h%d" % i, "dom", d] for i, d in enumerate(doms)]
        space = build_space(spec)
        total = 1
        for d in space.values():
            total *= len(enum_values(d))
        if 3 <= total <= 12:
            break
    left = rng.randint(0, min(3, total - 2))
    order = list(range(total))
    rng.shuffle(order)
    # what happened to the configurations tried before: observed (at least two), failed or still pending
    fates = ["obs", "obs"] + [rng.choice(["obs", "obs", "obs", "failed", "pending"]) for _ in range(total)]
    return dict(kind="batch", spec=spec, order=order, left=left, fates=fates[:total - left], batch_size=rng.randint(2, 4),
                seed=rng.randrange(10 ** 6), num_init_random=rng.choice([0, 1, 2]), metrics=[round(rng.uniform(0, 1), 3) for _ in range(total)])


def run_batch_case(ctx, case):
    import itertools
    from syne_tune.optimizer.schedulers.searchers import GPFIFOSearcher
    from syne_tune.optimizer.schedulers.searchers.utils.hp_ranges import HyperparameterRanges
    from syne_tune.optimizer.schedulers.searchers.bayesopt.tuning_algorithms.bo_algorithm_components import (
        LBFGSOptimizeAcquisition)
    from syne_tune.config_space import config_space_size
    quiet()
    space = build_space(case["spec"])
    enc = Enc(space)
    keys = list(space)
    allc = [dict(zip(keys, vals)) for vals in itertools.product(*[enum_values(space[k]) for k in keys])]
    allc = [allc[i] for i in case["order"]]
    tried = allc[:len(allc) - case["left"]]
    pairs, marks = [], []

    class RecordingOptimizer(LBFGSOptimizeAcquisition):
        def optimize(self, candidate, predictor=None):
            out = super().optimize(candidate, predictor=predictor)
            pairs.append((dict(candidate), dict(out)))
            return out
    orig_bulk = HyperparameterRanges.random_configs

    def bulk(hp_self, random_state, num_configs):
        marks.append(len(pairs))        # a new greedy iteration generates its candidates
        return orig_bulk(hp_self, random_state, num_configs)
    with contextlib.redirect_stdout(io.StringIO()):
        s = GPFIFOSearcher(space, metric="m", points_to_evaluate=[], random_seed=case["seed"],
                           num_init_random=case["num_init_random"], local_minimizer_class=RecordingOptimizer, **FAST_GP)
        for t, (c, fate) in enumerate(zip(tried, case["fates"])):
            s.register_pending(trial_id=str(t), config=c)
            if fate == "obs":
                s.on_trial_result(str(t), c, result={"m": case["metrics"][t]}, update=True)
            elif fate == "failed":
                s.evaluation_failed(str(t))
        with mock.patch.object(HyperparameterRanges, "random_configs", bulk):
            batch = s.get_batch_configs(batch_size=case["batch_size"])
    # ---- independent checker ----
    viol = None
    seen = [hp_tuple(space, c) for c in tried]
    for c in batch:
        bad = check_suggestion(space, as_scheduler_would(space, c))
        t = hp_tuple(space, c)
        if bad and viol is None:
            viol = bad
        if t in seen and viol is None:
            viol = ("repeated_configuration_in_batch", "batch %s, tried before %s" % ([hp_tuple(space, x) for x in batch], seen[:len(tried)]))
        seen.append(t)
    want = min(case["batch_size"], case["left"])
    if viol is None and len(batch) != want:
        viol = ("batch_size_differs_from_remaining" if len(batch) < want else "batch_larger_than_remaining_space",
                "batch of %d for request %d with %d configurations left" % (len(batch), case["batch_size"], case["left"]))
    # ---- model term: iterations = segments of the optimiser calls between candidate generations ----
    cuts = sorted(set(marks + [len(pairs)]))
    segs = [pairs[a:b] for a, b in zip([0] + cuts, cuts) if b > a]
    its = lst(["(%s, %s)" % (lst([enc(o) for o, _ in seg]), lst(["(%s, %s)" % (enc(o), enc(p)) for o, p in seg])) for seg in segs])
    mids = []
    for c in tried:
        enc(c)
        m = enc.mids[enc.hp.config_to_match_string(c)]
        if m not in mids:
            mids.append(m)
    size = config_space_size(space)
    term = "(%s, %s, %s, %s, %s)" % (optlit(size, natlit), natlit(case["batch_size"]), lst([str(m) for m in mids]), its,
                                     lst([enc(c) for c in batch]))
    return term, viol, len(batch)


def gen_batch_mixed_case(rng):
    import itertools
    spec, size = small_finite_spec(rng)
    space = build_space(spec)
    keys = list(space)
    allc = [dict(zip(keys, vals)) for vals in itertools.product(*[enum_values(space[k]) for k in keys])]
    rng.shuffle(allc)
    npts = rng.randint(1, min(4, size))
    n_before = rng.randint(0, max(0, size - 2))      # single suggestions before the batch (consume some initial points)
    return dict(kind="batch_mixed", spec=spec, pts=allc[:npts], n_before=n_before, batch_size=rng.randint(2, 6),
                fates=[rng.choice(["obs", "obs", "pending", "failed", "none"]) for _ in range(size)],
                mf=rng.random() < 0.4, num_init_random=rng.choice([0, 1, 2, 3, 6]), seed=rng.randrange(10 ** 6),
                metrics=gen_metrics(rng, size + 2))


def run_batch_mixed_case(ctx, case):
    from syne_tune.optimizer.schedulers import FIFOScheduler, HyperbandScheduler
    from syne_tune.optimizer.schedulers.searchers.utils.hp_ranges import HyperparameterRanges
    from syne_tune.optimizer.schedulers.searchers.bayesopt.tuning_algorithms.bo_algorithm_components import (
        LBFGSOptimizeAcquisition)
    from syne_tune.config_space import config_space_size
    quiet()
    space = build_space(case["spec"])
    enc = Enc(space)
    rec = Recorder()
    pairs, marks = [], []

    class RecordingOptimizer(LBFGSOptimizeAcquisition):
        def optimize(self, candidate, predictor=None):
            out = super().optimize(candidate, predictor=predictor)
            pairs.append((dict(candidate), dict(out)))
            return out
    orig_bulk = HyperparameterRanges.random_configs

    def bulk(hp_self, random_state, num_configs):
        marks.append(len(pairs))
        return orig_bulk(hp_self, random_state, num_configs)
    so = dict(FAST_GP, num_init_random=case["num_init_random"], local_minimizer_class=RecordingOptimizer)
    evs = []
    with contextlib.redirect_stdout(io.StringIO()):
        if case["mf"]:
            sch = HyperbandScheduler(space, searcher="bayesopt", type="stopping", resource_attr="epoch", max_t=9, grace_period=1,
                                     reduction_factor=3, search_options=so, metric="m", mode="min", random_seed=case["seed"],
                                     points_to_evaluate=case["pts"])
        else:
            sch = FIFOScheduler(space, searcher="bayesopt", search_options=so, metric="m", mode="min",
                                random_seed=case["seed"], points_to_evaluate=case["pts"])
        s = sch.searcher                      # public property; the searcher API is driven directly
        s.configure_scheduler(sch)
        earlier = []
        patches = contextlib.ExitStack()
        patches.enter_context(rec.patch())
        patches.enter_context(mock.patch.object(HyperparameterRanges, "random_configs", bulk))
        for t in range(case["n_before"]):
            n0, p0 = len(rec.log), len(pairs)
            c = s.get_config(trial_id=str(t)) if not case["mf"] else s.get_config(trial_id=str(t), milestone=1)
            prs = pairs[p0:]
            sug = "%s %s %s" % (draws_term(enc, [d for d in rec.log[n0:] if d[0] == "cfg"]), lst([enc(o) for o, _ in prs]),
                                lst(["(%s, %s)" % (enc(o), enc(q)) for o, q in prs]))
            if c is None:
                evs.append("(EGetOnly %s)" % sug)
                break
            earlier.append(c)
            fate = case["fates"][t]
            evs.append("(EGetOnly %s)" % sug if fate == "none" else "(E2 (ESug %s %s))" % (zlit(t), sug))
            if fate == "obs":
                evs.append("(E2 (EUpd %s %s))" % (zlit(t), enc(c)))
            elif fate == "failed":
                evs.append("(E2 (EFail %s))" % zlit(t))
            if fate == "none":
                continue                       # suggested, trial not started yet (batch suggestions of a scheduler)
            s.register_pending(str(t), config=c, milestone=1) if case["mf"] else s.register_pending(str(t), config=c)
            if fate == "obs":
                s.on_trial_result(str(t), c, result={"m": float(case["metrics"][t]) if not isinstance(case["metrics"][t], str) else 0.5,
                                                     "epoch": 1}, update=True)
            elif fate == "failed":
                s.evaluation_failed(str(t))
        registered = [hp_tuple(space, c) for c, f in zip(earlier, case["fates"]) if f != "none"]
        kwargs = dict(milestone=1) if case["mf"] else {}
        n0, p0 = len(rec.log), len(pairs)
        del marks[:]
        batch = s.get_batch_configs(batch_size=case["batch_size"], **kwargs)
        patches.close()
    term = None
    if not case["mf"]:
        bp = pairs[p0:]
        cuts = sorted(set([m - p0 for m in marks if m >= p0] + [len(bp)]))
        segs = [bp[a:b] for a, b in zip([0] + cuts, cuts) if b > a]
        its = lst(["(%s, %s)" % (lst([enc(o) for o, _ in seg]), lst(["(%s, %s)" % (enc(o), enc(q)) for o, q in seg])) for seg in segs])
        size = config_space_size(space)
        imputed = [expected_initial(space, [p])[0] for p in case["pts"]]
        term = "(%s, %s, %s, %s, %s, %s, %s, %s)" % (
            lst([enc(c) for c in imputed]), natlit(case["num_init_random"]), optlit(size, natlit), lst(evs),
            natlit(case["batch_size"]), draws_term(enc, [d for d in rec.log[n0:] if d[0] == "cfg"]), its,
            lst([enc(c) for c in batch]))
    viol = None
    seen = list(registered)     # observed / pending / failed configurations
    for c in batch:
        bad = check_suggestion(space, as_scheduler_would(space, c))
        t = hp_tuple(space, c)
        if bad and viol is None:
            viol = bad
        if t in seen and viol is None:
            viol = ("repeated_configuration_in_batch", "batch %s; observed/pending/failed before: %s" % (
                [hp_tuple(space, x) for x in batch], registered))
        seen.append(t)
    if viol is None and len(batch) > case["batch_size"]:
        viol = ("batch_larger_than_requested", "%d > %d" % (len(batch), case["batch_size"]))
    return viol, len(batch), len(earlier), term


# --------------------------------------------------------------------------
# 4c. restrict_configurations: the SAME list object handed to two searchers / schedulers
# --------------------------------------------------------------------------
def gen_shared_case(rng):
    import itertools
    spec, size = small_finite_spec(rng)
    space = build_space(spec)
    keys = list(space)
    allc = [dict(zip(keys, vals)) for vals in itertools.product(*[enum_values(space[k]) for k in keys])]
    rng.shuffle(allc)
    return dict(kind="shared", spec=spec, restrict=allc[:rng.randint(2, max(2, min(6, size - 1)))],
                via=rng.choice(["random-direct", "fifo-random", "fifo-bayesopt", "hb-stopping-random"]),
                pts=rng.choice([[], None]), seed=rng.randrange(10 ** 6), metrics=gen_metrics(rng, 12))


def run_shared_case(ctx, case):
    import copy as _copy
    from syne_tune.optimizer.schedulers import FIFOScheduler, HyperbandScheduler
    from syne_tune.optimizer.schedulers.searchers import RandomSearcher
    from syne_tune.backend.trial_status import Trial
    quiet()
    space = build_space(case["spec"])
    shared = [dict(c) for c in case["restrict"]]       # ONE list object for both consumers
    before = _copy.deepcopy(shared)
    member = {hp_tuple(space, c) for c in before}
    via, viols = case["via"], []

    def make(seed):
        common = dict(metric="m", mode="min", random_seed=seed, points_to_evaluate=case["pts"])
        if via == "random-direct":
            return RandomSearcher(space, metric="m", points_to_evaluate=case["pts"], random_seed=seed,
                                  restrict_configurations=shared)
        if via == "fifo-random":
            return FIFOScheduler(space, searcher="random", search_options=dict(debug_log=False, restrict_configurations=shared), **common)
        if via == "fifo-bayesopt":
            return FIFOScheduler(space, searcher="bayesopt", search_options=dict(
                FAST_GP, num_init_random=2, restrict_configurations=shared), **common)
        return HyperbandScheduler(space, searcher="random", type="stopping", resource_attr="epoch", max_t=3, grace_period=1,
                                  reduction_factor=3, search_options=dict(debug_log=False, restrict_configurations=shared),
                                  **common)
    for who in ("first", "second"):
        sig = dict(searcher=via, shared_list=True, consumer=who, points_to_evaluate="empty" if case["pts"] == [] else "default")
        try:
            with contextlib.redirect_stdout(io.StringIO()):
                obj = make(case["seed"] + (0 if who == "first" else 1))
        except AssertionError:
            # the constructor refuses an empty list: the previous consumer emptied the caller's list
            viols.append((dict(sig, event="none_before_restricted_set_exhausted", constructor_rejected_list=True),
                          "%s consumer cannot be built: the caller's restrict_configurations has %d of %d entries left" % (
                              who, len(shared), len(before))))
            break
        with contextlib.redirect_stdout(io.StringIO()):
            got, none_seen, raised = [], False, None
            for i in range(len(before) + 3):
                if via == "random-direct":
                    c = obj.get_config(trial_id=str(i))
                else:
                    try:
                        sg = obj.suggest(i)
                    except (ValueError, AttributeError, IndexError, KeyError) as e:
                        raised = type(e).__name__
                        break
                    c = None if sg is None else sg.config
                    if sg is not None:
                        tr = Trial(trial_id=i, config=sg.config, creation_time=T0)
                        obj.on_trial_add(tr)
                        res = {"m": float(case["metrics"][i % 12]) if not isinstance(case["metrics"][i % 12], str) else 0.5,
                               "epoch": 1}
                        if obj.on_trial_result(tr, res) == "CONTINUE":
                            obj.on_trial_complete(tr, res)
                        else:
                            obj.on_trial_remove(tr)
                if c is None:
                    none_seen = True
                    break
                got.append(hp_tuple(space, c))
        if any(t not in member for t in got):
            viols.append((dict(sig, event="suggestion_outside_restricted_set"), "%s consumer suggested %s, restricted set %s" % (who, got, sorted(member, key=repr))))
        elif len(set(got)) != len(got):
            viols.append((dict(sig, event="repeated_configuration"), "%s consumer suggested %s" % (who, got)))
        elif raised is not None:
            viols.append((dict(sig, event="exception_instead_of_nothing_left" if set(got) == member else "exception_before_restricted_set_exhausted",
                               exception=raised),
                          "%s consumer: suggest raised %s after %s of the restricted set %s" % (who, raised, got, sorted(member, key=repr))))
        elif none_seen and set(got) != member:
            viols.append((dict(sig, event="none_before_restricted_set_exhausted"),
                          "%s consumer answered None after %s of the restricted set %s" % (who, got, sorted(member, key=repr))))
        if shared != before:
            viols.append((dict(sig, event="caller_list_modified"),
                          "restrict_configurations of the caller changed from %d to %d entries after the %s consumer" % (
                              len(before), len(shared), who)))
    return viols


# --------------------------------------------------------------------------
# 4d. large finite space, almost used up through points_to_evaluate (most trials fail), then GP-BO to exhaustion
# --------------------------------------------------------------------------
def gen_large_case(rng):
    n = rng.choice([600, 700])
    left = sorted(rng.sample(range(n), rng.randint(2, 6)))
    return dict(kind="large", n=n, left=left, seed=rng.randrange(10 ** 6), observed_every=rng.choice([150, 200]))


def run_large_case(ctx, case):
    from syne_tune.optimizer.schedulers import FIFOScheduler
    from syne_tune.backend.trial_status import Trial
    from syne_tune.config_space import randint
    quiet()
    n, left = case["n"], set(case["left"])
    space = {"x": randint(0, n - 1), "epochs": 3}
    initial = [{"x": x} for x in range(n) if x not in left]
    with contextlib.redirect_stdout(io.StringIO()):
        sch = FIFOScheduler(space, searcher="bayesopt", metric="m", mode="min", random_seed=case["seed"],
                            points_to_evaluate=initial,
                            search_options=dict(debug_log=False, num_init_random=2, opt_maxiter=3, opt_nstarts=1))
        seen, t, viol = [], 0, None
        while t <= n + 2:
            sg = sch.suggest(t)
            if sg is None:
                break
            bad = check_suggestion(space, sg.config)
            x = sg.config.get("x")
            if bad:
                viol = bad
                break
            if x in seen:
                viol = ("repeated_configuration", "x=%r suggested twice (trial %d)" % (x, t))
                break
            seen.append(x)
            tr = Trial(trial_id=t, config=sg.config, creation_time=T0)
            sch.on_trial_add(tr)
            if t % case["observed_every"] == 7 or t >= len(initial):
                res = {"m": ((x - 321) / n) ** 2}
                sch.on_trial_result(tr, res)
                sch.on_trial_complete(tr, res)
            else:
                sch.on_trial_error(tr)        # failed: never again, and no data for the model
            t += 1
    if viol is None and seen[:len(initial)] != [c["x"] for c in initial][:len(seen)]:
        viol = ("initial_points_not_first", "first difference at %d" % next(i for i, (a, b) in enumerate(zip(seen, initial)) if a != b["x"]))
    if viol is None and len(seen) < n:
        viol = ("none_before_finite_space_exhausted", "None after %d distinct of %d configurations (model-based phase)" % (len(seen), n))
    return viol, len(seen)


# --------------------------------------------------------------------------
# 4e. points_to_evaluate entries a few ulps / 1e-9 OUTSIDE a float domain: rejected at construction or clipped,
#     never suggested as they are
# --------------------------------------------------------------------------
def gen_outside_case(rng):
    lo, hi = rng.choice([[0.1, 0.3], [0.1, 0.7], [0.0, 1.0], [1e-3, 0.3]])
    kind = rng.choice(["uniform", "loguniform"]) if lo > 0 else "uniform"
    how = rng.choice(["sum", "ulp_up", "ulp_down", "eps_up", "eps_down"])
    v = {"sum": 0.1 + 0.2 if hi == 0.3 else float(np.nextafter(hi, np.inf)), "ulp_up": float(np.nextafter(hi, np.inf)),
         "ulp_down": float(np.nextafter(lo, -np.inf)), "eps_up": hi + 1e-9, "eps_down": lo - 1e-9}[how]
    return dict(kind="outside", spec=[["lr", "dom", [kind, lo, hi]], ["n", "dom", ["randint", 1, 4]], ["seed", "const", 7]],
                value=v, via=rng.choice(["random-direct", "grid-direct", "fifo-random", "fifo-bayesopt", "hb-stopping-random", "dehb"]),
                seed=rng.randrange(10 ** 6), how=how)


def run_outside_case(ctx, case):
    from syne_tune.optimizer.schedulers.searchers import RandomSearcher, GridSearcher
    quiet()
    space = build_space(case["spec"])
    pts = [{"lr": case["value"], "n": 2}, {"n": 3}]
    via = case["via"]
    try:
        with contextlib.redirect_stdout(io.StringIO()):
            if via == "random-direct":
                obj = RandomSearcher(space, metric="m", points_to_evaluate=pts, random_seed=case["seed"])
            elif via == "grid-direct":
                obj = GridSearcher(space, metric="m", points_to_evaluate=pts, random_seed=case["seed"])
            else:
                obj = make_scheduler(dict(sched=via, seed=case["seed"], pts=pts, num_init_random=2), space)
    except AssertionError:
        return None, "rejected_at_construction"
    outs = []
    with contextlib.redirect_stdout(io.StringIO()):
        for i in range(3):
            if via.endswith("-direct"):
                c = obj.get_config(trial_id=str(i))
                c = None if c is None else as_scheduler_would(space, c)
            else:
                sg = obj.suggest(i)
                c = None if sg is None else sg.config
            if c is None:
                break
            outs.append(c)
    for c in outs:
        bad = check_suggestion(space, c)
        if bad:
            return (bad[0], "points_to_evaluate entry lr=%r (%s) accepted: %s" % (case["value"], case["how"], bad[1])), "suggested"
    return None, "accepted_and_valid"


# --------------------------------------------------------------------------
# 5. _postprocess_config unit cases
# --------------------------------------------------------------------------
def resume_term(space, stored, mra, out):
    """model input for a resume suggestion: the trial's stored hyperparameter values, the milestone found under
    max_resource_attr, and the configuration the scheduler suggested"""
    from syne_tune.config_space import Domain
    keys = {k: i for i, k in enumerate(space)}
    vids = {}

    def vid(v):
        return vids.setdefault((type(v).__name__, repr(v)), len(vids))
    sp_t = lst(["(%d, %s)" % (keys[k], ("EDom %d" % keys[k]) if isinstance(d, Domain) else "EConst %d" % vid(d))
                for k, d in space.items()])
    hp = {k: stored[k] for k, d in space.items() if isinstance(d, Domain) and k in stored}
    cfg_t = lst(["(%d, %d)" % (keys[k], vid(v)) for k, v in hp.items()])
    tbl = lst(["(%d, %d, %d)" % (keys[k], vid(v), vid(space[k].cast(v))) for k, v in hp.items()])
    obs = lst(["(%d, (false, %d))" % (keys[k], keys[k]) if isinstance(v, Domain) else "(%d, (true, %d))" % (keys[k], vid(v))
               for k, v in out.items() if k in keys])
    return "(%s, %s, %d, %d, %s, %s)" % (sp_t, cfg_t, keys[mra], vid(out.get(mra)), tbl, obs)


def run_pp_case(ctx, rng):
    from syne_tune.optimizer.scheduler import TrialScheduler
    from syne_tune.config_space import Domain
    spec = gen_space_spec(rng)
    space = build_space(spec)
    sch = TrialScheduler(space)
    keys = {k: i for i, k in enumerate(space)}
    cfg = {}
    for k, d in space.items():
        r = rng.random()
        if isinstance(d, Domain):
            if r < 0.85:
                v = d.sample(random_state=np.random.RandomState(rng.randrange(10 ** 6)))
                cfg[k] = v.item() if hasattr(v, "item") else v
        elif r < 0.4:
            cfg[k] = d
    if rng.random() < 0.3:
        cfg["not_in_space"] = 1
    out = sch._postprocess_config(dict(cfg))
    vids = {}

    def vid(v):
        return vids.setdefault((type(v).__name__, repr(v)), len(vids))
    dids = {k: i for i, k in enumerate(space)}
    sp_t = lst(["(%d, %s)" % (keys[k], ("EDom %d" % dids[k]) if isinstance(d, Domain) else "EConst %d" % vid(d))
                for k, d in space.items()])
    extra = 1000
    cfg_t = lst(["(%d, %d)" % (keys.get(k, extra), vid(v)) for k, v in cfg.items()])
    tbl = lst(["(%d, %d, %d)" % (dids[k], vid(cfg[k]), vid(space[k].cast(cfg[k])))
               for k, d in space.items() if isinstance(d, Domain) and k in cfg])
    obs = []
    for k, v in out.items():
        if isinstance(v, Domain):
            obs.append("(%d, (false, %d))" % (keys[k], dids[k]))
        else:
            obs.append("(%d, (true, %d))" % (keys[k], vid(v)))
    return "(%s, %s, %s, %s)" % (sp_t, cfg_t, tbl, lst(obs)), dict(spec=spec, cfg={k: repr(v) for k, v in cfg.items()})


# --------------------------------------------------------------------------
SEARCHER_OF = {"hb-pasha-random": "RandomSearcher", "synchb": "RandomSearcher", "hb-promotion-bayesopt": "GPMultiFidelitySearcher",
               "fifo-random": "RandomSearcher", "hb-stopping-random": "RandomSearcher",
               "hb-promotion-random": "RandomSearcher", "fifo-grid": "GridSearcher",
               "fifo-bayesopt": "GPFIFOSearcher", "hb-stopping-bayesopt": "GPMultiFidelitySearcher",
               "hb-promotion-hypertune": "HyperTuneSearcher", "dehb": "DEHB sampler", "pbt": "PBT explore"}


def finite_range_collides(space):
    from syne_tune.config_space import FiniteRange
    return any(isinstance(d, FiniteRange) and len(set(d.values)) < len(d.values) for d in space.values())


def report(ctx, viol, case, searcher):
    event, detail = viol
    via = "direct"
    if searcher in SEARCHER_OF:
        via, searcher = searcher, SEARCHER_OF[searcher]
    sig = dict(searcher=searcher, event=event, via=via)
    if event == "repeated_configuration":
        sig["finite_range_values_collide"] = finite_range_collides(build_space(case["spec"]))
        if case.get("kind") == "sched":
            sig["nonfinite_metrics"] = any(isinstance(m, str) for m in case.get("metrics", []))
            sig["multi_fidelity"] = via.startswith("hb-")
    ctx.violation("property", "%s (%s): %s — %s" % (searcher, via, event, detail), case=case, signature=sig)


def exhaustion_cases(ctx, rng):
    """finite spaces driven until 'nothing left' (directed at sample_random_configuration's retry budget)"""
    out = []
    for _ in range(ctx.n(3, 12)):
        n = rng.choice([60, 120, 200, 300])
        spec = [["x", "dom", ["randint", 0, n - 1]]]
        out.append(dict(kind="rs", spec=spec, pts=[], restrict=None, allow_dup=False, debug=False,
                        seed=rng.randrange(10 ** 6), ops=["get"] * (n + 2)))
    for _ in range(ctx.n(6, 30)):
        spec = gen_space_spec(rng, finite_only=True, small=True, nmax=2)
        out.append(dict(kind="rs", spec=spec, pts=gen_points(rng, spec, build_space(spec), True), restrict=None,
                        allow_dup=False, debug=False, seed=rng.randrange(10 ** 6), ops=["get"] * 40))
    return out


def run(ctx, replay=None):
    rng = ctx.rng
    ctx.rule = ("cases: configuration spaces from all public constructors (uniform, loguniform, randint, lograndint, "
                "choice, ordinal, finrange, logfinrange, quantised, constants, single-value domains), "
                "points_to_evaluate None/empty/partial/duplicated, event histories (get_config / register_pending / "
                "evaluation_failed / update; scheduler suggest/report/complete/error) for RandomSearcher (incl. "
                "restrict_configurations), GridSearcher, FIFO/Hyperband/DEHB/PBT schedulers, GP searchers; "
                "non-trivial = the history goes beyond the initial points and has >= 2 initial points, a None answer, "
                "a model-based decision or restrict_configurations; distinct by content hash")
    if replay is not None:
        cases = [replay]
    else:
        cases = [gen_rs_case(rng, True) for _ in range(ctx.n(160, 1500))] + exhaustion_cases(ctx, rng)
        cases += [gen_gs_case(rng, True) for _ in range(ctx.n(120, 1200))]
        cases += [gen_gs_on_grid_case(rng) for _ in range(ctx.n(40, 300))]
        # minimal input of known finding F-C06-2 (finrange with colliding rounded values), run every time
        cases.append(dict(kind="gs", spec=[["x", "dom", ["finrange", 0.0, 2.0, 5, True]]], pts=[], shuffle=False,
                          allow_dup=False, seed=0, num_samples=None, ops=[True] * 6))
        for kind in SCHED_KINDS:
            gp = "bayesopt" in kind or "hypertune" in kind
            cases += [gen_sched_case(rng, kind, True) for _ in range(ctx.n(8 if gp else 30, 30 if gp else 250))]
        cases += [gen_mb_case(rng, True) for _ in range(ctx.n(24, 100))]
        cases += [gen_batch_case(rng) for _ in range(ctx.n(40, 300))]
        cases += [gen_shared_case(rng) for _ in range(ctx.n(40, 300))]
        cases += [gen_batch_mixed_case(rng) for _ in range(ctx.n(60, 400))]
        cases += [gen_large_case(rng) for _ in range(ctx.n(2, 8))]
        cases += [gen_outside_case(rng) for _ in range(ctx.n(30, 200))]
        # directed: initial points ON the bounds of domains whose bounds do not round-trip through log/exp (DEHB keeps
        # them encoded), and a box-corner local optimiser on such domains (decoding of encoded 0.0 / 1.0)
        odd = [["lr", "dom", ["loguniform", 1e-6, 0.1]], ["wd", "dom", ["loguniform", 1e-5, 1e-2]],
               ["mom", "dom", ["uniform", 0.1, 0.7]], ["layers", "dom", ["randint", 1, 4]], ["epochs", "const", 9]]
        cases.append(dict(kind="sched", sched="dehb", spec=odd, retype_trial_configs=False, seed=rng.randrange(10 ** 6),
                          pts=[{"lr": 0.1, "wd": 1e-2, "mom": 0.7, "layers": 4}, {"lr": 1e-6, "wd": 1e-5, "mom": 0.1, "layers": 1},
                               {"lr": 0.1, "wd": 1e-5}], num_init_random=2, max_suggest=6, ops=["suggest", "report"] * 8,
                          metrics=gen_metrics(rng, 16)))
        # pause/resume schedulers with max_resource_attr and constants in the space: histories reaching promotions
        for kind in ("hb-promotion-random", "hb-pasha-random", "hb-promotion-bayesopt", "dehb", "synchb"):
            for _ in range(ctx.n(3 if "bayesopt" in kind else 6, 30)):
                spec = gen_space_spec(rng, finite_only=False, nmax=2, consts=False)
                for nm, v in rng.sample([["dataset", "cifar"], ["seed", 7], ["gamma", 0.5]], rng.randint(1, 3)):
                    spec.insert(rng.randint(0, len(spec)), [nm, "const", v])
                spec.insert(rng.randint(0, len(spec)), ["epochs", "const", 9])
                n = 8 if "bayesopt" in kind else rng.randint(10, 20)
                cases.append(dict(kind="sched", sched=kind, spec=spec, pts=gen_points(rng, spec, build_space(spec), True),
                                  retype_trial_configs=False, seed=rng.randrange(10 ** 6), num_init_random=rng.choice([2, 50]),
                                  max_suggest=n, ops=[rng.choice(["suggest", "report", "report", "report"]) for _ in range(n * 8)],
                                  metrics=gen_metrics(rng, n * 4), max_resource_attr="epochs",
                                  directed="pause_resume_with_max_resource_attr"))
        for kind in ("fifo-random", "fifo-bayesopt", "hb-stopping-random", "pbt"):
            for _ in range(ctx.n(2, 10)):       # quantised float domains: draws which round onto the upper bound
                cases.append(dict(kind="sched", sched=kind, retype_trial_configs=False, seed=rng.randrange(10 ** 6), pts=[],
                                  spec=[["a", "dom", ["quniform", 0.1, 0.3, 0.1]], ["b", "dom", ["qloguniform", 0.1, 0.7, 0.1]],
                                        ["c", "dom", ["uniform", 0.0, 1.0]]],
                                  num_init_random=50 if kind != "fifo-bayesopt" else 3, max_suggest=12 if kind != "fifo-bayesopt" else 7,
                                  ops=[rng.choice(["suggest", "suggest", "report", "complete"]) for _ in range(40)],
                                  metrics=gen_metrics(rng, 40), directed="quantised_float_bounds"))
        # quantised integer domains with off-quantum initial points, run until 'nothing left'
        for via in ("rs", "fifo-random", "fifo-bayesopt"):
            for _ in range(ctx.n(2, 8)):
                q = rng.choice([5, 4])
                spec = [["x", "dom", ["qrandint", 0, 2 * q, q]]] + ([["c", "dom", ["choice", ["a", "b"]]]] if rng.random() < 0.5 else [])
                offs = [{"x": v} for v in rng.sample([v for v in range(1, 2 * q) if v % q != 0], 3)]
                if via == "rs":
                    cases.append(dict(kind="rs", spec=spec, pts=offs, restrict=None, allow_dup=False, debug=False,
                                      seed=rng.randrange(10 ** 6), ops=["get"] * 14, directed="quantised_int_off_quantum_points"))
                else:
                    cases.append(dict(kind="sched", sched=via, spec=spec, pts=offs, retype_trial_configs=False,
                                      seed=rng.randrange(10 ** 6), num_init_random=2, max_suggest=14,
                                      ops=["suggest", "complete"] * 16, metrics=gen_metrics(rng, 20),
                                      directed="quantised_int_off_quantum_points"))
        # searcher_data='rungs_and_last': a trial reports the same non-rung epoch twice and terminates
        for kind in ("hb-stopping-bayesopt", "hb-promotion-bayesopt"):
            for _ in range(ctx.n(3, 10)):
                spec, size = small_finite_spec(rng)
                first = rng.choice([["suggest", "report", "repeat", "finish"], ["suggest", "report", "report", "repeat", "finish"]])
                ops = first + ["suggest", "report", "report", "report", "finish"] * (size + 2)
                cases.append(dict(kind="sched", sched=kind, spec=spec, pts=[], retype_trial_configs=False,
                                  seed=rng.randrange(10 ** 6), num_init_random=2, max_suggest=size + 3, ops=ops,
                                  searcher_data="rungs_and_last", grace_period=3, metrics=gen_metrics(rng, 30),
                                  directed="rungs_and_last_same_epoch_twice"))
        for _ in range(ctx.n(10, 40)):     # DEHB driven until a 30-configuration space is (almost) used up
            cases.append(dict(kind="sched", sched="dehb", retype_trial_configs=False, seed=rng.randrange(10 ** 6), pts=[],
                              spec=[["a", "dom", ["randint", 0, 5]], ["b", "dom", ["choice", ["0", "1", "2", "3", "4"]]]],
                              num_init_random=2, max_suggest=80, ops=(["suggest"] + ["report"] * 9) * 70,
                              metrics=gen_metrics(rng, 40), directed="dehb_small_space_until_used_up"))
        for sp in ([["lr", "dom", ["loguniform", 1e-6, 0.1]], ["wd", "dom", ["loguniform", 1e-5, 1e-2]]],
                   [["a", "dom", ["loguniform", 0.3, 30.0]], ["b", "dom", ["reverseloguniform", 0.1, 0.9]]]):
            cases.append(dict(kind="mb", spec=sp, pts=[], seed=rng.randrange(10 ** 6), num_init_random=1,
                              ops=["suggest", "update"] * 6, max_suggest=6, corner_optimizer=True, metrics=gen_metrics(rng, 20)))
        cases += [dict(kind="pp", seed=rng.randrange(10 ** 9)) for _ in range(ctx.n(150, 1500))]
    rs_terms, rs_meta, gs_terms, gs_meta, prod_terms, prod_meta, mb_terms, mb_meta, pp_terms, pp_meta = ([] for _ in range(10))
    bt_terms, bt_meta = [], []
    mbt_terms, mbt_meta = [], []
    for case in cases:
        k = case["kind"]
        for pt in (case.get("pts") or []):
            for v in pt.values():
                if isinstance(v, dict) and "__t" in v:
                    ctx.h("retyped_point_values", "%s for %s" % (v["__t"], type(v["v"]).__name__))
        if case.get("retype_trial_configs"):
            ctx.h("retyped_trial_configs", case["sched"])
        if case.get("corner_optimizer"):
            ctx.h("corner_local_optimizer", case.get("sched", k))
        if any(isinstance(m, str) for m in case.get("metrics", [])):
            ctx.h("nonfinite_metrics", case.get("sched", k) + ("/small_finite" if case.get("directed") else ""))
        if k == "rs":
            term, viol, nontriv, info = run_rs_case(ctx, case)
            ctx.count(case, nontrivial=nontriv)
            ctx.h("random_searcher", "restrict" if case["restrict"] is not None else
                  ("allow_dup" if case["allow_dup"] else "plain"))
            ctx.h("random_none_answers", min(info["n_none"], 3))
            if viol:
                report(ctx, viol, case, "RandomSearcher")
            rs_terms.append(term)
            rs_meta.append(case)
        elif k == "gs":
            term, prod, viol, nontriv = run_gs_case(ctx, case)
            ctx.count(case, nontrivial=nontriv)
            ctx.h("grid_searcher", ("shuffle" if case["shuffle"] else "product") + ("+dup" if case["allow_dup"] else "") +
                  ("+on_grid_points+restore" if case.get("on_grid") else ""))
            if viol:
                report(ctx, viol, case, "GridSearcher")
            gs_terms.append(term)
            gs_meta.append(case)
            if finite_range_collides(build_space(case["spec"])):
                ctx.h("grid_with_colliding_finite_range_values", "cases")   # GridSearcher must de-duplicate them
            prod_terms.append(prod)
            prod_meta.append(case)
        elif k == "sched":
            viol, n_new, n_init, none_seen = run_sched_case(ctx, case)
            ctx.count(case, nontrivial=n_new > n_init)
            ctx.h("scheduler", case["sched"])
            ctx.h("sched_suggestions", n_new // 5 * 5)
            if viol:
                report(ctx, viol, case, case["sched"])
        elif k == "mb":
            term, viol, n_bo = run_mb_case(ctx, case)
            ctx.count(case, nontrivial=n_bo > 0)
            ctx.h("gp_model_based_decisions", min(n_bo, 5))
            if viol:
                report(ctx, viol, case, "GPFIFOSearcher")
            mb_terms.append(term)
            mb_meta.append(case)
        elif k == "shared":
            viols = run_shared_case(ctx, case)
            ctx.count(case, nontrivial=True)
            ctx.h("shared_restrict_list", "%s pts=%s" % (case["via"], "empty" if case["pts"] == [] else "default"))
            for sig, text in viols:
                ctx.violation("property", "%s (shared restrict_configurations): %s — %s" % (case["via"], sig["event"], text),
                              case=case, signature=sig)
        elif k == "large":
            viol, nseen = run_large_case(ctx, case)
            ctx.count(case, nontrivial=True)
            ctx.h("large_finite_space_gp", "n=%d left=%d suggested=%d" % (case["n"], len(case["left"]), nseen))
            if viol:
                report(ctx, viol, case, "fifo-bayesopt")
        elif k == "outside":
            viol, outcome = run_outside_case(ctx, case)
            ctx.count(case, nontrivial=True)
            ctx.h("points_just_outside_domain", "%s: %s" % (case["how"], outcome))
            if viol:
                report(ctx, viol, case, case["via"] if case["via"] in SEARCHER_OF else
                       ("RandomSearcher" if case["via"] == "random-direct" else "GridSearcher"))
        elif k == "batch_mixed":
            viol, nb, ne, term = run_batch_mixed_case(ctx, case)
            if term is not None:
                mbt_terms.append(term)
                mbt_meta.append(case)
            ctx.count(case, nontrivial=nb >= 2)
            ctx.h("batch_mixed", "%s pts=%d before=%d batch=%d" % ("mf" if case["mf"] else "fifo", len(case["pts"]), min(ne, 3), min(nb, 3)))
            if viol:
                report(ctx, viol, case, "GPMultiFidelitySearcher.get_batch_configs" if case["mf"] else "GPFIFOSearcher.get_batch_configs")
        elif k == "batch":
            term, viol, nb = run_batch_case(ctx, case)
            ctx.count(case, nontrivial=case["left"] < case["batch_size"] or nb >= 2)
            ctx.h("batch_left_vs_requested", "left=%d req=%d" % (case["left"], case["batch_size"]))
            if viol:
                report(ctx, viol, case, "GPFIFOSearcher.get_batch_configs")
            bt_terms.append(term)
            bt_meta.append(case)
        elif k == "pp":
            import random as _r
            term, meta = run_pp_case(ctx, _r.Random(case["seed"]))
            ctx.count(("pp", case["seed"]), nontrivial=True)
            pp_terms.append(term)
            pp_meta.append(dict(case, **meta))
    ctx.traces_validated = len(cases)
    rz_terms, rz_meta = [t for t, _ in RESUME_TERMS], [m for _, m in RESUME_TERMS]
    del RESUME_TERMS[:]
    ctx.h("resume_suggestions_compared_with_model", len(rz_terms) // 10 * 10)
    ctx.h("get_batch_configs_compared_with_model", "%d (with model-based part: %d)" % (
        len(mbt_terms), sum(1 for t in mbt_terms if "[([" in t.split("%nat,")[-1])))
    for tag, fn, terms, meta, shard in (("resume", "chk_resume", rz_terms, rz_meta, 60), ("rs", "chk_rs", rs_terms, rs_meta, 40), ("gs", "chk_gs", gs_terms, gs_meta, 40),
                                        ("prod", "chk_prod", prod_terms, prod_meta, 60),
                                        ("mb", "chk_mb", mb_terms, mb_meta, 10), ("batch", "chk_batch", bt_terms, bt_meta, 20), ("mbatch", "chk_mbatch", mbt_terms, mbt_meta, 12),
                                        ("pp", "chk_pp", pp_terms, pp_meta, 80)):
        if not terms:
            continue
        if meta:
            ctx.sample(dict(correspondence=fn, case=meta[0]))
        ty = dict(rs="rs_case", gs="gs_case", prod="(list (list Z) * list (list Z))%type", mb="mb_case", pp="pp_case", batch="batch_case", resume="resume_case", mbatch="mbatch_case")[tag]
        terms = ["(%s : %s)" % (t, ty) for t in terms]
        for i in ctx.coq_bad_cases(tag, IMPORTS, PRELUDE, fn, terms, shard=shard):
            ctx.violation("correspondence", "model (%s) and implementation differ" % fn, case=meta[i],
                          failing_input=False, broken="correspondence %s (model/Searcher.v)" % fn)
