"""C15 — (a) PAIRED runs of the real schedulers: mode min on f versus mode max on -f, same seed, same event
script; every suggestion and every decision must coincide (this is the independent checker on the
implementation); (b) correspondence of model/ModeCores.v with get_top_list, MedianStoppingRule.on_trial_result and
print_best_metric_found in both modes; (c) correspondence of model/Rung.v in both modes is C03's driver."""
import contextlib
import io
import math
from fractions import Fraction

import numpy as np

from common import q, lst, natlit, zlit, blit, optlit
import rung_util as U

IMPORTS = "From Verif Require Import model.Base model.Rung model.ModeCores.\nOpen Scope Q_scope.\n"

PRELUDE = r"""
Definition md_of (b : bool) : mode := if b then Min else Max.
Definition zlist_eqb := list_eqb Z.eqb.

(* get_top_list: (rung, new_len, is_min, impl top, impl remaining) *)
Definition top_case := (list sentry * nat * bool * list Z * list Z)%type.
Definition chk_top (c : top_case) : bool :=
  let '(rung, n, is_min, top, rest) := c in
  let r := get_top_list rung n (md_of is_min) in zlist_eqb (fst r) top && zlist_eqb (snd r) rest.

(* median rule: (is_min, running_average, grace_time, min_samples, rank_cutoff, reports (trial, time_step, metric, impl continue?)) *)
Definition msr_case := (bool * bool * option Q * option nat * Q * list (Z * Z * Q * bool))%type.
Fixpoint msr_run (md : mode) ra gt ms rc (st : msr_state) (evs : list (Z * Z * Q * bool)) : bool :=
  match evs with
  | [] => true
  | (t, ts, m, d) :: rest =>
      let '(st', d') := msr_on_result md ra gt ms rc st t ts (inject_Z ts) m in
      Bool.eqb d d' && msr_run md ra gt ms rc st' rest
  end.
Definition chk_msr (c : msr_case) : bool :=
  let '(is_min, ra, gt, ms, rc, evs) := c in
  msr_run (md_of is_min) ra gt ms rc {| msr_sorted := []; msr_trials := [] |} evs.

(* print_best_metric_found: (is_min, table, impl result) *)
Definition best_case := (bool * list (Z * list Q) * option (Z * option Q))%type.
Definition chk_best (c : best_case) : bool :=
  let '(is_min, table, impl) := c in
  match best_metric_found (md_of is_min) table, impl with
  | None, None => true
  | Some (t, v), Some (t', v') => Z.eqb t t' && opt_eqb Qeqb v v'
  | _, _ => false
  end.

(* RegularizedEvolution: (is_min, population_size, updates (trial, metric), implementation's population scores) *)
Definition rea_case := (bool * nat * list (Z * Q) * list Q)%type.
Definition chk_rea (c : rea_case) : bool :=
  let '(is_min, n, ups, impl) := c in
  let pop := fold_left (fun p tm => rea_update (md_of is_min) n p (fst tm) (snd tm)) ups [] in
  list_eqb Qeqb (map snd pop) impl.

(* MOASHA._metric_dict: (per-metric is_min, reported values, signed values the priority function received) *)
Definition mo_case := (list bool * list Q * list Q)%type.
Definition chk_mo (c : mo_case) : bool :=
  let '(modes, vals, impl) := c in list_eqb Qeqb (moasha_metric_dict (map md_of modes) vals) impl.

(* ExperimentResult.best_config: (is_min, metric column, row index of the returned config) *)
Definition bc_case := (bool * list Q * option nat)%type.
Definition chk_bc (c : bc_case) : bool :=
  let '(is_min, col, impl) := c in opt_eqb Nat.eqb (best_index (md_of is_min) col) impl.

(* PromotionRungSystem call sequences: (is_min, max_t, rungs top down (level, quantile), calls with observed outputs) *)
Definition optZ_eqb := opt_eqb Z.eqb.
Definition pout_eqb (a b : pout) : bool :=
  match a, b with
  | POSched SNone, POSched SNone => true
  | POSched (SPromote t rf ms), POSched (SPromote t' rf' ms') => Z.eqb t t' && Z.eqb rf rf' && Z.eqb ms ms'
  | POSched SAssert, POSched SAssert => true
  | POAdd x, POAdd y => Bool.eqb x y
  | POReport (inl (tc, mr, nm, ig)), POReport (inl (tc', mr', nm', ig')) =>
      Bool.eqb tc tc' && Bool.eqb mr mr' && optZ_eqb nm nm' && Bool.eqb ig ig'
  | POReport (inr PKeyRunning), POReport (inr PKeyRunning) => true
  | POReport (inr PAssertMilestone), POReport (inr PAssertMilestone) => true
  | POReport (inr PAssertInRung), POReport (inr PAssertInRung) => true
  | PODone, PODone => true
  | _, _ => false
  end.
Definition prom_case := (bool * Z * list (Z * Q) * list (pevent * pout))%type.
Definition chk_prom (c : prom_case) : bool :=
  let '(is_min, max_t, rungs, calls) := c in
  let sys := {| ps_rungs := map (fun lq => {| pr_level := fst lq; pr_quant := snd lq; pr_data := [] |}) rungs;
                ps_running := [] |} in
  list_eqb pout_eqb (snd (prun (md_of is_min) max_t sys (map fst calls))) (map snd calls).

(* MOASHA shell (one bracket): (per-metric is_min, rf, max_t, milestones high first, calls (is_complete, trial, cur_iter,
   reported values, observed decision: Some true = CONTINUE, Some false = STOP, None = on_trial_complete)) ;
   the priority handed to MOASHA by the harness is the first signed objective *)
Definition moseq_case := (list bool * Q * Q * list Q * list (bool * Z * Q * list Q * option bool))%type.
Definition first_objective (X : list (list Q)) : list Q := map (fun v => nth 0 v 0) X.
Definition chk_moseq (c : moseq_case) : bool :=
  let '(modes, rf, max_t, ms, calls) := c in
  let b := map (fun m => {| mo_milestone := m; mo_recorded := [] |}) ms in
  let evs := map (fun cl : bool * Z * Q * list Q * option bool =>
                    let '(cmpl, t, it, vals, _) := cl in if cmpl then MoComplete t it vals else MoResult t it vals) calls in
  list_eqb (opt_eqb Bool.eqb) (snd (mo_run first_objective rf max_t (map md_of modes) b evs))
           (map (fun cl : bool * Z * Q * list Q * option bool => snd cl) calls).

(* Tuner.best_config: (per-metric is_min, metric index, per trial (dict order of the tuning status) the result vectors
   the tuner has seen, trial named by the real Tuner.best_config) *)
Definition tbc_case := (list bool * nat * list (Z * list (list Q)) * Z)%type.
Definition chk_tbc (c : tbc_case) : bool :=
  let '(modes, i, table, impl) := c in
  match tuner_best_config (MList (map md_of modes)) i table with
  | Some (t, _) => Z.eqb t impl
  | None => false
  end.

(* top_k_hyperparameter_configurations: (is_min, k, per configuration fidelities x seeds, indices returned) *)
Definition topk_case := (bool * nat * list (Z * list (list Q)) * list Z)%type.
Definition chk_topk (c : topk_case) : bool :=
  let '(is_min, k, evs, impl) := c in zlist_eqb (tl_topk (md_of is_min) k evs) impl.
"""

KINDS = ["hb_stopping", "hb_promotion", "hb_pasha", "hb_rush_stopping", "hb_rush_promotion",
         "sync_hb", "median", "pbt", "fifo", "dehb", "rea", "moasha", "morea", "tl_rush_stopping", "tl_rush_promotion"]

# rung levels whose promotion quantiles level/next level never put a rung entry exactly on the quantile
# ((n-1) * q is not an integer for any rung size n reachable here): no decision threshold coincides with a metric value
TIE_FREE = [dict(rung_levels=[7, 29], max_t=59), dict(rung_levels=[5, 11, 23], max_t=47),
            dict(rung_levels=[3, 13], max_t=53), dict(rung_levels=[2, 7, 17], max_t=37)]
TIE_FREE_MAX_TRIALS = {59: 25, 47: 11, 53: 12, 37: 6}


def make_time_keeper():
    from syne_tune.backend.time_keeper import TimeKeeper
    import datetime

    class Fake(TimeKeeper):
        def __init__(self):
            self.t = 0.0

        def start_of_time(self):
            pass

        def time(self):
            self.t += 1.0
            return self.t

        def time_stamp(self):
            return datetime.datetime(2020, 1, 1) + datetime.timedelta(seconds=self.t)

        def advance(self, step):
            self.t += step

    return Fake()


def gen_pair_spec(rng, kind):
    spec = dict(kind="pair", sched=kind, seed=rng.randint(0, 10 ** 6), script_seed=rng.randint(0, 10 ** 9),
                workers=rng.randint(2, 6), table_seed=rng.randint(0, 10 ** 9))
    if kind.startswith("tl_rush"):
        # RUSHScheduler (transfer learning): offline evaluations of previous tasks with several seeds and crossing
        # multi-fidelity curves decide the first suggestions and the RUSH thresholds
        p = rng.choice(TIE_FREE)
        ntasks = rng.randint(1, 3)
        spec.update(rung_levels=list(p["rung_levels"]), max_t=p["max_t"], brackets=1, type=kind[8:],
                    max_trials=rng.randint(3, TIE_FREE_MAX_TRIALS[p["max_t"]]), num_hp_per_task=rng.randint(1, 2),
                    tasks=[dict(n=rng.randint(3, 6), seeds=rng.randint(1, 3), fid=rng.randint(2, 4), seed=rng.randint(0, 10 ** 6))
                           for _ in range(ntasks)])
    elif kind.startswith("hb_"):
        typ = kind[3:]
        tie_prone = typ in ("stopping", "rush_stopping") and rng.random() < 0.4
        if tie_prone:
            spec.update(U.gen_rung_params(rng))
            spec["brackets"] = 1
            spec["max_trials"] = rng.randint(4, 20)
        else:
            p = rng.choice(TIE_FREE)
            spec.update(rung_levels=list(p["rung_levels"]), max_t=p["max_t"])
            # PASHA is a single-bracket method (with more brackets it raises IndexError in both modes)
            spec["brackets"] = 1 if typ == "pasha" else rng.randint(1, 3)
            spec["per_bracket"] = rng.random() < 0.3
            spec["max_trials"] = rng.randint(3, TIE_FREE_MAX_TRIALS[p["max_t"]])
        spec["tie_prone"] = tie_prone
        spec["type"] = typ
        # metric values reported as numpy scalars in a share of the pairs (same type in both runs of the pair)
        spec["metric_dtype"] = rng.choice(["py", "py", "float64", "float32", "int64"]) if not tie_prone else "py"
        if typ.startswith("rush"):
            spec["num_threshold_candidates"] = rng.choice([0, 1, 2])
    elif kind == "dehb":
        spec.update(max_t=rng.choice([9, 16, 27]), grace_period=rng.choice([1, 1, 2]), reduction_factor=rng.choice([2, 3]),
                    brackets=rng.choice([None, 1, 2]), max_trials=rng.randint(8, 60))
    elif kind in ("rea", "morea"):
        # small population, >= 3x population_size trials: parent selection and aging matter;
        # mode_to: the optimisation direction is given to the scheduler only (as baselines.REA does) or to both
        pop = rng.randint(4, 8)
        spec.update(max_t=rng.choice([1, 1, 2]), population_size=pop, sample_size=rng.randint(2, pop),
                    max_trials=rng.randint(3 * pop, 5 * pop), mode_to=rng.choice(["scheduler", "both"]))
        spec["workers"] = rng.randint(1, 4)
        if kind == "morea":
            nmet = rng.randint(2, 3)
            base = [rng.choice(["min", "max"]) for _ in range(nmet)]
            mask = [rng.random() < 0.6 for _ in range(nmet)]
            if not any(mask):
                mask[rng.randrange(nmet)] = True
            spec.update(nmet=nmet, base_modes=base, mask=mask)
    elif kind == "moasha":
        nmet = rng.randint(1, 3)
        style = rng.choice(["list", "list", "str"])
        if style == "str":
            base = rng.choice(["min", "max"])
            mask = [True] * nmet
        else:
            base = [rng.choice(["min", "max"]) for _ in range(nmet)]
            mask = [rng.random() < 0.6 for _ in range(nmet)]
            if not any(mask):
                mask[rng.randrange(nmet)] = True
        spec.update(max_t=rng.choice([9, 16, 27]), grace_period=rng.choice([1, 1, 2]), reduction_factor=rng.choice([2, 3]),
                    brackets=rng.randint(1, 3), nmet=nmet, base_modes=base, mask=mask, max_trials=rng.randint(5, 25))
    elif kind == "sync_hb":
        spec.update(max_t=rng.choice([9, 16, 27]), grace_period=rng.choice([1, 1, 2]), reduction_factor=rng.choice([2, 3]),
                    brackets=rng.choice([None, 1, 2]), max_trials=rng.randint(6, 40))
    elif kind == "median":
        spec.update(max_t=rng.choice([5, 8, 12]), grace_time=rng.choice([1, 2]), grace_population=rng.choice([2, 3, 5]),
                    rank_cutoff=rng.choice([0.5, 0.3, 0.7]), running_average=rng.random() < 0.5,
                    max_trials=rng.randint(4, 16))
    elif kind == "pbt":
        spec.update(max_t=rng.choice([8, 12, 20]), population_size=rng.choice([2, 3, 4]),
                    perturbation_interval=rng.choice([1, 2, 3]), quantile_fraction=rng.choice([0.25, 0.5, 0.34]),
                    resample_probability=rng.choice([0.25, 0.5]), max_trials=rng.randint(4, 14))
        spec["workers"] = max(spec["workers"], spec["population_size"])
    else:
        spec.update(max_t=rng.choice([3, 6]), max_trials=rng.randint(3, 10))
    spec["steps"] = rng.randint(30, 400)
    # dill round trip of the scheduler (what Tuner.save / load do) at a random point, in BOTH runs of the pair
    spec["dill_at"] = rng.randint(3, max(4, spec["steps"] // 2)) if rng.random() < 0.45 else None
    if kind in ("sync_hb", "dehb"):
        # trials failing while pending in a rung (on_trial_error), same trial and same moment in both modes
        spec["fail_prob"] = rng.choice([0.0, 0.03, 0.08, 0.15])
    if kind == "moasha":
        # sparse reports (a trial may jump over rung levels) and trials that finish with on_trial_complete carrying a
        # result at a resource they have not reported before
        spec["max_jump"] = rng.choice([1, 1, 2, 3, 4])
        spec["complete_prob"] = rng.choice([0.0, 0.1, 0.25])
    if kind in ("rea", "morea"):
        spec["steps"] = 2 * spec["max_trials"] * (spec["max_t"] + 1) + 40
    return spec


def flip(m):
    return "max" if m == "min" else "min"


def moasha_modes(spec, variant):
    base, mask = spec["base_modes"], spec["mask"]
    if variant == 0:
        return base
    if isinstance(base, str):
        return flip(base)  # all metrics flip
    return [flip(m) if f else m for m, f in zip(base, mask)]


def tl_evaluations(spec, sign, cs):
    """offline evaluations: per task n configurations x seeds x fidelities, independent uniform values (curves cross)"""
    import pandas as pd
    from syne_tune.optimizer.schedulers.transfer_learning import TransferLearningTaskEvaluations
    out = {}
    for j, t in enumerate(spec["tasks"]):
        r = np.random.RandomState(t["seed"])
        hps = pd.DataFrame([{"x": float(r.uniform(0, 1)), "k": int(r.randint(0, 21))} for _ in range(t["n"])])
        vals = r.uniform(0.05, 1.0, size=(t["n"], t["seeds"], t["fid"], 1))
        out["task%d" % j] = TransferLearningTaskEvaluations(configuration_space=cs, hyperparameters=hps,
                                                            objectives_names=["m"], objectives_evaluations=sign * vals)
    return out


def build_scheduler(spec, variant):
    from syne_tune.config_space import uniform, randint, choice
    mode = "min" if variant == 0 else "max"
    cs = {"x": uniform(0, 1), "k": randint(0, 20)}
    kind = spec["sched"]
    if kind.startswith("tl_rush"):
        from syne_tune.optimizer.schedulers.transfer_learning import RUSHScheduler
        return RUSHScheduler(config_space=cs, transfer_learning_evaluations=tl_evaluations(spec, 1.0 if variant == 0 else -1.0, cs),
                             metric="m", mode=mode, type=spec["type"], num_hyperparameters_per_task=spec["num_hp_per_task"],
                             resource_attr="epoch", max_t=spec["max_t"], rung_levels=list(spec["rung_levels"]),
                             brackets=1, random_seed=spec["seed"], searcher="random")
    if kind == "dehb":
        from syne_tune.optimizer.schedulers.synchronous.hyperband_impl import GeometricDifferentialEvolutionHyperbandScheduler
        return GeometricDifferentialEvolutionHyperbandScheduler(
            cs, metric="m", mode=mode, resource_attr="epoch", max_resource_level=spec["max_t"],
            grace_period=spec["grace_period"], reduction_factor=spec["reduction_factor"], brackets=spec["brackets"],
            random_seed=spec["seed"])
    if kind == "rea":
        from syne_tune.optimizer.schedulers.fifo import FIFOScheduler
        from syne_tune.optimizer.schedulers.searchers.regularized_evolution import RegularizedEvolution
        cs2 = {"x": uniform(0, 1), "k": randint(0, 20), "c": choice(["a", "b", "c"])}
        kw = dict(mode=mode) if spec.get("mode_to", "both") == "both" else {}
        rea = RegularizedEvolution(cs2, metric="m", population_size=spec["population_size"],
                                   sample_size=spec["sample_size"], random_seed=spec["seed"], **kw)
        return FIFOScheduler(cs2, searcher=rea, metric="m", mode=mode, random_seed=spec["seed"])
    if kind == "morea":
        from syne_tune.optimizer.schedulers.fifo import FIFOScheduler
        from syne_tune.optimizer.schedulers.multiobjective.multi_objective_regularized_evolution import (
            MultiObjectiveRegularizedEvolution)
        cs2 = {"x": uniform(0, 1), "k": randint(0, 20), "c": choice(["a", "b", "c"])}
        metrics = ["m%d" % i for i in range(spec["nmet"])]
        modes = moasha_modes(spec, variant)
        # the searcher's mode argument is mandatory; "scheduler": it gets a placeholder and must follow the scheduler
        rea = MultiObjectiveRegularizedEvolution(cs2, metric=metrics, mode=modes if spec["mode_to"] == "both" else "min",
                                                 population_size=spec["population_size"], sample_size=spec["sample_size"],
                                                 random_seed=spec["seed"])
        return FIFOScheduler(cs2, searcher=rea, metric=metrics, mode=modes, random_seed=spec["seed"])
    if kind == "moasha":
        from syne_tune.optimizer.schedulers.multiobjective.moasha import MOASHA
        np.random.seed(spec["seed"] % (2 ** 31))  # MOASHA draws configs and brackets from the global numpy generator
        return MOASHA(cs, metrics=["m%d" % i for i in range(spec["nmet"])], mode=moasha_modes(spec, variant),
                      time_attr="epoch", max_t=spec["max_t"], grace_period=spec["grace_period"],
                      reduction_factor=spec["reduction_factor"], brackets=spec["brackets"])
    if kind.startswith("hb_"):
        from syne_tune.optimizer.schedulers.hyperband import HyperbandScheduler
        s = dict(spec, mode=mode)
        sch = HyperbandScheduler(cs, **U.hyperband_kwargs(s))
        return sch
    if kind == "sync_hb":
        from syne_tune.optimizer.schedulers.synchronous.hyperband_impl import SynchronousGeometricHyperbandScheduler
        return SynchronousGeometricHyperbandScheduler(
            cs, searcher="random", metric="m", mode=mode, resource_attr="epoch", max_resource_level=spec["max_t"],
            grace_period=spec["grace_period"], reduction_factor=spec["reduction_factor"], brackets=spec["brackets"],
            random_seed=spec["seed"])
    if kind == "median":
        from syne_tune.optimizer.schedulers.fifo import FIFOScheduler
        from syne_tune.optimizer.schedulers.median_stopping_rule import MedianStoppingRule
        inner = FIFOScheduler(cs, searcher="random", metric="m", mode=mode, random_seed=spec["seed"])
        return MedianStoppingRule(inner, resource_attr="epoch", running_average=spec["running_average"],
                                  grace_time=spec["grace_time"], grace_population=spec["grace_population"],
                                  rank_cutoff=spec["rank_cutoff"])
    if kind == "pbt":
        from syne_tune.optimizer.schedulers.pbt import PopulationBasedTraining
        sch = PopulationBasedTraining(cs, metric="m", mode=mode, resource_attr="epoch", max_t=spec["max_t"],
                                      population_size=spec["population_size"],
                                      perturbation_interval=spec["perturbation_interval"],
                                      quantile_fraction=spec["quantile_fraction"],
                                      resample_probability=spec["resample_probability"], random_seed=spec["seed"])
        # deterministic clock: PBT writes elapsed_time into the configs it suggests
        sch.set_time_keeper(make_time_keeper())
        return sch
    from syne_tune.optimizer.schedulers.fifo import FIFOScheduler
    return FIFOScheduler(cs, searcher="random", metric="m", mode=mode, random_seed=spec["seed"])


def canon_config(cfg):
    if cfg is None:
        return None
    return sorted((k, (float(v).hex() if isinstance(v, float) else v)) for k, v in cfg.items() if k != "elapsed_time")


def metric_of(spec, overrides, t, r):
    key = "%d:%d" % (t, r)
    if key in overrides:
        return overrides[key]
    import random as _random
    return _random.Random("%d-%d-%d" % (spec["table_seed"], t, r)).uniform(0.05, 1.0)


def result_of(spec, variant, overrides, tid, r):
    if spec["sched"] in ("moasha", "morea"):
        res = {"epoch": r}
        for i in range(spec["nmet"]):
            v = metric_of(spec, overrides, tid * 10 + i, r)
            res["m%d" % i] = -v if (variant == 1 and spec["mask"][i]) else v
        return res
    v = metric_of(spec, overrides, tid, r)
    dt = spec.get("metric_dtype", "py")
    if dt in ("int64", "int32"):
        v = int(v * 100000)  # distinct integers
    elif dt == "float32":
        v = float(np.float32(v))  # exactly representable, negation exact
    return {"epoch": r, "m": U.cast_metric(v if variant == 0 else -v, dt)}


def run_one(spec, variant, overrides, limit=None):
    """Simulated tuner loop (harness side) over the public scheduler API. Returns the trace: list of
    ('suggest', canonical suggestion) / ('result', trial, resource, decision) entries."""
    import random as _random
    U.quiet()
    sch = build_scheduler(spec, variant)
    oh = None
    if spec["sched"].startswith("hb_"):
        oh = U.OneHotBrackets(sch.num_brackets)
        sch.bracket_distribution = oh
    rng = _random.Random(spec["script_seed"])
    trace, reports = [], []
    running, paused, resource, trials = [], set(), {}, {}
    next_id, started = 0, 0
    max_t = spec["max_t"]
    sink = io.StringIO()
    for step in range(spec["steps"]):
        if limit is not None and len(trace) >= limit:
            break
        if spec.get("dill_at") is not None and step == spec["dill_at"]:
            import dill
            try:
                sch = dill.loads(dill.dumps(sch))
            except Exception as e:  # not serialisable in both modes alike: compared like any other event
                trace.append(("raised", "dill", step, type(e).__name__))
                break
            if oh is not None:
                oh = sch.bracket_distribution
            trace.append(("restored", step))
        want_suggest = len(running) < spec["workers"] and (started < spec["max_trials"] or paused)
        x = rng.random()
        if want_suggest and (x < 0.5 or not running):
            if oh is not None:
                oh.bracket = rng.randrange(oh.num_brackets)
            try:
                with contextlib.redirect_stdout(sink):
                    sug = sch.suggest(next_id) if started < spec["max_trials"] or paused else None
            except Exception as e:
                trace.append(("raised", "suggest", next_id, type(e).__name__))
                break
            if sug is None:
                trace.append(("suggest", None))
                if not running:
                    break
                continue
            if sug.spawn_new_trial_id:
                tid = next_id
                next_id += 1
                started += 1
                trials[tid] = U.mk_trial(tid, sug.config)
                resource[tid] = 0
                running.append(tid)
                with contextlib.redirect_stdout(sink):
                    sch.on_trial_add(trials[tid])
                trace.append(("suggest", ["new", tid, sug.checkpoint_trial_id, canon_config(sug.config)]))
            else:
                tid = int(sug.checkpoint_trial_id)
                trace.append(("suggest", ["resume", tid, canon_config(sug.config)]))
                if tid in paused:
                    paused.discard(tid)
                    running.append(tid)
                else:
                    trace.append(("error", "resume of a trial that is not paused: %d" % tid))
                    break
            continue
        if not running:
            if started >= spec["max_trials"] and not paused:
                break
            continue
        tid = rng.choice(running)
        if spec.get("fail_prob") and rng.random() < spec["fail_prob"]:
            running.remove(tid)
            try:
                with contextlib.redirect_stdout(sink):
                    sch.on_trial_error(trials[tid])
            except Exception as e:
                trace.append(("raised", "error", tid, type(e).__name__))
                break
            trace.append(("failed", tid, resource[tid]))
            continue
        resource[tid] += 1 if spec.get("max_jump", 1) == 1 else rng.randint(1, spec["max_jump"])
        r = resource[tid]
        result = result_of(spec, variant, overrides, tid, r)
        if spec.get("complete_prob") and r < max_t and rng.random() < spec["complete_prob"]:
            running.remove(tid)
            try:
                with contextlib.redirect_stdout(sink):
                    sch.on_trial_complete(trials[tid], dict(result))
            except Exception as e:
                trace.append(("raised", "complete", tid, type(e).__name__))
                break
            trace.append(("completed", tid, r))
            continue
        try:
            with contextlib.redirect_stdout(sink):
                dec = sch.on_trial_result(trials[tid], dict(result))
        except Exception as e:  # same exception in both modes is not a mode asymmetry; the traces are compared
            trace.append(("raised", tid, r, type(e).__name__))
            break
        trace.append(("result", tid, r, dec))
        reports.append((tid, dict(result)))
        if dec == "STOP":
            running.remove(tid)
            sch.on_trial_remove(trials[tid])
        elif dec == "PAUSE":
            running.remove(tid)
            paused.add(tid)
            sch.on_trial_remove(trials[tid])
        elif r >= max_t:
            running.remove(tid)
            sch.on_trial_complete(trials[tid], dict(result))
    trace.extend(reported_summary(spec, variant, sch, reports))
    return trace


def unmirror_mode(spec, variant, mode):
    """what the mode reported by the variant-1 scheduler must be once the mirror is undone"""
    if variant == 0 or mode is None:
        return mode
    if isinstance(mode, (list, tuple)):
        mask = spec.get("mask") or [True] * len(mode)
        return [flip(m) if f else m for m, f in zip(mode, mask)]
    return flip(mode)


def reported_summary(spec, variant, sch, reports):
    """What the scheduler tells the outside world about the optimisation direction, and what a results report built on
    it (ExperimentResult.best_config with the scheduler's metadata()) calls the best trial, per metric: must mirror."""
    out = []
    try:
        out.append(("metric_mode", unmirror_mode(spec, variant, sch.metric_mode())))
        md = sch.metadata()
        out.append(("metadata", list(md["metric_names"]), unmirror_mode(spec, variant, md["metric_mode"])))
    except Exception as e:
        out.append(("raised", "metadata", 0, type(e).__name__))
        return out
    if not reports:
        return out
    try:
        import pandas as pd
        from syne_tune.experiments.experiment_result import ExperimentResult
        names = list(md["metric_names"])
        rows = [dict(result, trial_id=tid) for tid, result in reports]
        er = ExperimentResult(name="pair", results=pd.DataFrame(rows), metadata=md, tuner=None, path=None)
        for i in range(len(names)):
            best = er.best_config(metric=i)
            out.append(("best", i, int(best["trial_id"]), int(best["epoch"])))
    except Exception as e:
        out.append(("raised", "best_config", 0, type(e).__name__))
    return out


def first_divergence(a, b):
    for i, (x, y) in enumerate(zip(a, b)):
        if x != y:
            return i
    return None if len(a) == len(b) else min(len(a), len(b))


def exact_quantile(vals, qq):
    a = sorted(Fraction(v) for v in vals)
    h = (len(a) - 1) * qq
    i = math.floor(h)
    g = h - i
    return a[i] if i + 1 >= len(a) else a[i] + g * (a[i + 1] - a[i])


def is_tie_boundary(spec, trace, k, overrides):
    """Only for type stopping / rush_stopping with one bracket: is the report at trace[k] a decision whose exact
    cutoff (rational arithmetic over the metrics reported at that rung level so far) is within round-off
    (8 (n+1) half-ulps of the largest |metric|) of the reported metric?"""
    ev = trace[k]
    if ev[0] != "result" or not spec.get("tie_prone"):
        return False
    _, tid, r, _ = ev
    levels = U.expected_rung_levels(spec)
    if levels is None:
        from syne_tune.optimizer.schedulers.utils.successive_halving import successive_halving_rung_levels
        levels = successive_halving_rung_levels(None, spec["grace_period"], spec.get("reduction_factor"),
                                                spec.get("rung_increment"), spec["max_t"])
    if r not in levels:
        return False
    nxt = levels[levels.index(r) + 1] if levels.index(r) + 1 < len(levels) else spec["max_t"]
    seen, vals = set(), []
    for e in trace[:k + 1]:
        if e[0] == "result" and e[2] == r and e[1] not in seen:
            seen.add(e[1])
            vals.append(metric_of(spec, overrides, e[1], r))
    if len(vals) < 2:
        return False
    m = Fraction(metric_of(spec, overrides, tid, r))
    cut = exact_quantile(vals, Fraction(r, nxt))
    scale = max(abs(Fraction(v)) for v in vals)
    return abs(m - cut) <= Fraction(8 * (len(vals) + 1), 2 ** 53) * scale


def run_pair(ctx, spec, overrides=None):
    overrides = dict(overrides or {})
    a = run_one(spec, 0, overrides)
    b = run_one(spec, 1, overrides)
    k = first_divergence(a, b)
    boundary = 0
    if k is not None and k < len(a) and is_tie_boundary(spec, a, k, overrides):
        # the property excludes decisions whose threshold is within round-off of a metric value: compare the prefix
        boundary = 1
        a, b, k = a[:k], b[:k], None
    n_dec = sum(1 for e in a if e[0] == "result")
    n_nontrivial = sum(1 for e in a if e[0] == "result" and e[3] != "CONTINUE") + \
        sum(1 for e in a if e[0] in ("failed", "completed")) + \
        sum(1 for e in a if e[0] == "suggest" and e[1] and e[1][0] == "resume")
    if spec["sched"] in ("rea", "morea"):  # suggestions by mutation of the best sampled parent (population full)
        n_nontrivial = max(0, sum(1 for e in a if e[0] == "suggest" and e[1]) - spec["population_size"] - spec["workers"])
    return a, b, k, boundary, n_dec, n_nontrivial


# ------------------------------------------------------------------------------------------------
# unit correspondence of the small cores
# ------------------------------------------------------------------------------------------------
def unit_cases(ctx, replay):
    from syne_tune.optimizer.schedulers.synchronous.hyperband_bracket import get_top_list
    from syne_tune.optimizer.schedulers.median_stopping_rule import MedianStoppingRule
    from syne_tune.optimizer.schedulers.fifo import FIFOScheduler
    from syne_tune.tuning_status import TuningStatus, print_best_metric_found
    from syne_tune.config_space import uniform
    rng = ctx.rng
    U.quiet()
    # ---- get_top_list ----
    cases = []
    if replay is None:
        for _ in range(ctx.n(300, 4000)):
            n = rng.choice([0, 1, 2, 3, 5, 8, rng.randint(0, 30)])
            grid = rng.choice([3, 6, 1000])
            rung = []
            for i in range(n):
                v = float("nan") if rng.random() < 0.12 else (float(rng.randint(0, grid)) if grid < 1000 else rng.uniform(-1, 1))
                rung.append([i * 3 + 1, v])
            cases.append(dict(kind="top", rung=rung, new_len=rng.randint(0, n + 1), mode=rng.choice(["min", "max"])))
    elif replay.get("kind") == "top":
        cases = [dict(replay, rung=[[t, float(v)] for t, v in replay["rung"]])]
    terms = []
    for c in cases:
        rung = [(t, v) for t, v in c["rung"]]
        top, rest = get_top_list(rung, c["new_len"], c["mode"])
        # paired check on the implementation: max on negated values gives the same lists
        other = "max" if c["mode"] == "min" else "min"
        top2, rest2 = get_top_list([(t, -v) for t, v in rung], c["new_len"], other)
        vals = [v for _, v in rung if not math.isnan(v)]
        ctx.count(("top", c["rung"], c["new_len"], c["mode"]), nontrivial=len(set(vals)) >= 2 and 0 < c["new_len"] < len(rung))
        ctx.h("unit_kind", "get_top_list")
        if (list(top), list(rest)) != (list(top2), list(rest2)):
            ctx.violation("property", "get_top_list(%s) = %r but on negated values with mode %s = %r" % (
                c["mode"], (top, rest), other, (top2, rest2)),
                case=dict(c, rung=[[t, repr(v)] for t, v in c["rung"]]),
                signature=dict(function="get_top_list", defect="mode_asymmetry"))
        terms.append("((%s, %s, %s, %s, %s) : top_case)" % (
            lst(["(%s, %s)" % (zlit(t), "None" if math.isnan(v) else "Some %s" % q(v)) for t, v in rung]),
            natlit(c["new_len"]), blit(c["mode"] == "min"), lst([zlit(t) for t in top]), lst([zlit(t) for t in rest])))
    if terms:
        for i in ctx.coq_bad_cases("top", IMPORTS, PRELUDE, "chk_top", terms, shard=150):
            ctx.violation("correspondence", "model get_top_list differs from implementation",
                          case=dict(cases[i], rung=[[t, repr(v)] for t, v in cases[i]["rung"]]), failing_input=False,
                          broken="correspondence chk_top (model/ModeCores.v get_top_list)")
    # ---- median stopping rule ----
    cases = []
    if replay is None:
        for _ in range(ctx.n(150, 2500)):
            evs, cur = [], {}
            ntr = rng.randint(1, 7)
            for _ in range(rng.randint(1, 40)):
                t = rng.randrange(ntr)
                cur[t] = cur.get(t, 0) + 1
                evs.append([t, cur[t], rng.randint(-16, 16) / 8.0])
            cases.append(dict(kind="msr", mode=rng.choice(["min", "max"]), running_average=rng.random() < 0.5,
                              grace_time=rng.choice([None, 1, 2, 3]), grace_population=rng.choice([None, 1, 2, 3, 5]),
                              rank_cutoff=rng.choice([0.5, 0.25, 0.75]), evs=evs))
    elif replay.get("kind") == "msr":
        cases = [replay]
    terms = []
    for c in cases:
        decs = []
        for mode, sgn in ((c["mode"], 1.0), ("max" if c["mode"] == "min" else "min", -1.0)):
            inner = FIFOScheduler({"x": uniform(0, 1)}, searcher="random", metric="m", mode=mode, random_seed=0)
            msr = MedianStoppingRule(inner, resource_attr="epoch", running_average=c["running_average"],
                                     grace_time=c["grace_time"], grace_population=c["grace_population"],
                                     rank_cutoff=c["rank_cutoff"])
            ds = []
            for t, r, m in c["evs"]:
                ds.append(msr.on_trial_result(U.mk_trial(t, {"x": 0.5}), {"epoch": r, "m": sgn * m}) == "CONTINUE")
            decs.append(ds)
        ctx.count(("msr", c), nontrivial=not all(decs[0]))
        ctx.h("unit_kind", "median_rule")
        if decs[0] != decs[1]:
            ctx.violation("property", "MedianStoppingRule decisions differ between mode %s on f and the other mode on -f" % c["mode"],
                          case=c, signature=dict(scheduler="MedianStoppingRule", defect="mode_asymmetry"))
        terms.append("((%s, %s, %s, %s, %s, %s) : msr_case)" % (
            blit(c["mode"] == "min"), blit(c["running_average"]), optlit(c["grace_time"], q),
            optlit(c["grace_population"], natlit), q(c["rank_cutoff"]),
            lst(["(%s, %s, %s, %s)" % (zlit(t), zlit(r), q(m), blit(d)) for (t, r, m), d in zip(c["evs"], decs[0])])))
    if terms:
        for i in ctx.coq_bad_cases("msr", IMPORTS, PRELUDE, "chk_msr", terms, shard=100):
            ctx.violation("correspondence", "model median rule differs from implementation", case=cases[i],
                          failing_input=False, broken="correspondence chk_msr (model/ModeCores.v msr_on_result)")
    # ---- print_best_metric_found ----
    cases = []
    if replay is None:
        for _ in range(ctx.n(200, 3000)):
            ntr = rng.randint(0, 8)
            grid = rng.choice([3, 1000])
            table = [[t, [float(rng.randint(0, grid)) if grid < 1000 else rng.uniform(-5, 5) for _ in range(rng.randint(0, 4))]]
                     for t in range(ntr)]
            cases.append(dict(kind="best", mode=rng.choice(["min", "max", None]), table=table))
    elif replay.get("kind") == "best":
        cases = [replay]
    terms = []
    for c in cases:
        outs = []
        for flip in (False, True):
            mode = c["mode"] if not flip else ("max" if c["mode"] in ("min", None) else "min")
            sgn = -1.0 if flip else 1.0
            st = TuningStatus(metric_names=["m"])
            new_results = []
            length = max([len(v) for _, v in c["table"]] + [0])
            for j in range(length):
                for t, vals in c["table"]:
                    if j < len(vals):
                        new_results.append((t, {"m": sgn * vals[j]}))
            # trials are registered in the order of the table (first access of the defaultdict)
            for t, _ in c["table"]:
                st.trial_metric_statistics[t]
            st.update({}, new_results)
            with contextlib.redirect_stdout(io.StringIO()):
                outs.append(print_best_metric_found(st, ["m"], mode))
        ctx.count(("best", c), nontrivial=len([1 for _, v in c["table"] if v]) >= 2)
        ctx.h("unit_kind", "print_best_metric_found")
        o1, o2 = outs
        same = (o1 is None and o2 is None) or (o1 is not None and o2 is not None and o1[0] == o2[0] and o1[1] == -o2[1])
        if not same:
            ctx.violation("property", "print_best_metric_found(%s on f) = %r but other mode on -f = %r" % (c["mode"], o1, o2),
                          case=c, signature=dict(function="print_best_metric_found", defect="mode_asymmetry"))

        def best_lit(o):
            if o is None:
                return "None"
            return "(Some (%s, %s))" % (zlit(o[0]), "None" if math.isinf(o[1]) else "Some %s" % q(o[1]))
        terms.append("((%s, %s, %s) : best_case)" % (blit(c["mode"] in ("min", None)),
                                       lst(["(%s, %s)" % (zlit(t), lst([q(v) for v in vals])) for t, vals in c["table"]]),
                                       best_lit(o1)))
    if terms:
        for i in ctx.coq_bad_cases("best", IMPORTS, PRELUDE, "chk_best", terms, shard=150):
            ctx.violation("correspondence", "model best_metric_found differs from implementation", case=cases[i],
                          failing_input=False, broken="correspondence chk_best (model/ModeCores.v best_metric_found)")


class RecPriority:
    """harness-side MOPriority: records the (signed) objective matrix MOASHA hands to the priority function"""

    def __init__(self):
        self.calls = []

    def __call__(self, objectives):
        self.calls.append(np.array(objectives, dtype=float).tolist())
        return np.arange(len(objectives), dtype=float)


def unit_cases2(ctx, replay):
    from syne_tune.config_space import uniform, randint, choice
    rng = ctx.rng
    U.quiet()
    # ---- RegularizedEvolution population ----
    from syne_tune.optimizer.schedulers.searchers.regularized_evolution import RegularizedEvolution
    cases = []
    if replay is None:
        for _ in range(ctx.n(150, 2000)):
            cases.append(dict(kind="rea", mode=rng.choice(["min", "max"]), population_size=rng.randint(1, 6),
                              via=rng.choice(["searcher", "scheduler"]),
                              ups=[[i, rng.choice([rng.uniform(-2, 2), float(rng.randint(-3, 3))])] for i in range(rng.randint(0, 12))]))
    elif replay.get("kind") == "rea":
        cases = [replay]
    terms = []
    cs = {"x": uniform(0, 1), "c": choice(["a", "b"])}
    for c in cases:
        pops = []
        for mode, sgn in ((c["mode"], 1.0), (flip(c["mode"]), -1.0)):
            if c.get("via", "searcher") == "searcher":
                rea = RegularizedEvolution(cs, metric="m", mode=mode, population_size=c["population_size"], sample_size=1,
                                           random_seed=0)
                for t, m in c["ups"]:
                    rea.on_trial_result(str(t), {"x": 0.5, "c": "a"}, {"m": sgn * m}, update=True)
            else:
                # direction given to the scheduler only (how baselines.REA is built): the searcher must follow it
                from syne_tune.optimizer.schedulers.fifo import FIFOScheduler
                rea = RegularizedEvolution(cs, metric="m", population_size=c["population_size"], sample_size=1, random_seed=0)
                fifo = FIFOScheduler(cs, searcher=rea, metric="m", mode=mode, random_seed=0)
                for t, m in c["ups"]:
                    fifo.on_trial_complete(U.mk_trial(t, {"x": 0.5, "c": "a"}), {"m": sgn * m})
            pops.append([float(e.score) for e in rea.population])
        ctx.count(("rea", c), nontrivial=len(c["ups"]) > c["population_size"])
        ctx.h("unit_kind", "regularized_evolution")
        if pops[0] != pops[1]:
            ctx.violation("property", "RegularizedEvolution population scores differ between mode %s on f and the other mode on -f: %r / %r"
                          % (c["mode"], pops[0], pops[1]), case=c,
                          signature=dict(searcher="RegularizedEvolution", defect="mode_asymmetry"))
        terms.append("((%s, %s, %s, %s) : rea_case)" % (
            blit(c["mode"] == "min"), natlit(c["population_size"]),
            lst(["(%s, %s)" % (zlit(t), q(m)) for t, m in c["ups"]]), lst([q(x) for x in pops[0]])))
    if terms:
        for i in ctx.coq_bad_cases("rea", IMPORTS, PRELUDE, "chk_rea", terms, shard=150):
            ctx.violation("correspondence", "model rea_update differs from RegularizedEvolution", case=cases[i],
                          failing_input=False, broken="correspondence chk_rea (model/ModeCores.v rea_update)")
    # ---- MOASHA signed metrics ----
    from syne_tune.optimizer.schedulers.multiobjective.moasha import MOASHA
    cases = []
    if replay is None:
        for _ in range(ctx.n(120, 1500)):
            nmet = rng.randint(1, 4)
            style = rng.choice(["list", "list", "str", "none"])
            modes = [rng.choice(["min", "max"]) for _ in range(nmet)] if style == "list" else (
                rng.choice(["min", "max"]) if style == "str" else None)
            cases.append(dict(kind="mo", modes=modes, vals=[[rng.uniform(-3, 3) for _ in range(nmet)] for _ in range(2)],
                              complete_first=rng.random() < 0.5))
    elif replay.get("kind") == "mo":
        cases = [replay]
    terms = []
    for c in cases:
        nmet = len(c["vals"][0])
        rec = RecPriority()
        sch = MOASHA({"x": uniform(0, 1)}, metrics=["m%d" % i for i in range(nmet)], mode=c["modes"], time_attr="epoch",
                     multiobjective_priority=rec, max_t=9, grace_period=1, reduction_factor=3, brackets=1)
        with contextlib.redirect_stdout(io.StringIO()):
            for t in range(2):
                tr = U.mk_trial(t, {"x": 0.5})
                sch.on_trial_add(tr)
                res = dict({"epoch": 1}, **{"m%d" % i: c["vals"][t][i] for i in range(nmet)})
                if t == 0 and c.get("complete_first"):
                    sch.on_trial_complete(tr, res)  # the trial finishes with a result it has not reported before
                else:
                    sch.on_trial_result(tr, res)
        ctx.count(("mo", c), nontrivial=isinstance(c["modes"], list) and len(set(c["modes"])) == 2)
        want_mode = c["modes"] if c["modes"] is not None else "min"
        if sch.metric_mode() != want_mode or sch.metadata()["metric_mode"] != want_mode:
            ctx.violation("property", "MOASHA(mode=%r).metric_mode() = %r, metadata()['metric_mode'] = %r" % (
                c["modes"], sch.metric_mode(), sch.metadata()["metric_mode"]), case=c,
                signature=dict(scheduler="MOASHA", defect="reported_metric_mode"))
        ctx.h("unit_kind", "moasha_metric_dict")
        if not rec.calls or len(rec.calls[-1]) != 2:
            ctx.violation("correspondence", "MOASHA did not call the priority function on the second report", case=c,
                          failing_input=False, broken="correspondence chk_mo (harness assumption)")
            continue
        per = c["modes"] if isinstance(c["modes"], list) else [c["modes"] or "min"] * nmet
        for t in range(2):
            want = [v if md == "min" else -v for v, md in zip(c["vals"][t], per)]
            if rec.calls[-1][t] != want:
                ctx.violation("property", "MOASHA(mode=%r) hands %r to the priority function for %s %r" % (
                    c["modes"], rec.calls[-1][t], "the result passed to on_trial_complete" if (t == 0 and c.get("complete_first"))
                    else "reported", c["vals"][t]), case=c,
                    signature=dict(scheduler="MOASHA", defect="metric_sign",
                                   via="on_trial_complete" if (t == 0 and c.get("complete_first")) else "on_trial_result"))
            terms.append("((%s, %s, %s) : mo_case)" % (lst([blit(md == "min") for md in per]),
                                                      lst([q(v) for v in c["vals"][t]]), lst([q(v) for v in rec.calls[-1][t]])))
    if terms:
        for i in ctx.coq_bad_cases("mo", IMPORTS, PRELUDE, "chk_mo", terms, shard=200):
            ctx.violation("correspondence", "model moasha_metric_dict differs from MOASHA", case=cases[i // 2],
                          failing_input=False, broken="correspondence chk_mo (model/ModeCores.v moasha_metric_dict)")
    # ---- MOASHA call sequences incl. on_trial_complete (one bracket, priority = first signed objective) ----
    cases = []
    if replay is None:
        for _ in range(ctx.n(120, 1500)):
            nmet = rng.randint(1, 3)
            style = rng.choice(["list", "list", "str", "none"])
            modes = [rng.choice(["min", "max"]) for _ in range(nmet)] if style == "list" else (
                rng.choice(["min", "max"]) if style == "str" else None)
            cases.append(dict(kind="moseq", modes=modes, nmet=nmet, max_t=rng.choice([9, 27]), rf=3, grace=1,
                              trials=rng.randint(2, 8), steps=rng.randint(5, 60), script_seed=rng.randint(0, 10 ** 9)))
    elif replay.get("kind") == "moseq":
        cases = [replay]
    terms = []
    for c in cases:
        calls = run_moasha_script(c)
        per = c["modes"] if isinstance(c["modes"], list) else [c["modes"] or "min"] * c["nmet"]
        ctx.count(("moseq", c), nontrivial=any(cl[0] for cl in calls) and any(cl[4] is False for cl in calls))
        ctx.h("unit_kind", "moasha_sequence")
        ms = [c["grace"] * c["rf"] ** k for k in reversed(range(int(np.log(c["max_t"] / c["grace"]) / np.log(c["rf"]) + 1)))]
        terms.append("((%s, %s, %s, %s, %s) : moseq_case)" % (
            lst([blit(md == "min") for md in per]), q(c["rf"]), q(c["max_t"]), lst([q(m) for m in ms]),
            lst(["(%s, %s, %s, %s, %s)" % (blit(cl[0]), zlit(cl[1]), q(cl[2]), lst([q(v) for v in cl[3]]), optlit(cl[4], blit))
                 for cl in calls])))
    if terms:
        for i in ctx.coq_bad_cases("moseq", IMPORTS, PRELUDE, "chk_moseq", terms, shard=60):
            ctx.violation("correspondence", "model MOASHA shell (mo_run) differs from MOASHA", case=cases[i],
                          failing_input=False, broken="correspondence chk_moseq (model/ModeCores.v mo_step / mo_bracket_on_result)")
    # ---- ExperimentResult.best_config ----
    import pandas as pd
    from syne_tune.experiments.experiment_result import ExperimentResult
    cases = []
    if replay is None:
        for _ in range(ctx.n(150, 2000)):
            n = rng.randint(1, 12)
            grid = rng.choice([3, 1000])
            cases.append(dict(kind="bc", mode=rng.choice(["min", "max", ["max", "min"], ["min", "max"]]),
                              col=[float(rng.randint(0, grid)) if grid < 1000 else rng.uniform(-5, 5) for _ in range(n)]))
    elif replay.get("kind") == "bc":
        cases = [replay]
    terms = []
    for c in cases:
        outs = []
        for flipped in (False, True):
            mode = c["mode"]
            if flipped:
                mode = flip(mode) if isinstance(mode, str) else [flip(mode[0]), mode[1]]
            col = [-v for v in c["col"]] if flipped else list(c["col"])
            df = pd.DataFrame({"m": col, "other": [0.0] * len(col), "idx": list(range(len(col))), "st_hidden": [1] * len(col)})
            er = ExperimentResult(name="x", results=df, metadata={"metric_names": ["m", "other"] if isinstance(mode, list) else ["m"],
                                                                  "metric_mode": mode}, tuner=None, path=None)
            res = er.best_config()
            outs.append(int(res["idx"]))
            if any(k.startswith("st_") for k in res):
                outs[-1] = -1
        m0 = c["mode"] if isinstance(c["mode"], str) else c["mode"][0]
        ctx.count(("bc", c), nontrivial=len(set(c["col"])) >= 2)
        ctx.h("unit_kind", "best_config")
        if outs[0] != outs[1]:
            ctx.violation("property", "ExperimentResult.best_config picks row %d with mode %s but row %d with the other mode on the negated column"
                          % (outs[0], m0, outs[1]), case=c, signature=dict(function="ExperimentResult.best_config", defect="mode_asymmetry"))
        terms.append("((%s, %s, %s) : bc_case)" % (blit(m0 == "min"), lst([q(v) for v in c["col"]]),
                                                  optlit(outs[0] if outs[0] >= 0 else None, natlit)))
    if terms:
        for i in ctx.coq_bad_cases("bc", IMPORTS, PRELUDE, "chk_bc", terms, shard=200):
            ctx.violation("correspondence", "model best_index differs from ExperimentResult.best_config", case=cases[i],
                          failing_input=False, broken="correspondence chk_bc (model/ModeCores.v best_index)")
    # ---- PromotionRungSystem call sequences ----
    cases = []
    if replay is None:
        for _ in range(ctx.n(120, 2000)):
            p = rng.choice(PROM_SYSTEMS)
            cases.append(dict(kind="prom", mode=rng.choice(["min", "max"]), levels=list(p["levels"]), max_t=p["max_t"],
                              quants=[list(x) for x in p["quants"]], script_seed=rng.randint(0, 10 ** 9),
                              steps=rng.randint(10, 140), max_trials=rng.randint(2, p["max_trials"])))
    elif replay.get("kind") == "prom":
        cases = [replay]
    terms = []
    for c in cases:
        outs = [run_promotion_script(c, c["mode"], 1.0), run_promotion_script(c, flip(c["mode"]), -1.0)]
        calls, observed = outs[0]
        ctx.count(("prom", c), nontrivial=any(o[0] == "sched" and o[1] is not None for o in observed))
        if any(o[0] == "sched_raised" for o in observed):
            ctx.violation("property", "PromotionRungSystem.on_task_schedule raised an exception", case=c,
                          signature=dict(scheduler="PromotionRungSystem", defect="on_task_schedule_raises"))
        ctx.h("unit_kind", "promotion_rung_system")
        for o in observed:
            ctx.h("promotion_calls", o[0] if o[0] != "sched" else ("sched_promote" if o[1] is not None else "sched_none"))
        if outs[0][1] != outs[1][1]:
            k = first_divergence(outs[0][1], outs[1][1])
            ctx.violation("property", "PromotionRungSystem: mode %s on f and the other mode on -f diverge at call %s: %r versus %r" % (
                c["mode"], k, outs[0][1][k] if k is not None and k < len(outs[0][1]) else None,
                outs[1][1][k] if k is not None and k < len(outs[1][1]) else None), case=c,
                signature=dict(scheduler="PromotionRungSystem", defect="mode_asymmetry"))
        rungs = lst(["(%s, %s)" % (zlit(lv), q(a / b))
                     for lv, (a, b) in reversed(list(zip(c["levels"], c["quants"])))])
        terms.append("((%s, %s, %s, %s) : prom_case)" % (
            blit(c["mode"] == "min"), zlit(c["max_t"]), rungs,
            lst(["(%s, %s)" % (pev_term(ev), pout_term(o)) for ev, o in zip(calls, observed)])))
    if terms:
        for i in ctx.coq_bad_cases("prom", IMPORTS, PRELUDE, "chk_prom", terms, shard=40):
            ctx.violation("correspondence", "model promotion rung system differs from PromotionRungSystem", case=cases[i],
                          failing_input=False, broken="correspondence chk_prom (model/ModeCores.v prun)")


class FirstObjective:
    """harness-side MOPriority: the first (signed) objective"""

    def __call__(self, objectives):
        return np.array(objectives, dtype=float)[:, 0]


def run_moasha_script(c):
    """Calls on the real MOASHA (one bracket): sparse on_trial_result reports and on_trial_complete with a new result."""
    import random as _random
    from syne_tune.optimizer.schedulers.multiobjective.moasha import MOASHA
    from syne_tune.config_space import uniform
    sch = MOASHA({"x": uniform(0, 1)}, metrics=["m%d" % i for i in range(c["nmet"])], mode=c["modes"], time_attr="epoch",
                 multiobjective_priority=FirstObjective(), max_t=c["max_t"], grace_period=c["grace"],
                 reduction_factor=c["rf"], brackets=1)
    rng = _random.Random(c["script_seed"])
    calls, live, res = [], [], {}
    with contextlib.redirect_stdout(io.StringIO()):
        for t in range(c["trials"]):
            sch.on_trial_add(U.mk_trial(t, {"x": 0.5}))
            live.append(t)
            res[t] = 0
        for _ in range(c["steps"]):
            if not live:
                break
            t = rng.choice(live)
            res[t] += rng.choice([1, 1, 2, 3])
            vals = [rng.choice([rng.uniform(-2, 2), float(rng.randint(-2, 2))]) for _ in range(c["nmet"])]
            result = dict({"epoch": res[t]}, **{"m%d" % i: v for i, v in enumerate(vals)})
            if rng.random() < 0.2:
                sch.on_trial_complete(U.mk_trial(t, {"x": 0.5}), result)
                calls.append((True, t, res[t], vals, None))
                live.remove(t)
            else:
                d = sch.on_trial_result(U.mk_trial(t, {"x": 0.5}), result)
                calls.append((False, t, res[t], vals, d == "CONTINUE"))
                if d != "CONTINUE":
                    sch.on_trial_remove(U.mk_trial(t, {"x": 0.5}))
                    live.remove(t)
    return calls


# rung systems whose quantile never coincides with a rung entry for the numbers of trials used
PROM_SYSTEMS = [dict(levels=[7, 29], max_t=59, quants=[(7, 29), (29, 59)], max_trials=24),
                dict(levels=[5, 11, 23], max_t=47, quants=[(5, 11), (11, 23), (23, 47)], max_trials=10),
                dict(levels=[1, 3], max_t=7, quants=[(3, 13), (7, 17)], max_trials=11),
                dict(levels=[2, 4, 8], max_t=16, quants=[(7, 29), (5, 23), (11, 31)], max_trials=20)]


def run_promotion_script(c, mode, sgn):
    """Drives the real PromotionRungSystem the way HyperbandBracketManager / HyperbandScheduler do."""
    import random as _random
    from syne_tune.optimizer.schedulers.hyperband_promotion import PromotionRungSystem
    rs = PromotionRungSystem(rung_levels=list(c["levels"]), promote_quantiles=[a / b for a, b in c["quants"]], metric="m",
                             mode=mode, resource_attr="epoch", max_t=c["max_t"])
    rng = _random.Random(c["script_seed"])
    calls, outs = [], []
    running, paused, res, skip = [], [], {}, {}
    next_id = 0

    def add(t, sk, resume):
        calls.append(("add", t, sk, resume))
        try:
            if resume is None:
                rs.on_task_add(str(t), skip_rungs=sk, new_config=True)
            else:
                rs.on_task_add(str(t), skip_rungs=sk, new_config=False, milestone=resume[0], resume_from=resume[1])
            outs.append(("add", True))
        except AssertionError:
            outs.append(("add", False))

    for _ in range(c["steps"]):
        x = rng.random()
        if x < 0.35 and (next_id < c["max_trials"] or paused):
            calls.append(("sched",))
            try:
                ret = rs.on_task_schedule(str(next_id))
            except Exception:  # an assertion inside on_task_schedule / _mark_as_promoted escaped
                outs.append(("sched_raised",))
                break
            if ret.get("trial_id") is not None:
                t = int(ret["trial_id"])
                outs.append(("sched", (t, int(ret["resume_from"]), int(ret["milestone"]))))
                add(t, skip[t], (int(ret["milestone"]), int(ret["resume_from"])))
                if t in paused:
                    paused.remove(t)
                running.append(t)
            else:
                outs.append(("sched", None))
                if next_id < c["max_trials"]:
                    t = next_id
                    next_id += 1
                    skip[t] = rng.choice([0, 0, 0, 1])
                    res[t] = 0
                    add(t, skip[t], None)
                    running.append(t)
            continue
        if x < 0.38:
            t = next_id + 40  # never added
            calls.append(("report", t, 1, 0.5))
            outs.append(report(rs, t, 1, sgn * 0.5))
            continue
        if not running:
            continue
        t = rng.choice(running)
        y = rng.random()
        res[t] += 1 if y < 0.97 else 2
        m = _random.Random("%d-%d-%d" % (c["script_seed"], t, res[t])).uniform(0.05, 1.0)
        calls.append(("report", t, res[t], m))
        o = report(rs, t, res[t], sgn * m)
        outs.append(o)
        if o[0] == "report" and not o[1]:
            rs.on_task_remove(str(t))
            calls.append(("remove", t))
            outs.append(("done",))
            running.remove(t)
            if o[3] is not None:  # paused at a rung (not at max_t): may be promoted later
                paused.append(t)
        elif o[0] == "error":
            rs.on_task_remove(str(t))
            calls.append(("remove", t))
            outs.append(("done",))
            running.remove(t)
    return calls, outs


def report(rs, t, r, m):
    try:
        d = rs.on_task_report(str(t), {"epoch": r, "m": m}, skip_rungs=0)
        return ("report", bool(d["task_continues"]), bool(d["milestone_reached"]),
                None if d["next_milestone"] is None else int(d["next_milestone"]), bool(d["ignore_data"]))
    except KeyError:
        return ("error", "PKeyRunning")
    except AssertionError as e:
        return ("error", "PAssertMilestone" if "milestone" in str(e) else "PAssertInRung")


def pev_term(ev):
    if ev[0] == "sched":
        return "PSchedule"
    if ev[0] == "add":
        _, t, sk, resume = ev
        return "PAdd %s %s %s" % (zlit(t), natlit(sk), optlit(resume, lambda r: "(%s, %s)" % (zlit(r[0]), zlit(r[1]))))
    if ev[0] == "report":
        return "PReport %s %s %s" % (zlit(ev[1]), zlit(ev[2]), q(ev[3]))
    return "PRemove %s" % zlit(ev[1])


def pout_term(o):
    if o[0] == "sched_raised":
        return "POSched SAssert"
    if o[0] == "sched":
        return "POSched SNone" if o[1] is None else "POSched (SPromote %s %s %s)" % (zlit(o[1][0]), zlit(o[1][1]), zlit(o[1][2]))
    if o[0] == "add":
        return "POAdd %s" % blit(o[1])
    if o[0] == "report":
        return "POReport (inl (%s, %s, %s, %s))" % (blit(o[1]), blit(o[2]), optlit(o[3], zlit), blit(o[4]))
    if o[0] == "error":
        return "POReport (inr %s)" % o[1]
    return "PODone"


def unit_cases3(ctx, replay):
    """top_k_hyperparameter_configurations (min on E versus max on -E) and real Tuner runs with MOASHA:
    Tuner.best_config per metric index and name in the mirrored experiments"""
    from syne_tune.config_space import uniform, randint
    rng = ctx.rng
    U.quiet()
    cs = {"x": uniform(0, 1), "k": randint(0, 20)}
    cases = []
    if replay is None:
        for _ in range(ctx.n(150, 2000)):
            cases.append(dict(kind="topk", k=rng.randint(1, 4), mode=rng.choice(["min", "max"]),
                              tasks=[dict(n=rng.randint(2, 7), seeds=rng.randint(1, 3), fid=rng.randint(1, 4), seed=rng.randint(0, 10 ** 6))]))
    elif replay.get("kind") == "topk":
        cases = [replay]
    topk_terms, topk_meta = [], []
    for c in cases:
        ev = tl_evaluations(c, 1.0, cs)["task0"]
        evn = tl_evaluations(c, -1.0, cs)["task0"]
        a = ev.top_k_hyperparameter_configurations(c["k"], c["mode"], "m")
        b = evn.top_k_hyperparameter_configurations(c["k"], flip(c["mode"]), "m")
        # independent reference: mean over seeds, best fidelity, best first
        vals = np.asarray(ev.objective_values("m")).mean(axis=1)
        best = vals.min(axis=1) if c["mode"] == "min" else vals.max(axis=1)
        order = sorted(range(len(best)), key=lambda i: best[i] if c["mode"] == "min" else -best[i])[:c["k"]]
        want = ev.hyperparameters.loc[order].to_dict("records")
        ctx.count(("topk", c), nontrivial=c["tasks"][0]["fid"] >= 2 and c["tasks"][0]["n"] >= 3)
        ctx.h("unit_kind", "top_k_hyperparameter_configurations")
        hp_rows = ev.hyperparameters.to_dict("records")
        idx = [hp_rows.index(h) for h in a] if all(h in hp_rows for h in a) else [-1]
        raw = np.asarray(ev.objective_values("m"))  # (n, seeds, fidelities)
        topk_terms.append("((%s, %s, %s, %s) : topk_case)" % (
            blit(c["mode"] == "min"), natlit(c["k"]),
            lst(["(%s, %s)" % (zlit(i), lst([lst([q(float(raw[i, sd, f])) for sd in range(raw.shape[1])]) for f in range(raw.shape[2])]))
                 for i in range(raw.shape[0])]), lst([zlit(i) for i in idx])))
        topk_meta.append(c)
        if a != b or a != want:
            ctx.violation("property", "top_k_hyperparameter_configurations(k=%d, mode=%s) = %r; on negated evaluations with the other "
                          "mode = %r; best-fidelity ranking = %r" % (c["k"], c["mode"], a, b, want), case=c,
                          signature=dict(function="top_k_hyperparameter_configurations", defect="mode_asymmetry"))
    if topk_terms:
        for i in ctx.coq_bad_cases("topk", IMPORTS, PRELUDE, "chk_topk", topk_terms, shard=150):
            ctx.violation("correspondence", "model tl_topk differs from top_k_hyperparameter_configurations", case=topk_meta[i],
                          failing_input=False, broken="correspondence chk_topk (model/ModeCores.v tl_topk)")
    # ---- real Tuner + MOASHA: Tuner.best_config ----
    cases = []
    if replay is None:
        for _ in range(ctx.n(30, 400)):
            nmet = rng.randint(2, 3)
            base = [rng.choice(["min", "max"]) for _ in range(nmet)]
            mask = [rng.random() < 0.6 for _ in range(nmet)]
            if not any(mask):
                mask[rng.randrange(nmet)] = True
            cases.append(dict(kind="tuner", sched="moasha", nmet=nmet, base_modes=base, mask=mask, max_t=9, grace_period=1,
                              reduction_factor=3, brackets=rng.randint(1, 2), seed=rng.randint(0, 10 ** 6),
                              table_seed=rng.randint(0, 10 ** 9), n_workers=rng.randint(1, 3), max_results=rng.randint(10, 60)))
    elif replay.get("kind") == "tuner":
        cases = [replay]
    tbc_terms, tbc_meta = [], []
    for c in cases:
        try:
            with U.watchdog(120):
                outs = [run_tuner(c, 0), run_tuner(c, 1)]
        except (Exception, U.Hang) as e:
            ctx.violation("property", "Tuner run with MOASHA raised %s: %s" % (type(e).__name__, str(e)[:200]), case=c,
                          signature=dict(scheduler="Tuner+MOASHA", defect="raises_" + type(e).__name__))
            continue
        ctx.count(("tuner", c), nontrivial=len(set(m for m, f in zip(c["base_modes"], c["mask"]))) >= 1)
        ctx.h("unit_kind", "tuner_best_config")
        for out, table, is_min in outs:
            for j in range(c["nmet"]):
                impl = [b for (qq, b, _) in out if qq == j]
                if impl:
                    tbc_terms.append("((%s, %s, %s, %s) : tbc_case)" % (
                        lst([blit(x) for x in is_min]), natlit(j),
                        lst(["(%s, %s)" % (zlit(t), lst([lst([q(v) for v in row]) for row in rows])) for t, rows in table]),
                        zlit(impl[0])))
                    tbc_meta.append(c)
        for (q0, b0, ref0), (q1, b1, ref1) in zip(outs[0][0], outs[1][0]):
            if b0 != b1 or b0 != ref0:
                ctx.violation("property", "Tuner.best_config(metric=%r): trial %r with modes %r, trial %r in the mirrored experiment "
                              "(modes %r on the negated metrics %r); the best recorded value belongs to trial %r" % (
                                  q0, b0, c["base_modes"], b1, moasha_modes(c, 1),
                                  [i for i, f in enumerate(c["mask"]) if f], ref0), case=c,
                              signature=dict(function="Tuner.best_config", defect="mode_asymmetry"))
                break
    _tbc_check(ctx, tbc_terms, tbc_meta)


def _tbc_check(ctx, tbc_terms, tbc_meta):
    if tbc_terms:
        for i in ctx.coq_bad_cases("tbc", IMPORTS, PRELUDE, "chk_tbc", tbc_terms, shard=60):
            ctx.violation("correspondence", "model tuner_best_config differs from Tuner.best_config", case=tbc_meta[i],
                          failing_input=False, broken="correspondence chk_tbc (model/ModeCores.v tuner_best_config)")


def run_tuner(c, variant):
    """A short REAL Tuner run (in-memory backend, no sleeping) with MOASHA; returns for every metric, queried by index
    and by name, (query, best trial according to Tuner.best_config, best trial according to the recorded values)."""
    import os
    import shutil
    import tempfile
    old = os.environ.get("SYNETUNE_FOLDER")
    root = tempfile.mkdtemp(prefix="c15-synetune-")
    os.environ["SYNETUNE_FOLDER"] = root
    try:
        from syne_tune import Tuner
        from syne_tune.backend.trial_backend import TrialBackend
        from syne_tune.backend.trial_status import Status
        from pathlib import Path
        spec = dict(c, sched="moasha")
        recorded = []

        class MemBackend(TrialBackend):
            """in-memory workers: every poll each running trial reports its next epoch; completed at max_t"""

            def __init__(self):
                super().__init__()
                self.stamp = 0.0

            def _schedule(self, trial_id, config):
                pass

            def _all_trial_results(self, trial_ids):
                out = []
                for tid in trial_ids:
                    tr = self._trial_dict[tid]
                    if tr.status == Status.in_progress:
                        r = len(tr.metrics) + 1
                        rep = result_of(spec, variant, {}, tid, r)
                        self.stamp += 1.0
                        rep["st_worker_timestamp"] = self.stamp
                        tr.metrics.append(rep)
                        recorded.append((tid, rep))
                        if r >= spec["max_t"]:
                            tr.status = Status.completed
                    out.append(tr)
                return out

            def _pause_trial(self, trial_id, result):
                pass

            def _resume_trial(self, trial_id):
                pass

            def _stop_trial(self, trial_id, result):
                self._trial_dict[trial_id].status = Status.stopped

            def busy_trial_ids(self):
                return [(t, tr.status) for t, tr in self._trial_dict.items() if tr.status == Status.in_progress]

            def stdout(self, trial_id):
                return []

            def stderr(self, trial_id):
                return []

            def copy_checkpoint(self, src_trial_id, tgt_trial_id):
                pass

            def delete_checkpoint(self, trial_id):
                pass

            def entrypoint_path(self):
                return Path("in_memory_worker.py")

            def set_entrypoint(self, entry_point):
                pass

        from syne_tune.tuner_callback import TunerCallback
        seen_rows = {}

        class Seen(TunerCallback):
            """what the tuner has processed, per trial in the order of first appearance"""

            def on_trial_result(self, trial, status, result, decision):
                seen_rows.setdefault(int(trial.trial_id), []).append([float(result["m%d" % j]) for j in range(c["nmet"])])

        sch = build_scheduler(spec, variant)
        n = c["max_results"]
        sink = io.StringIO()
        with contextlib.redirect_stdout(sink):
            tuner = Tuner(trial_backend=MemBackend(), scheduler=sch,
                          stop_criterion=lambda status: status.overall_metric_statistics.count >= n,
                          n_workers=c["n_workers"], sleep_time=0, print_update_interval=1e9, max_failures=1000,
                          tuner_name="c15pair", suffix_tuner_name=False, save_tuner=False, callbacks=[Seen()])
            tuner.run()
            names = ["m%d" % i for i in range(c["nmet"])]
            modes = moasha_modes(c, variant)
            out = []
            # only results the tuner has seen count (the last poll may be cut by the stop criterion): use its status
            seen = tuner.tuning_status.trial_metric_statistics
            for i, name in enumerate(names):
                md = modes if isinstance(modes, str) else modes[i]
                stat = {t: (st.min_metrics if md == "min" else st.max_metrics).get(name) for t, st in seen.items()}
                stat = {t: v for t, v in stat.items() if v is not None}
                ref = (min if md == "min" else max)(stat, key=lambda t: stat[t]) if stat else None
                for query in (i, name):
                    if i == 0 and query == 0:
                        pass
                    out.append((query, int(tuner.best_config(metric=query)[0]), None if ref is None else int(ref)))
            order = [int(t) for t in seen.keys()]
            table = [(t, seen_rows.get(t, [])) for t in order]
        return out, table, [m == "min" for m in (modes if not isinstance(modes, str) else [modes] * c["nmet"])]
    finally:
        shutil.rmtree(root, ignore_errors=True)
        if old is None:
            os.environ.pop("SYNETUNE_FOLDER", None)
        else:
            os.environ["SYNETUNE_FOLDER"] = old


def run(ctx, replay=None):
    ctx.rule = ("cases: (a) pairs of whole runs of a real scheduler (HyperbandScheduler stopping / promotion / pasha / "
                "rush_stopping / rush_promotion, SynchronousGeometricHyperbandScheduler, "
                "GeometricDifferentialEvolutionHyperbandScheduler, MedianStoppingRule, PopulationBasedTraining, FIFOScheduler "
                "with random, RegularizedEvolution and MultiObjectiveRegularizedEvolution searcher (direction given to the "
                "scheduler only, or to scheduler and searcher; population 4..8, >= 3x population trials), MOASHA with "
                "per-metric modes) under a harness-side tuner "
                "loop: mode min on a random metric table f versus mode max on -f (MOASHA: a subset of the metrics flipped "
                "and negated), same seeds and script, in 45% of the pairs with a dill round trip of the scheduler at a random point "
                "of both runs; all suggestions (configs, resumed "
                "trials, checkpoints) and decisions are compared; non-trivial = the run contains a STOP/PAUSE decision or a "
                "resumed trial (REA: a suggestion by mutation); (b) unit cases for get_top_list, MedianStoppingRule, "
                "print_best_metric_found, RegularizedEvolution, MOASHA signed metrics, ExperimentResult.best_config in both "
                "modes and random call scripts on the real PromotionRungSystem (schedule / add / report / remove, unknown "
                "trials, skipped milestones) against model/ModeCores.v, each also paired with its mirror on the real code; "
                "non-trivial = at least two distinct values and a proper cut / a promotion happened; distinct by content hash")
    rng = ctx.rng
    # at most two reported violations per (kind, signature): one defect must not crowd out the replays of another
    # (the check writes at most 8 replay files)
    report, seen = ctx.violation, {}

    def capped(kind, what, case, signature=None, **kw):
        key = (kind, repr(sorted((signature or {}).items())), kw.get("broken"))
        seen[key] = seen.get(key, 0) + 1
        if seen[key] <= 2:
            report(kind, what, case, signature=signature, **kw)
    ctx.violation = capped
    unit_cases(ctx, replay)
    unit_cases2(ctx, replay)
    unit_cases3(ctx, replay)
    if replay is None:
        n_each = ctx.n(70, 700)
        specs = [(gen_pair_spec(rng, kind), None) for kind in KINDS for _ in range(n_each)]
    elif replay.get("kind") == "pair":
        specs = [(replay["spec"], replay.get("overrides"))]
    else:
        specs = []
    n_boundary = n_pairs = 0
    for spec, overrides in specs:
        try:
            with U.watchdog(120):
                a, b, k, boundary, n_dec, n_nontrivial = run_pair(ctx, spec, overrides)
        except (Exception, U.Hang) as e:  # a crash in one mode only / in both is reported with its input
            ctx.violation("property", "scheduler %s raised %s: %s in a paired run" % (spec["sched"], type(e).__name__, str(e)[:200]),
                          case=dict(kind="pair", spec=spec, overrides=overrides or {}),
                          signature=dict(scheduler=spec["sched"], defect="raises_" + type(e).__name__))
            continue
        n_pairs += 1
        n_boundary += boundary
        ctx.count(("pair", spec), nontrivial=n_nontrivial > 0)
        ctx.h("pair_sched", spec["sched"] + (":mode_to_" + spec["mode_to"] if "mode_to" in spec else ""))
        ctx.h("pair_decisions", spec["sched"], n_dec)
        if spec.get("metric_dtype", "py") != "py":
            ctx.h("pair_metric_dtype", spec["metric_dtype"])
        ctx.h("pair_nontrivial_events", spec["sched"], n_nontrivial)
        ctx.h("pair_failures_injected", spec["sched"], sum(1 for e in a if e[0] == "failed"))
        ctx.h("pair_completes_with_new_result", spec["sched"], sum(1 for e in a if e[0] == "completed"))
        if any(e[0] == "restored" for e in a):
            ctx.h("pair_dill_round_trip", spec["sched"])
        if a and a[-1][0] == "raised":
            ctx.h("pair_raised_in_both_modes", "%s:%s" % (spec["sched"], a[-1][3]))
        if boundary:
            ctx.h("pair_boundary_truncated", spec["sched"])
        if k is not None:
            ea = a[k] if k < len(a) else None
            eb = b[k] if k < len(b) else None
            ctx.violation("property", "%s: mode min on f and mode max on -f diverge at event %d: %r versus %r" % (
                spec["sched"], k, ea, eb), case=dict(kind="pair", spec=spec, overrides=overrides or {}),
                signature=dict(scheduler=spec["sched"], defect="mode_asymmetry",
                               event=(ea or eb or ["?"])[0]))
        elif n_pairs <= 2:
            ctx.sample(dict(kind="pair", spec=spec, events=len(a), first=[list(e) for e in a[:6]]))
    ctx.notes.append("paired runs: %d, truncated at a Boundary decision (exact cutoff within round-off, 8(n+1) half-ulps, of the metric; only possible "
                     "for the tie-prone stopping configurations): %d" % (n_pairs, n_boundary))
