"""C11 — seeded runs are reproducible: twin-run differential search on the REAL code (independent checker),
dynamic validation of the translator's over-approximation, and a translator self-test by mutation.

* twin runs: every case (scheduler kind, arguments, random_seed, event seed) is executed twice, each time in a FRESH
  process (harness/c11_worker.py, /venv/bin/python, PYTHONPATH=<repo>:/verif/harness) under a different PYTHONHASHSEED,
  with different perturbations of numpy.random / random between all calls and (twin B, model-free schedulers) unrelated
  scheduler objects created and stepped in between.  The full traces (suggestions incl. configs bit-exactly,
  decisions, errors) must be identical and the global generators must not be consumed by the seeded scheduler.
  GP searchers: fresh-process twins, no interleaving.  Simulated experiments: real Tuner + SimulatorBackend over a
  synthetic tabular blackbox (backend seed given, real time stubbed): the result tables must be identical.
* static-vs-dynamic: for profiled cases every syne_tune function that was executed must be inside the static
  reachable set of the case's configuration (harness/translate_effects.py facts, same sets as the Coq theorems use).
* self-test: a copy of the source under /tmp gets a function with a np.random call wired into RandomSeedGenerator;
  the regenerated facts must make the Coq check fail and the twin-run recorder must flag the consumption.
"""
import ast
import json
import os
import re
import shutil
import subprocess
import tempfile
from concurrent.futures import ThreadPoolExecutor

import common
import translate_effects as T

WORKER = os.path.join(common.VERIF, "harness", "c11_worker.py")
PY = "/venv/bin/python"

SPACES = [
    [["lr", "loguniform", [1e-4, 1.0]], ["bs", "randint", [1, 64]], ["act", "choice", [["relu", "tanh", "gelu"]]],
     ["w", "uniform", [0.0, 1.0]]],
    [["a", "uniform", [-1.0, 1.0]], ["b", "lograndint", [1, 1000]], ["c", "choice", [["x", "y"]]]],
    [["opt", "choice", [["adam", "sgd", "rmsprop", "lamb"]]], ["layers", "randint", [1, 5]],
     ["drop", "uniform", [0.0, 0.9]], ["units", "finrange", [16.0, 256.0, 16]], ["k", "const", [3]]],
    [["o", "ordinal", [["s", "m", "l", "xl"]]], ["wd", "reverseloguniform", [0.5, 0.999]], ["n", "logfinrange", [8.0, 512.0, 7]]],
    [["x", "uniform", [0.0, 1.0]]],
    [["opt", "choice", [["adam", "sgd", "rmsprop", "lamb", "adagrad"]]], ["act", "choice", [["relu", "tanh", "gelu", "swish"]]],
     ["norm", "choice", [["batch", "layer", "none"]]], ["size", "ordinal", [["xs", "s", "m", "l"]]]],
    # quantised domains (every constructor) mixed with ordinary ones
    [["lr", "qloguniform", [1e-3, 1.0, 1e-3]], ["mom", "quniform", [0.0, 1.0, 0.05]], ["bs", "qrandint", [8, 128, 8]],
     ["steps", "qlograndint", [1, 1000, 5]], ["act", "choice", [["relu", "tanh"]]], ["w", "uniform", [0.0, 1.0]]],
    [["drop", "quniform", [0.0, 0.8, 0.1]], ["layers", "randint", [1, 20]], ["units", "qrandint", [16, 256, 16]]],
]
GP_SPACES = [0, 1, 2, 7]
GRID_SPACES = [0, 2, 4, 5, 7]


def alt_space(rng, space):
    """a DIFFERENT configuration space that reuses the hyperparameter NAMES with smaller ranges"""
    out = []
    for name, kind, args in space:
        if kind in ("randint", "lograndint"):
            out.append([name, "randint", [args[0], args[0] + rng.choice([1, 2, 3])]])
        elif kind in ("qrandint", "qlograndint"):
            out.append([name, "randint", [max(1, args[0]), max(1, args[0]) + 2]])
        elif kind in ("uniform", "quniform"):
            out.append([name, "uniform", [args[0], args[0] + (args[1] - args[0]) / 4.0]])
        elif kind in ("choice", "ordinal"):
            out.append([name, kind, [args[0][:2]]])
        elif kind == "const":
            out.append([name, kind, args])
        else:
            out.append([name, "randint", [1, 3]])
    return out

# (grace_period, reduction_factor, max_t) -> rung levels; grouped by the NUMBER of rung levels (values differ)
RUNG_LAYOUTS = {
    2: [(1, 3, 9), (2, 2, 8), (1, 2, 4), (1, 4, 16), (3, 3, 27)],
    3: [(1, 3, 27), (2, 2, 16), (1, 2, 8), (3, 3, 81), (1, 4, 64)],
}

MODEL_FREE_VARIANTS = [
    ("fifo", {"searcher": "random"}, "fifo_random"),
    ("fifo", {"searcher": "grid"}, "fifo_grid"),
    ("fifo", {"searcher": "rea"}, "fifo_rea"),
    ("hyperband", {"searcher": "random", "type": "stopping"}, "hyperband_random"),
    ("hyperband", {"searcher": "random", "type": "promotion"}, "hyperband_random"),
    ("hyperband", {"searcher": "random", "type": "pasha"}, "hyperband_random"),
    ("hyperband", {"searcher": "random", "type": "rush_stopping"}, "hyperband_random"),
    ("hyperband", {"searcher": "random", "type": "rush_promotion"}, "hyperband_random"),
    ("hyperband", {"searcher": "random", "type": "cost_promotion"}, "hyperband_random"),
    ("synchb", {"searcher": "random"}, "synchb_random"),
    ("dehb", {}, "dehb"),
    ("dehb", {"searcher": "random"}, "dehb"),
    ("pbt", {}, "pbt"),
    ("msr", {}, "msr"),
]
GP_VARIANTS = [
    ("fifo", {"searcher": "bayesopt"}, "fifo_bayesopt"),
    ("hyperband", {"searcher": "bayesopt", "type": "stopping"}, "hyperband_bayesopt"),
    ("hyperband", {"searcher": "bayesopt", "type": "promotion"}, "hyperband_bayesopt"),
    ("hyperband", {"searcher": "hypertune", "type": "stopping"}, "hyperband_hypertune"),
    ("hyperband", {"searcher": "dyhpo", "type": "dyhpo"}, "hyperband_dyhpo"),
    ("synchb", {"searcher": "bayesopt"}, "synchb_bayesopt"),
]
OTHER_KINDS = [["fifo", {"searcher": "random"}], ["hyperband", {"searcher": "random", "type": "stopping", "max_t": 9}],
               ["hyperband", {"searcher": "random", "type": "promotion", "max_t": 9}], ["pbt", {"max_t": 6}],
               ["fifo", {"searcher": "grid"}], ["synchb", {"searcher": "random", "max_t": 9}]]


# ---------------------------------------------------------------------------------------------------------
# case generation
# ---------------------------------------------------------------------------------------------------------
def gen_sched_case(rng, variant, gp=False, profile=False, rich=False, capped=False):
    kind, base, cfg = variant
    p = dict(base)
    if kind in ("hyperband", "synchb", "dehb"):
        p["max_t"] = rng.choice([4, 9, 9, 16, 27])
        p["rf"] = rng.choice([2, 3, 3, 4])
        p["grace"] = rng.choice([1, 1, 2])
        if p.get("type") == "pasha":
            p["max_t"], p["rf"] = rng.choice([(9, 3), (16, 2), (27, 3), (9, 2)])   # PASHA needs >= 3 rung levels
        if kind == "hyperband":
            # PASHA supports a single bracket only (IndexError otherwise)
            p["brackets"] = 1 if p.get("type") == "pasha" else rng.choice([1, 1, 2, 3])
        elif rng.random() < 0.5:
            p["brackets"] = rng.choice([1, 2])
    elif kind == "pbt":
        p["max_t"] = rng.choice([6, 8, 12])
        p["population_size"] = rng.choice([2, 3, 4])
        p["perturbation_interval"] = rng.choice([1, 2, 3])
        p["quantile_fraction"] = rng.choice([0.25, 0.34, 0.5])
        p["resample_probability"] = rng.choice([0.0, 0.3, 0.5, 1.0])
    elif kind == "msr":
        p["max_t"] = rng.choice([4, 6, 8])
        p["grace_population"] = rng.choice([1, 2, 3])
        p["rank_cutoff"] = rng.choice([0.3, 0.5, 0.7])
    else:
        p["max_t"] = rng.choice([1, 3, 4, 6])
        if base.get("searcher") == "rea":
            p["population_size"] = rng.choice([2, 4, 6])
            p["sample_size"] = rng.choice([1, 2])
    p["mode"] = rng.choice(["min", "max"])
    if gp:
        p["search_options"] = {"num_init_random": rng.choice([1, 2, 3]), "opt_maxiter": rng.choice([3, 8]),
                               "opt_nstarts": rng.choice([1, 2]), "num_init_candidates": rng.choice([10, 30])}
        if base.get("searcher") == "bayesopt" and rng.random() < 0.3:
            p["search_options"]["opt_skip_init_length"] = 2
        if kind == "fifo" and base.get("searcher") == "bayesopt" and (capped or rng.random() < 0.4):
            # more observations than the cap of the surrogate's data set: the random down-sampling of the
            # observations (max_size_data_for_model, max_size_top_fraction < 1) must use the seeded generator;
            # >= 12 sequential trials, both global generators perturbed differently in the twins between calls
            p["search_options"].update(max_size_data_for_model=rng.choice([4, 5, 6]),
                                       max_size_top_fraction=rng.choice([0.25, 0.34, 0.5]),
                                       num_init_random=rng.choice([2, 3]))
            p["max_t"] = 1
            capped = True
    space = SPACES[rng.choice(GP_SPACES)] if gp else rng.choice(SPACES)
    if base.get("searcher") == "grid":
        space = SPACES[rng.choice(GRID_SPACES)]
    # searcher options inside the property's quantifier: restrict_configurations, points_to_evaluate (entries inside
    # / outside the restricted list, partial entries, the empty list), allow_duplicates both ways
    searcher = base.get("searcher")
    opts = None
    if kind != "dehb" and rng.random() < (0.85 if rich else 0.4):
        opts = dict(opt_seed=rng.randrange(2 ** 31), restrict_n=0, p2e_given=False)
        if searcher in ("random", "bayesopt") or kind in ("pbt", "msr"):
            if rng.random() < (0.8 if rich else 0.5):
                opts["restrict_n"] = rng.choice([6, 12, 24, 40])
        if rng.random() < (0.9 if rich else 0.7):
            opts["p2e_given"] = True
            opts["p2e_inside"] = rng.choice([0, 1, 2, 3]) if opts["restrict_n"] else 0
            opts["p2e_outside"] = rng.choice([0, 0, 1, 2])
            opts["p2e_partial"] = rng.choice([0, 0, 1, 2]) if not opts["restrict_n"] else 0
        p["opts"] = opts
    if searcher in ("random", "bayesopt") and rng.random() < 0.4:
        so = dict(p.get("search_options") or {})
        so["allow_duplicates"] = rng.random() < 0.5
        p["search_options"] = so
    case = dict(kind=kind, config=cfg, params=p, space=space, random_seed=rng.randrange(2 ** 31),
                event_seed=rng.randrange(2 ** 31), perturb_seed=rng.randrange(2 ** 31),
                workers=rng.choice([1, 2, 3, 4]), steps=rng.choice([18, 30] if gp else [25, 60, 120]),
                interleave=(not gp), other_kinds=OTHER_KINDS if not gp else [], profile=profile,
                ties=rng.random() < 0.3, p_fail=rng.choice([0.0, 0.05, 0.15]))
    if gp and capped and kind == "fifo":
        case.update(workers=1, steps=rng.choice([36, 44]), p_fail=0.0, capped_data=True)
    layout_other = None
    if kind == "hyperband" and not gp and p.get("type") != "pasha" and rng.random() < 0.45:
        # several brackets; an unrelated instance gets the same number of brackets and of rung levels but
        # different level VALUES (or, less often, the same values and another count); enough trials that the
        # seeded bracket draws matter
        nlev = rng.choice([2, 3])
        la, lb = rng.sample(RUNG_LAYOUTS[nlev], 2)
        if rng.random() < 0.2:
            lb = rng.choice(RUNG_LAYOUTS[5 - nlev])
        p["grace"], p["rf"], p["max_t"] = la
        p["brackets"] = rng.randint(2, nlev)
        layout_other = lb
        steps_override = rng.choice([120, 160])
    else:
        steps_override = None
    if not gp:
        # unrelated instances of the same class with explicit non-default nested options (see c11_worker.pollute)
        pol = []
        for _ in range(rng.choice([1, 1, 2])):
            pp = dict(p)
            pp.pop("opts", None)
            pp["search_options"] = dict(pp.get("search_options") or {}, allow_duplicates=rng.random() < 0.5)
            pp["share_opts"] = rng.random() < 0.5
            if rng.random() < 0.5:
                # another space under the same hyperparameter names (smaller ranges); nothing is shared then
                pp["alt_space"] = alt_space(rng, space)
                pp["share_opts"] = False
            if kind == "hyperband":
                pp["type"] = rng.choice([p["type"], "rush_stopping", "rush_promotion", "stopping"])
                if pp["type"] == "pasha" or p.get("type") == "pasha":
                    pp["type"] = p["type"]
                pp["rung_system_kwargs"] = {"num_threshold_candidates": rng.choice([1, 2, 3])}
                if pp["type"] == "cost_promotion":
                    pp["type"] = "promotion"
            if layout_other is not None:
                pp["grace"], pp["rf"], pp["max_t"] = layout_other
                pp["brackets"] = min(p["brackets"], 2 if layout_other in RUNG_LAYOUTS[2] else 3)
                if rng.random() < 0.7:
                    pp["type"] = p["type"] if p["type"] != "cost_promotion" else "promotion"
            pol.append([kind, pp])
        case["polluters"] = pol
        if steps_override:
            case["steps"] = steps_override
            case["workers"] = rng.choice([2, 3, 4])
            case["layout"] = "multi-bracket, unrelated instance with other rung level values"
        if kind == "hyperband" and str(p.get("type", "")).startswith("rush"):
            if rng.random() < 0.7:
                case["loss_profile"] = "rush"
            if rng.random() < 0.5:
                # RUSH with its own threshold candidates; the unrelated instances are RUSH schedulers of the same
                # type and rung levels with threshold candidates of their own, whose losses are shifted by a
                # constant and who report at the same rung levels
                p["rung_system_kwargs"] = {"num_threshold_candidates": rng.choice([1, 2, 3])}
                for _, pp in pol:
                    pp.update(type=p["type"], grace=p.get("grace", 1), rf=p.get("rf", 3), max_t=p["max_t"],
                              brackets=p.get("brackets", 1), mode=p["mode"],
                              rung_system_kwargs={"num_threshold_candidates": rng.choice([1, 2, 3])},
                              loss_shift=(-10.0 if p["mode"] == "min" else 10.0) * rng.choice([1, 1, -1]),
                              report_epochs=min(p["max_t"], 9), initial_trials=rng.choice([2, 3, 4]))
                    pp.pop("alt_space", None)
                case["layout"] = None
                case["rush_interleaved"] = True
    if kind == "dehb":
        # DEHB after trial failures: suggest() did not terminate before /repo commit 6439fb9 (C05 finding F-C05-2,
        # dehb_bracket_manager.trial_id_from_parent_slot) and still raises KeyError / AssertionError (F-C05-3/4);
        # not a C11 matter, so DEHB histories here contain no failures (the worker has a per-case time limit)
        case["p_fail"] = 0.0
    if kind in ("fifo", "hyperband", "pbt", "msr") and not gp and rng.random() < 0.15:
        case["no_clock"] = True     # no TimeKeeper passed: the real clock must not influence suggestions / decisions
        case["profile"] = False     # (outside the static configurations, which fix "a TimeKeeper is passed")
    return case


def gen_sim_case(rng):
    variant = rng.choice([("fifo", {"searcher": "random"}), ("hyperband", {"searcher": "random", "type": "stopping"}),
                          ("hyperband", {"searcher": "random", "type": "promotion", "brackets": 2}),
                          ("hyperband", {"searcher": "random", "type": "pasha"})])
    sim = dict(kind=variant[0], params=dict(variant[1]), random_seed=rng.randrange(2 ** 31),
               perturb_seed=rng.randrange(2 ** 31), table_seed=rng.randrange(2 ** 31),
               nx=rng.choice([3, 5, 6]), ny=rng.choice([2, 4, 5]), max_t=rng.choice([3, 9, 9]),
               num_seeds=rng.choice([1, 3]), backend_seed=None, max_trials=rng.choice([6, 12, 20]),
               workers=rng.choice([1, 2, 4]))
    sim["backend_seed"] = rng.randrange(sim["num_seeds"])
    if sim["params"].get("type") == "pasha":
        sim["max_t"] = 9
    return dict(kind="sim", config="sim_experiment", sim=sim)


# ---------------------------------------------------------------------------------------------------------
# running twins
# ---------------------------------------------------------------------------------------------------------
def run_worker(twin, hashseed, cases, repo=None, timeout=1200):
    env = common.impl_python_env()
    repo = repo or common.REPO
    env["PYTHONPATH"] = repo + os.pathsep + os.path.join(common.VERIF, "harness")
    env["VERIF_REPO"] = repo
    env["PYTHONHASHSEED"] = str(hashseed)
    env["PYTHONDONTWRITEBYTECODE"] = "1"
    for k in ("OMP_NUM_THREADS", "OPENBLAS_NUM_THREADS", "MKL_NUM_THREADS"):
        env[k] = "1"
    p = subprocess.run(["timeout", str(timeout), PY, WORKER], input=json.dumps(dict(twin=twin, cases=cases)),
                       stdout=subprocess.PIPE, stderr=subprocess.PIPE, text=True, env=env, cwd="/tmp")
    for line in p.stdout.split("\n"):
        if line.startswith("@@C11@@"):
            return json.loads(line[7:])["results"]
    raise RuntimeError("c11 worker (twin %s) produced no result: rc=%s %s" % (twin, p.returncode, p.stderr[-1500:]))


def run_twins(batches, hashseeds, repo=None, jobs=8, timeout=1200):
    """batches: list of case lists. Returns list (per batch) of (resultsA, resultsB)."""
    work = []
    for bi, cases in enumerate(batches):
        work.append((bi, "A", hashseeds[0], cases))
        work.append((bi, "B", hashseeds[1], cases))
    out = {}
    with ThreadPoolExecutor(max_workers=jobs) as ex:
        for (bi, twin, _, _), res in zip(work, ex.map(lambda w: run_worker(w[1], w[2], w[3], repo, timeout), work)):
            out[(bi, twin)] = res
    return [(out[(bi, "A")], out[(bi, "B")]) for bi in range(len(batches))]


def first_diff(ta, tb):
    for i, (x, y) in enumerate(zip(ta or [], tb or [])):
        if x != y:
            return i, x, y
    if len(ta or []) != len(tb or []):
        i = min(len(ta or []), len(tb or []))
        return i, (ta or [None] * (i + 1))[i] if i < len(ta or []) else None, (tb[i] if i < len(tb or []) else None)
    return None


def gen_mo_case(rng, seed_mode=None):
    """MultiObjectiveMultiSurrogateSearcher, seeded via random_seed_generator or random_seed, run well past the
    initial random phase"""
    space = rng.choice([[["x", "uniform", [0.0, 1.0]], ["y", "uniform", [0.0, 1.0]]],
                        [["x", "uniform", [0.0, 1.0]], ["y", "loguniform", [1e-3, 1.0]], ["k", "randint", [1, 9]]],
                        [["a", "uniform", [-1.0, 1.0]], ["b", "quniform", [0.0, 1.0, 0.1]], ["c", "choice", [["u", "v", "w"]]]]])
    mo = dict(seed_mode=seed_mode or rng.choice(["generator", "seed"]), random_seed=rng.randrange(2 ** 31),
              perturb_seed=rng.randrange(2 ** 31), event_seed=rng.randrange(2 ** 31), space=space,
              n_metrics=rng.choice([2, 2, 3]), n_init=rng.choice([2, 3, 4]), n_cand=rng.choice([30, 100]),
              n_suggest=rng.choice([12, 16, 20]), mode="min", p_fail=rng.choice([0.0, 0.0, 0.1]))
    return dict(kind="mo_searcher", config="mo_multisurrogate", mo=mo)


def gen_pasha_long(rng, profile=None, thorough=False):
    profile = profile or rng.choice(["bimodal", "crisscross"])
    pl = dict(profile=profile, mseed=rng.randrange(0, 200), rf=3, grace=1, max_t=27, workers=4,
              n_events=rng.choice([900, 1200] if not thorough else [1200, 1600, 2000]),
              random_seed=rng.randrange(2 ** 31), perturb_seed=rng.randrange(2 ** 31))
    if profile == "bimodal":
        pl.update(b_period=rng.choice([14, 16, 18]), d_start=rng.choice([150, 165, 180]), mseed=rng.choice([0, 0, 1, 2]),
                  level_a=0.1, level_b=rng.choice([0.3, 0.3, 0.35]), n_events=max(pl["n_events"], 900))
    else:
        pl.update(rf=rng.choice([3, 3, 2]))
    return dict(kind="pasha_long", config="hyperband_random", pl=pl)


def run_pasha_long_cases(ctx, cases, repo=None):
    """fresh processes under PYTHONHASHSEED 0 versus 1, 2, 3 (different perturbations of the global generators)"""
    if not cases:
        return
    seeds = [("A", 0), ("B", 1), ("C", 2), ("D", 3)]
    with ThreadPoolExecutor(max_workers=4) as ex:
        res = list(ex.map(lambda th: run_worker(th[0], th[1], cases, repo, 1500), seeds))
    for i, c in enumerate(cases):
        done = False
        for (tw, hs), r in zip(seeds[1:], res[1:]):
            before = len(ctx.violations)
            if not done:
                judge(ctx, c, res[0][i], r[i], (0, hs))
                done = len(ctx.violations) > before
        tr = res[0][i].get("trace") or []
        ctx.h("pasha_long", "events>=800" if len(tr) >= 800 else "events<800")
        ctx.h("pasha_long", "trials>=160" if sum(1 for t in tr if t[0] == "start") >= 160 else "trials<160")


def variant_sig(case):
    if case["kind"] == "mo_searcher":
        return dict(scheduler="MultiObjectiveMultiSurrogateSearcher", variant="seeded via " + case["mo"]["seed_mode"],
                    searcher="mo_multisurrogate")
    if case["kind"] == "pasha_long":
        return dict(scheduler="hyperband", variant="pasha", searcher="random", check="pasha_long",
                    profile=case["pl"]["profile"])
    if case["kind"] == "sim":
        return dict(scheduler="sim:" + case["sim"]["kind"], variant=case["sim"]["params"].get("type", case["sim"]["params"].get("searcher")))
    return dict(scheduler=case["kind"], variant=str(case["params"].get("type") or case["params"].get("searcher") or ""),
                searcher=str(case["params"].get("searcher", "")))


def judge(ctx, case, ra, rb, hashseeds, facts=None, funcmap=None):
    """independent checker on the implementation's output of one twin pair"""
    sig = variant_sig(case)
    rcase = dict(case=case, hashseeds=list(hashseeds))
    for r in (ra, rb):
        if "harness_error" in r:
            ctx.violation("correspondence", "c11 worker failed on a case: %s" % r["harness_error"], case=rcase,
                          failing_input=False, broken="driver drivers/c11.py (worker)")
            return
    if any(str(r.get("error") or "").startswith("Timeout") for r in (ra, rb)):
        # a call that does not return within the per-case limit (machine load or a non-terminating scheduler
        # call): nothing to compare, not a reproducibility verdict
        ctx.count(("timeout", case), nontrivial=False)
        ctx.h("errors", "Timeout")
        ctx.notes.append("case timed out (not judged): %s" % json.dumps(variant_sig(case)))
        return
    key = "table" if case["kind"] == "sim" else "trace"
    for r, tw in ((ra, "A"), (rb, "B")):
        if r.get("consumed"):
            where = sorted(set("%s:%s" % (a, b) for a, b in r["consumed"]))
            ctx.violation("property",
                          "seeded %s consumed a global generator during %s (twin %s)" % (sig, where[:4], tw),
                          case=rcase, signature=dict(sig, defect="global_generator_consumed",
                                                     generator=sorted(set(b for _, b in r["consumed"]))[0]))
            break
    changed = [(tw, r["caller_list_changed"]) for r, tw in ((ra, "A"), (rb, "B")) if r.get("caller_list_changed")]
    differs = ra.get(key) != rb.get(key) or ra.get("error") != rb.get("error")
    if changed:
        # shape of finding F-C11-1: the restrict_configurations list handed in by the caller was modified
        shared = bool(ra.get("shared_restrict") or rb.get("shared_restrict"))
        ctx.violation("property",
                      "the caller's restrict_configurations list was modified by a seeded %s (length %s -> %s in twin %s)%s%s"
                      % (sig, changed[0][1][0], changed[0][1][1], changed[0][0],
                         "; the same list object is held by unrelated instances" if shared else "",
                         "; twin outcomes differ" if differs else ""),
                      case=rcase, signature=dict(sig, check="unrelated_instance", shared="restrict_configurations"))
        differs = False     # reported with the structural signature above
    if differs:
        if case["kind"] == "sim":
            cols = [c for (c, v), (_, w) in zip(ra.get("table") or [], rb.get("table") or []) if v != w]
            what = "twin simulated experiments differ in columns %s (errors %r / %r)" % (cols[:6], ra.get("error"), rb.get("error"))
            ev = "table"
        else:
            d = first_diff(ra.get("trace"), rb.get("trace"))
            what = "twin traces differ at event %s: %s vs %s (errors %r / %r)" % (
                d[0] if d else "-", json.dumps(d[1])[:160] if d else "", json.dumps(d[2])[:160] if d else "",
                ra.get("error"), rb.get("error"))
            ev = (d[1] or d[2] or ["?"])[0] if d else "error"
        ctx.violation("property", "same arguments, seed and history, different outcome: " + what, case=rcase,
                      signature=dict(sig, defect="twin_difference", first_event=str(ev)))
    # statistics
    if case["kind"] == "mo_searcher":
        tr = ra.get("trace") or []
        ctx.count(("mo", case), nontrivial=len(tr) > case["mo"]["n_init"] + 3 and not ra.get("error"))
        ctx.h("variant", "mo_multisurrogate/%s" % case["mo"]["seed_mode"])
        if ra.get("error"):
            ctx.h("errors", ra["error"].split(":")[0])
        return
    if case["kind"] == "pasha_long":
        tr = ra.get("trace") or []
        if (hashseeds[1] == 1) or differs:
            ctx.count(("pasha_long", case), nontrivial=sum(1 for t in tr if t[0] == "start") >= 100 and not ra.get("error"))
            ctx.h("variant", "hyperband/pasha long (%s)" % case["pl"]["profile"])
            if ra.get("error"):
                ctx.h("errors", ra["error"].split(":")[0])
        return
    if case["kind"] != "sim":
        tr = ra.get("trace") or []
        kinds = {}
        for t in tr:
            kinds[t[0]] = kinds.get(t[0], 0) + 1
        nontrivial = kinds.get("start", 0) >= 2 and kinds.get("result", 0) >= 3 and ra.get("error") is None
        ctx.count(("sched", case), nontrivial=nontrivial)
        ctx.h("variant", "%s/%s" % (sig["scheduler"], sig["variant"]))
        ctx.h("clock", "real (no TimeKeeper)" if case.get("no_clock") else "scripted TimeKeeper")
        o = case["params"].get("opts") or {}
        ctx.h("options", "restrict_configurations" if o.get("restrict_n") else "no restrict_configurations")
        ctx.h("options", "points_to_evaluate: " + ("default" if not o.get("p2e_given") else (
            "empty" if not (o.get("p2e_inside") or o.get("p2e_outside") or o.get("p2e_partial")) else
            "+".join(k[4:] for k in ("p2e_inside", "p2e_outside", "p2e_partial") if o.get(k)))))
        ad = (case["params"].get("search_options") or {}).get("allow_duplicates")
        ctx.h("options", "allow_duplicates=%s" % ("default" if ad is None else ad))
        if case.get("targeted"):
            ctx.h("targeting", "targeted_cases_judged")
        ctx.h("options", "unrelated instances with explicit nested options: %d" % len(case.get("polluters") or []))
        if ra.get("shared_restrict"):
            ctx.h("options", "restrict_configurations list object shared with unrelated instances")
        if case.get("rush_interleaved"):
            ctx.h("options", "RUSH twin with threshold candidates, unrelated RUSH instances with shifted losses")
        if case.get("capped_data"):
            ctx.h("options", "GP FIFO twin with max_size_data_for_model in {4,5,6} (>= 12 sequential trials)")
        if case.get("long_hypertune"):
            ctx.h("options", "long Hyper-Tune twin (>= 30 suggestions)")
        if case.get("layout"):
            ctx.h("options", case["layout"])
        if case.get("loss_profile"):
            ctx.h("options", "loss profile separating ASHA from RUSH")
        ctx.h("trace_len", min(len(tr) // 20 * 20, 120))
        for k in ("start", "resume", "result", "error", "complete"):
            ctx.h("events", k, kinds.get(k, 0))
        for t in tr:
            if t[0] == "result":
                ctx.h("decisions", t[3])
        if ra.get("error"):
            ctx.h("errors", ra["error"].split(":")[0])
    else:
        nrows = len((ra.get("table") or [[None, []]])[0][1]) if ra.get("table") else 0
        ctx.count(("sim", case), nontrivial=nrows >= 5 and ra.get("error") is None)
        ctx.h("variant", "sim/%s/%s" % (sig["scheduler"], sig["variant"]))
        ctx.h("sim_rows", nrows // 20 * 20)
        if ra.get("error"):
            ctx.h("errors", ra["error"].split(":")[0])
    # executed functions inside the static reachable set of the configuration
    if facts is not None and ra.get("executed") is not None and case.get("config") in facts["configs"]:
        reach = facts["_reach"][case["config"]]
        miss = []
        for r in (ra, rb):
            for (fn, line, name) in r.get("executed") or []:
                fid = funcmap(fn, line)
                if fid is not None and fid not in reach:
                    miss.append("%s:%s %s" % (fn, line, name))
        ctx.traces_validated += 1
        for r in (ra, rb):
            dynamic_graph_checks(ctx, case, r, facts, funcmap, rcase, sig)
        if miss:
            ctx.violation("correspondence",
                          "functions executed in a %s run are outside the static reachable set of configuration %s "
                          "(translator blind spot): %s" % (sig, case["config"], sorted(set(miss))[:8]),
                          case=rcase, failing_input=False,
                          broken="translator over-approximation (harness/translate_effects.py call graph)")


class GraphIndex:
    """the generated graph of one configuration (guards applied), indexed for the dynamic checks"""

    def __init__(self, facts, cfg):
        v = facts["configs"][cfg]
        off = set(v["off"])
        self.kind = [k for k, _ in facts["nodes"]]
        self.name = [n for _, n in facts["nodes"]]
        self.roots = set(v["roots"])
        self.by_src, self.by_cond = {}, {}
        for a, b, c, ls in facts["edges"]:
            if any(l in off for l in ls):
                continue
            self.by_src.setdefault(a, []).append((a, b, c))
            self.by_cond.setdefault(c, []).append((a, b, c))

    def is_fn(self, x):
        return self.kind[x - 1] == "F"


def check_trace_justified(gi, order):
    """order: [(fid, dynamic caller fid or None)] in order of FIRST execution.  Mirrors the Coq predicate [Justified]:
    a function may run only if it is an entry point or the target of a live edge whose source and condition were
    touched earlier (pseudo nodes - classes, method names, module variables, @rsnone twins - are touched as soon
    as an edge into them can fire).  Returns (n_entry, n_justified, n_by_caller, unjustified list)."""
    touched, ready = {1}, set()
    pend = []

    def touch(x):
        stack = [x]
        while stack:
            y = stack.pop()
            if y in touched:
                continue
            touched.add(y)
            for (a, b, c) in gi.by_src.get(y, []) + gi.by_cond.get(y, []):
                if a in touched and c in touched:
                    if gi.is_fn(b):
                        ready.add(b)
                    elif b not in touched:
                        stack.append(b)

    touched.discard(1)
    touch(1)
    for r in gi.roots:
        if not gi.is_fn(r):
            touch(r)
    n_entry = n_just = n_by_caller = 0
    bad = []
    for fid, caller in order:
        if fid in touched:
            continue
        if fid in ready:
            n_just += 1
            if caller is not None and one_step(gi, caller, fid, touched):
                n_by_caller += 1
        elif fid in gi.roots:
            n_entry += 1
        else:
            bad.append((fid, caller))
        touch(fid)
    return n_entry, n_just, n_by_caller, bad


def one_step(gi, u, v, touched):
    """v is the target of a path from u that passes only through pseudo nodes (conditions: touched nodes)"""
    seen, stack = {u}, [u]
    while stack:
        y = stack.pop()
        for (a, b, c) in gi.by_src.get(y, []):
            if c not in touched and c != 1:
                continue
            if b == v:
                return True
            if not gi.is_fn(b) and b not in seen:
                seen.add(b)
                stack.append(b)
    return False


def dynamic_graph_checks(ctx, case, r, facts, funcmap, rcase, sig):
    """translator obligation, tested on a profiled run: (1) the trace of first executions is justified by the generated
    graph, (2) every dynamic caller->callee edge has a static counterpart (reported; callables created elsewhere do
    not), (3) a function inside which a global generator was consumed carries that effect in the facts"""
    cfg = case.get("config")
    if r.get("order") is None or cfg not in facts["configs"]:
        return
    gi = facts.setdefault("_gi", {}).get(cfg)
    if gi is None:
        gi = facts["_gi"][cfg] = GraphIndex(facts, cfg)
    order = []
    for fn, line, name, caller in r["order"]:
        fid = funcmap(fn, line)
        if fid is None:
            continue
        cid = funcmap(caller[0], caller[1]) if caller else None
        if not order or order[-1][0] != fid:
            order.append((fid, cid if cid != fid else None))
    n_entry, n_just, n_by_caller, bad = check_trace_justified(gi, order)
    ctx.h("dynamic_trace", "functions first executed", n_entry + n_just + len(bad))
    ctx.h("dynamic_trace", "entry points called by the harness", n_entry)
    ctx.h("dynamic_trace", "justified by an edge from an earlier touched node", n_just)
    ctx.h("dynamic_trace", "  ... of these: edge from the dynamic caller itself", n_by_caller)
    ctx.h("dynamic_trace", "NOT justified", len(bad))
    if bad:
        ctx.violation("correspondence",
                      "translator: functions ran in a %s run although no live edge of the generated graph (configuration "
                      "%s) leads to them from anything touched earlier: %s" % (
                          sig, cfg, ["%s (called from %s)" % (gi.name[f - 1], gi.name[c - 1] if c else "harness")
                                     for f, c in bad[:6]]),
                      case=rcase, failing_input=False,
                      broken="translator obligation (justified trace), harness/translate_effects.py call graph")
    # dynamic edges
    touched_all = set(range(1, len(gi.kind) + 1))
    n_static = n_dyn_only = n_proto = 0
    examples = []
    for fa, la, fb, lb in r.get("dyn_edges") or []:
        u, v = funcmap(fa, la), funcmap(fb, lb)
        if u is None or v is None or u == v:
            continue
        if one_step(gi, u, v, touched_all):
            n_static += 1
        elif gi.name[v - 1].rsplit(".", 1)[-1].startswith("__") and gi.name[v - 1].endswith("__"):
            n_proto += 1      # len(x) / x() / x[k] / with x: protocol methods are edges class -> dunder, not caller -> dunder
        else:
            n_dyn_only += 1
            if len(examples) < 4:
                examples.append("%s -> %s" % (gi.name[u - 1].replace("syne_tune.", ""), gi.name[v - 1].replace("syne_tune.", "")))
    ctx.h("dynamic_edges", "caller->callee pairs with a static counterpart", n_static)
    ctx.h("dynamic_edges", "implicit protocol calls (__len__, __call__, ...: covered by class -> dunder edges)", n_proto)
    ctx.h("dynamic_edges", "pairs without one (callable created elsewhere / passed as value)", n_dyn_only)
    if examples:
        facts.setdefault("_dyn_examples", set()).update(examples)
    # attribution of global-generator consumption
    eff_nodes = {}
    for nd, kind, lits, name, where in facts["effs"]:
        if kind in ("GlobalNumpyRNG", "PyRandom"):
            eff_nodes.setdefault(name.split("/")[0].replace("@rsnone", ""), set()).add(kind)
    for fn, line, name in r.get("rng_consumers") or []:
        fid = funcmap(fn, line) if fn != "<harness>" else None
        qual = gi.name[fid - 1] if fid else None
        ctx.h("rng_attribution", "consumption observed inside a function", 1)
        if qual is None or qual not in eff_nodes:
            ctx.violation("correspondence",
                          "translator: a global generator was consumed while %s was executing, but the generated facts "
                          "carry no GlobalNumpyRNG / PyRandom effect for that function" % (qual or "%s:%s %s" % (fn, line, name)),
                          case=rcase, failing_input=False,
                          broken="translator effect detectors (global generator), harness/translate_effects.py")
        else:
            ctx.h("rng_attribution", "  ... attributed to a function carrying the effect", 1)


def make_funcmap(facts):
    by_file = {}
    for q, (fn, lo, hi, fid) in facts["funcs"].items():
        by_file.setdefault(fn, []).append((lo, hi, fid))

    def lookup(fn, line):
        best = None
        for lo, hi, fid in by_file.get(fn, []):
            if lo <= line <= hi and (best is None or lo >= best[0]):
                best = (lo, hi, fid)
        return best[2] if best else None

    return lookup


# ---------------------------------------------------------------------------------------------------------
# allow-lists of props/C11.v (for targeting when the proof step broke, and for the stale-entry note)
# ---------------------------------------------------------------------------------------------------------
def _strip_comments_keep_strings(s):
    out, depth, i, n = [], 0, 0, len(s)
    while i < n:
        if s.startswith("(*", i):
            depth += 1
            i += 2
        elif s.startswith("*)", i) and depth > 0:
            depth -= 1
            i += 2
        else:
            if depth == 0:
                out.append(s[i])
            i += 1
    return "".join(out)


def parse_allow_pairs():
    src = _strip_comments_keep_strings(open(os.path.join(common.COQ, "props", "C11.v")).read())
    return set(re.findall(r'\(\s*"([^"]+)"\s*,\s*(\w+)\s*\)', src))


def new_sites(facts, allow):
    """reachable, live effect sites of forbidden kinds that no allow-list of props/C11.v mentions: [(cfg, name, eff, where)]"""
    forb = {"GlobalNumpyRNG", "PyRandom", "WallClock", "ProcEntropy", "DynamicCode", "HashOrderIter",
            "ModuleGlobalWrite", "ClassAttrWrite", "UnseededGenerator", "UnknownRngReceiver", "RandomStateOmitted"}
    out = []
    for cfg, v in facts["configs"].items():
        reach, off = facts["_reach"][cfg], set(v["off"])
        for nd, kind, lits, name, where in facts["effs"]:
            if kind in forb and nd in reach and not any(l in off for l in lits) and (name, kind) not in allow:
                if cfg == "sim_experiment" and kind in ("ModuleGlobalWrite", "ClassAttrWrite"):
                    continue   # no disjointness theorem for the experiment corollary
                if cfg not in T.MODEL_FREE and kind in ("ModuleGlobalWrite", "ClassAttrWrite") and \
                        cfg in ("hyperband_dyhpo", "synchb_bayesopt"):
                    continue
                out.append((cfg, name, kind, where, nd, list(lits)))
    return out


def site_targets(facts, sites):
    """{cfg: [[file, first line, last line, [site lines]]]}: the functions that contain the newly reachable sites"""
    by_fid = {fid: (fn, lo, hi) for q, (fn, lo, hi, fid) in facts["funcs"].items()}
    out = {}
    for cfg, name, kind, where, nd, lits in sites:
        rng_ = by_fid.get(nd)
        if rng_ is None:
            k, qual = facts["nodes"][nd - 1]
            if k == "D" and qual.endswith("@rsnone") and qual[:-7] in facts["funcs"]:
                fn, lo, hi, _ = facts["funcs"][qual[:-7]]
                rng_ = (fn, lo, hi)
        if rng_ is None:
            continue
        lines = [int(m.group(2)) for m in re.finditer(r"(\S+\.py):(\d+)", where) if m.group(1) == rng_[0]]
        t = [rng_[0], rng_[1], rng_[2], sorted(set(lines))]
        if t not in out.setdefault(cfg, []):
            out[cfg].append(t)
    return out


def guard_text(facts, lits):
    tests = facts.get("tests", {})
    return ["%s%s" % ("" if l % 2 == 0 else "not ", tests.get(str(l // 2), "t%d" % (l // 2))) for l in lits]


def probe_and_target(ctx, rng, facts, sites, hashseed):
    """coverage probe: run option-rich candidate cases of the affected configurations for a few steps under a line
    tracer until the function (line) containing the new effect site is executed; the candidates that reach it are
    turned into full twin-run cases (the constructor / searcher options that guard the site are thereby found by
    execution, not guessed)"""
    targets = site_targets(facts, sites)
    cands = []
    for cfg, tg in sorted(targets.items()):
        vs = [(v, False) for v in MODEL_FREE_VARIANTS if v[2] == cfg] + [(v, True) for v in GP_VARIANTS if v[2] == cfg]
        if not vs:
            continue
        per = max(1, (10 if vs[0][1] else 40) // len(vs))
        for v, gp in vs:
            for _ in range(per):
                c = gen_sched_case(rng, v, gp=gp, rich=True)
                c.update(steps=6 if not gp else 4, interleave=False, profile=False, targets=tg, no_clock=False)
                cands.append(c)
    if not cands:
        return []
    bs = batches_of(cands, 8)
    with ThreadPoolExecutor(max_workers=8) as ex:
        res = list(ex.map(lambda b: run_worker("A", hashseed, b), bs))
    hits_line, hits_fn = [], []
    for b, rs in zip(bs, res):
        for c, r in zip(b, rs):
            if r.get("hit_lines"):
                hits_line.append(c)
            elif r.get("hit_funcs"):
                hits_fn.append(c)
    chosen = (hits_line or hits_fn)
    per_cfg = {}
    full = []
    for c in chosen:
        if per_cfg.get(c["config"], 0) >= 10:
            continue
        per_cfg[c["config"]] = per_cfg.get(c["config"], 0) + 1
        for k in range(2):
            d = json.loads(json.dumps(c))
            d.pop("targets", None)
            d.update(steps=30 if d["kind"] in ("fifo",) and d["params"].get("searcher") in ("bayesopt",) else 40,
                     interleave=d["config"] in T.MODEL_FREE, other_kinds=OTHER_KINDS if d["config"] in T.MODEL_FREE else [],
                     targeted=True)
            if k:
                d["event_seed"], d["perturb_seed"] = rng.randrange(2 ** 31), rng.randrange(2 ** 31)
            full.append(d)
    ctx.notes.append("targeting: %d probe candidates for configurations %s; %d reached the site line, %d only the "
                     "enclosing function; %d targeted twin cases added" % (
                         len(cands), sorted(targets), len(hits_line), len(hits_fn), len(full)))
    ctx.h("targeting", "probe_candidates", len(cands))
    ctx.h("targeting", "site_line_reached", len(hits_line))
    ctx.h("targeting", "targeted_twin_cases", len(full))
    return full


# ---------------------------------------------------------------------------------------------------------
# translator self-test by mutation
# ---------------------------------------------------------------------------------------------------------
PROBE_MODULE = '''import numpy as np


def c11_probe():
    return np.random.rand()
'''


def inject(root):
    """wire a function with a module-level np.random call into RandomSeedGenerator.__call__ (or, if that is
    gone, into the first function of random_seeds.py) of the COPY under root"""
    sched = os.path.join(root, "syne_tune", "optimizer", "schedulers")
    open(os.path.join(sched, "c11_probe_mod.py"), "w").write(PROBE_MODULE)
    path = os.path.join(sched, "random_seeds.py")
    src = open(path).read()
    tree = ast.parse(src)
    target = None
    for n in ast.walk(tree):
        if isinstance(n, ast.ClassDef) and n.name == "RandomSeedGenerator":
            for m in n.body:
                if isinstance(m, ast.FunctionDef) and m.name == "__call__":
                    target = m
    if target is None:
        for n in ast.walk(tree):
            if isinstance(n, ast.FunctionDef):
                target = n
                break
    if target is None:
        return None
    lines = src.split("\n")
    # a custom pickle hook on the same class (C16 pickle half): appended after the class body
    for n in ast.walk(tree):
        if isinstance(n, ast.ClassDef) and n.name == "RandomSeedGenerator":
            ind = " " * n.body[0].col_offset
            lines.insert(n.end_lineno, ind + "def __getstate__(self):\n" + ind + "    return dict(self.__dict__)")
    first = target.body[0]
    indent = " " * first.col_offset
    lines.insert(first.lineno - 1, indent + "from syne_tune.optimizer.schedulers.c11_probe_mod import c11_probe; c11_probe()")
    open(path, "w").write("\n".join(lines))
    return target.name


def self_test(ctx):
    tmp = tempfile.mkdtemp(prefix="c11_selftest_", dir="/tmp")
    try:
        shutil.copytree(os.path.join(common.REPO, "syne_tune"), os.path.join(tmp, "syne_tune"),
                        ignore=shutil.ignore_patterns("__pycache__", "*.pyc"))
        where = inject(tmp)
        if where is None:
            ctx.notes.append("self-test: no injection point found in random_seeds.py (skipped)")
            return
        cq = os.path.join(tmp, "coq")
        os.makedirs(cq)
        A, res = T.generate(repo=tmp, out=os.path.join(cq, "EffFacts.v"), sidecar=os.path.join(tmp, "facts.json"))
        facts = json.load(open(os.path.join(tmp, "facts.json")))
        hit = [e for e in facts["effs"] if e[1] == "GlobalNumpyRNG" and "c11_probe" in e[3]
               and e[0] in set(facts["configs"]["fifo_random"]["reach"])]
        if not hit:
            ctx.violation("correspondence", "translator self-test: an injected np.random call reachable from "
                          "RandomSeedGenerator.%s is NOT reported as reachable GlobalNumpyRNG for fifo_random" % where,
                          case={}, failing_input=False, broken="translator self-test (translate_effects.py went blind)")
            return
        test = ("From Coq Require Import List PArith String.\nFrom Verif Require Import model.EffGraph.\n"
                "From SelfT Require Import EffFacts.\nImport ListNotations.\n"
                "Eval vm_compute in (check_b edges effs off_fifo_random roots_fifo_random ambient [],"
                " check_b edges effs off_pbt roots_pbt ambient [], check_b edges effs off_hyperband_bayesopt roots_hyperband_bayesopt ambient []).\n"
                "Eval vm_compute in (check_b edges effs off_fifo_random roots_fifo_random pickle_hook []).\n")
        open(os.path.join(cq, "SelfTest.v"), "w").write(test)
        flags = ["-R", common.COQ, "Verif", "-R", cq, "SelfT"]
        p1 = subprocess.run(["timeout", "300", "coqc"] + flags + [os.path.join(cq, "EffFacts.v")], cwd=cq,
                            stdout=subprocess.PIPE, stderr=subprocess.STDOUT, text=True)
        p2 = subprocess.run(["timeout", "300", "coqc"] + flags + [os.path.join(cq, "SelfTest.v")], cwd=cq,
                            stdout=subprocess.PIPE, stderr=subprocess.STDOUT, text=True)
        out = " ".join(p2.stdout.split())
        has_hook = any(e[1] == "CustomPickle" and "RandomSeedGenerator" in e[3] for e in facts["effs"])
        if p1.returncode != 0 or p2.returncode != 0 or "(false, false, false)" not in out or (
                has_hook and not re.search(r"= false : bool\s*$", out)):
            ctx.violation("correspondence", "translator self-test: the Coq check over facts generated from a source "
                          "with an injected reachable np.random call does not fail: %s %s" % (p1.stdout[-300:], out[-300:]),
                          case={}, failing_input=False, broken="translator self-test (Coq check_b on mutated facts)")
            return
        # the behavioural detector must see the same mutation
        rng = __import__("random").Random(12345)
        cases = [gen_sched_case(rng, MODEL_FREE_VARIANTS[0]), gen_sched_case(rng, MODEL_FREE_VARIANTS[3])]
        (ra, rb), = run_twins([cases], (11, 12), repo=tmp, jobs=2)
        flagged = all(r.get("consumed") for r in ra)
        if not flagged:
            ctx.violation("correspondence", "driver self-test: the global-generator recorder does not flag an injected "
                          "np.random.rand() call inside RandomSeedGenerator", case={}, failing_input=False,
                          broken="driver self-test (global-generator recorder)")
            return
        ctx.notes.append("self-test (pickle half): injected __getstate__ on RandomSeedGenerator %s" % (
            "-> check_b ... pickle_hook [] = false" if has_hook else "NOT seen by the translator (class gone?)"))
        ctx.notes.append("self-test ok: injected np.random call in RandomSeedGenerator.%s -> facts report %d reachable "
                         "GlobalNumpyRNG site(s), Coq check_b = false for fifo_random/pbt/hyperband_bayesopt, twin-run "
                         "recorder flags the consumption" % (where, len(hit)))
        ctx.h("self_test", "passed")
    finally:
        shutil.rmtree(tmp, ignore_errors=True)


# ---------------------------------------------------------------------------------------------------------
def load_facts(ctx):
    # recomputed in this process from the tree under test (the shared sidecar file may belong to a concurrent check
    # of another tree: line numbers and node ids would not match)
    facts = T.facts_for(common.REPO)
    facts["_reach"] = {c: set(v["reach"]) for c, v in facts["configs"].items()}
    return facts


def batches_of(cases, n):
    n = max(1, min(n, len(cases)))
    out = [[] for _ in range(n)]
    # longest first, round robin: GP cases are slow
    for i, c in enumerate(cases):
        out[i % n].append(c)
    return [b for b in out if b]


def run(ctx, replay=None):
    ctx.rule = ("twin pairs: one case = scheduler variant (FIFO+random/grid/REA/bayesopt, Hyperband stopping/promotion/"
                "pasha/rush_*/cost_promotion/dyhpo with random/bayesopt/hypertune, synchronous Hyperband, DEHB, PBT, "
                "MedianStoppingRule) + arguments + configuration space + random_seed + event seed (history of starts, "
                "results, failures, pauses, resumes drawn from a private generator and the scheduler's answers); run "
                "twice in fresh processes under different PYTHONHASHSEED with different perturbations of the global "
                "generators and (model-free) interleaved unrelated instances; simulated experiments = real Tuner + "
                "SimulatorBackend over a random tabular blackbox. non-trivial = at least 2 trials started and 3 "
                "results reported without error (simulated: at least 5 result rows); distinct by content hash")
    rng = ctx.rng
    hashseeds = (rng.randrange(1, 2 ** 31), rng.randrange(1, 2 ** 31))

    if replay is not None:
        case = replay["case"]
        hs = tuple(replay.get("hashseeds") or hashseeds)
        (ra, rb), = run_twins([[case]], hs, jobs=2)
        judge(ctx, case, ra[0], rb[0], hs)
        return

    facts = load_facts(ctx)
    funcmap = make_funcmap(facts)
    proof_broken = any(v["kind"] == "proof" for v in ctx.violations)

    # corpus first
    corpus_dir = os.path.join(common.VERIF, "corpus", "C11")
    corpus = []
    if os.path.isdir(corpus_dir):
        for f in sorted(os.listdir(corpus_dir)):
            if f.endswith(".json"):
                corpus.append(json.load(open(os.path.join(corpus_dir, f)))["case"])
    corpus_all = corpus
    corpus = [c for c in corpus_all if c.get("kind") != "pasha_long"]

    # targeted search when the generated facts no longer satisfy the theorems
    boost = {}
    targeted = []
    if proof_broken:
        try:
            sites = new_sites(facts, parse_allow_pairs())
        except Exception as e:   # pragma: no cover
            sites = []
            ctx.notes.append("could not compute newly reachable sites: %r" % (e,))
        for cfg, name, kind, where, nd, lits in sites[:40]:
            boost[cfg] = boost.get(cfg, 0) + 1
        if sites:
            ctx.notes.append("proof step broken; reachable effect sites not covered by the allow-lists of props/C11.v: "
                             + "; ".join("%s: %s %s (%s) guards=%s" % (s[0], s[1], s[2], s[3], guard_text(facts, s[5]))
                                         for s in sites[:12]))
            try:
                targeted = probe_and_target(ctx, rng, facts, sites[:40], hashseeds[0])
            except Exception as e:
                ctx.notes.append("targeting probe failed: %s" % str(e)[:300])

    n_mf = ctx.n(10, 80)
    n_gp = ctx.n(4, 16)
    n_sim = ctx.n(6, 60)
    cases = list(corpus) + [c for c in targeted if c["config"] in T.MODEL_FREE]
    for v in MODEL_FREE_VARIANTS:
        k = n_mf * (4 if v[2] in boost else 1)
        for i in range(k):
            cases.append(gen_sched_case(rng, v, profile=(i == 0)))
    gp_cases = [c for c in targeted if c["config"] not in T.MODEL_FREE]
    for v in GP_VARIANTS:
        k = n_gp * (3 if v[2] in boost else 1)
        for i in range(k):
            gp_cases.append(gen_sched_case(rng, v, gp=True, profile=(i == 0),
                                           capped=(i == 1 and v[2] == "fifo_bayesopt")))
    # long Hyper-Tune twins: >= 30 suggestions, reports at all rung levels (its cross-validated ensemble weights need
    # >= 6 observations at the second rung level before that code runs at all)
    ht = [v for v in GP_VARIANTS if v[1].get("searcher") == "hypertune"][0]
    for _ in range(ctx.n(1, 6) + (2 if "hyperband_hypertune" in boost else 0)):
        c = gen_sched_case(rng, ht, gp=True)
        c["params"].update(max_t=9, rf=3, grace=1, brackets=rng.choice([1, 2]),
                           search_options={"num_init_random": 3, "opt_maxiter": 3, "opt_nstarts": 1,
                                           "num_init_candidates": 10})
        c["params"].pop("opts", None)
        c.update(steps=rng.choice([170, 200]), workers=4, p_fail=0.0, ties=False, long_hypertune=True, profile=False,
                 space=SPACES[1])
        gp_cases.append(c)
    sim_cases = [gen_sim_case(rng) for _ in range(n_sim * (4 if "sim_experiment" in boost else 1))]
    # multi-objective model-based searcher, both seeding routes
    mo_cases = [gen_mo_case(rng, "generator"), gen_mo_case(rng, "seed")]
    for _ in range(ctx.n(2, 20) + (6 if "mo_multisurrogate" in boost else 0)):
        mo_cases.append(gen_mo_case(rng))
    sim_cases = sim_cases + mo_cases
    ctx.sample(dict(kind="twin scheduler case", case={k: v for k, v in cases[-1].items() if k != "other_kinds"}))
    ctx.sample(dict(kind="twin GP case", case={k: v for k, v in gp_cases[-1].items() if k != "other_kinds"}))
    ctx.sample(dict(kind="twin simulated experiment", case=sim_cases[0]))

    # expensive cases first, so that they land in different batches
    gp_cases.sort(key=lambda c: -c.get("steps", 0))
    batches = batches_of(gp_cases, ctx.n(8, 16)) + batches_of(cases, ctx.n(6, 28)) + batches_of(sim_cases, ctx.n(2, 6))
    results = run_twins(batches, hashseeds, jobs=ctx.n(8, 16), timeout=ctx.n(1200, 3000))
    for cs, (ra, rb) in zip(batches, results):
        for c, a, b in zip(cs, ra, rb):
            judge(ctx, c, a, b, hashseeds, facts, funcmap)
    ctx.h("hashseeds", "distinct" if hashseeds[0] != hashseeds[1] else "equal")

    # long PASHA runs (corpus cases of that kind first), PYTHONHASHSEED 0 vs 1..3
    pasha_cases = [c for c in corpus_all if c.get("kind") == "pasha_long"]
    pasha_cases.append(gen_pasha_long(rng, "bimodal"))
    for _ in range(ctx.n(0, 10)):
        pasha_cases.append(gen_pasha_long(rng, thorough=True))
    if any(c.startswith("hyperband") for c in boost) and proof_broken:
        pasha_cases += [gen_pasha_long(rng, "bimodal"), gen_pasha_long(rng, "crisscross")]
    ctx.sample(dict(kind="long PASHA twin case", case=pasha_cases[-1]))
    run_pasha_long_cases(ctx, pasha_cases)

    # translator / driver self-test by mutation
    try:
        self_test(ctx)
    except T.TranslatorError as e:
        ctx.violation("correspondence", "translator self-test raised %s" % e, case={}, failing_input=False,
                      broken="translator self-test")

    # stale allow-list entries: a note, never an alarm
    if not proof_broken:
        try:
            terms = [
                "allow_used edges effs off_fifo_random roots_fifo_random allow_hash_stochastic",
                "allow_used edges effs off_fifo_grid roots_fifo_grid allow_hash_grid",
                "allow_used edges effs off_hyperband_hypertune roots_hyperband_hypertune allow_ambient_gp",
                "allow_used edges effs off_hyperband_hypertune roots_hyperband_hypertune allow_hash_gp",
                "allow_used edges effs off_fifo_bayesopt roots_fifo_bayesopt allow_shared_gp",
                "allow_used edges effs off_sim_experiment roots_sim_experiment allow_rng_sim",
                "allow_used edges effs off_sim_experiment roots_sim_experiment allow_clock_sim",
                "allow_used edges effs off_sim_experiment roots_sim_experiment allow_hash_sim",
                "PS.cardinal (reach_set edges off_fifo_random roots_fifo_random)",
            ]
            vals = ctx.coq_eval("allow", "From Coq Require Import List PArith String.\nFrom Verif Require Import "
                                "model.EffGraph gen.EffFacts props.C11.\nImport ListNotations.\n", "", terms)
            stale = [t.split()[-1] for t, v in zip(terms[:-1], vals[:-1]) if v != "true"]
            ctx.notes.append("allow-list entries all used: %s%s; |reach(fifo_random)| Coq=%s python=%d" % (
                not stale, (" (stale entries in: %s)" % stale) if stale else "", vals[-1].replace("%nat", ""),
                len(facts["_reach"]["fifo_random"])))
            if vals[-1].replace("%nat", "").strip() != str(len(facts["_reach"]["fifo_random"])):
                ctx.violation("correspondence", "python mirror of reach_set disagrees with Coq (%s vs %d nodes)" % (
                    vals[-1], len(facts["_reach"]["fifo_random"])), case={}, failing_input=False,
                    broken="correspondence translate_effects.reach vs EffGraph.reach_set")
        except Exception as e:
            ctx.notes.append("allow_used evaluation skipped: %s" % str(e)[:200])
    if facts.get("_dyn_examples"):
        ctx.notes.append("dynamic edges without static counterpart (examples): " + "; ".join(sorted(facts["_dyn_examples"])[:8]))
    ctx.notes.append("translator stats: %s; blind spots: %s" % (json.dumps(facts["stats"]), " | ".join(T.BLIND_SPOTS)))
