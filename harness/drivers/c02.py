"""C02 — every reported result is delivered exactly once, in order, never after stop/pause.

Correspondence of coq/model/Fetch.v with
  syne_tune/backend/trial_backend.py           (fetch_status_results, start/resume/pause/stop_trial)
  syne_tune/tuner.py                           (Tuner.run -> _process_new_results -> _update_running_trials)
  syne_tune/backend/simulator_backend/simulator_backend.py  (fetch_status_results, _stop_or_pause_trial)
  syne_tune/blackbox_repository/simulated_tabular_backend.py (_run_job_and_collect_results on resume)
and an independent checker (reported vs delivered vs decisions) on what the implementation did.
"""
import contextlib
import io
import logging
import os
import random
import shutil
import tempfile
from unittest import mock

from common import q, lst, natlit, zlit, blit

IMPORTS = "From Verif Require Import model.Base model.Fetch.\nFrom Coq Require Import Qabs.\nOpen Scope Q_scope.\n"

PRELUDE = r"""
Definition pz_eqb (a b : nat * Z) : bool := Nat.eqb (fst a) (fst b) && Z.eqb (snd a) (snd b).
Definition ps_eqb (a b : nat * status) : bool := Nat.eqb (fst a) (fst b) && status_eqb (snd a) (snd b).
Definition poll_eqb (a b : list (nat * Z) * list (nat * status)) : bool :=
  list_eqb pz_eqb (fst a) (fst b) && list_eqb ps_eqb (snd a) (snd b).
Definition err_eqb (a b : err) : bool :=
  match a, b with
  | ResumeBadId, ResumeBadId | ResumeNotPaused, ResumeNotPaused | UnknownId, UnknownId => true
  | _, _ => false
  end.
(* backend kind, events, implementation: delivered (id, payload), polls (batch, statuses), error *)
(* last component: the run came from Tuner.run, so every poll must cover exactly the trials the
   model regards as running (ghost fin = Live) -- ties the ghost state to running_trials_ids *)
(* + the composer's recorded answers and the rows of the real results log (trial id, payload, extra columns) *)
Definition seq_case := (bkind * list ev * list (nat * Z) * list (list (nat * Z) * list (nat * status)) * option err * bool
                        * list (option (list Z)) * list row)%type.
Definition row_eqb (a b : row) : bool := pz_eqb (fst a) (fst b) && list_eqb Z.eqb (snd a) (snd b).
Definition chk_seq (c : seq_case) : bool :=
  let '(bk, evs, iout, ipolls, ierr, tuner, answers, irows) := c in
  let '(st, e) := run bk init evs in
  list_eqb pz_eqb (out st) iout && list_eqb poll_eqb (polls st) ipolls && opt_eqb err_eqb e ierr &&
  (if tuner then run_disc bk init evs && list_eqb row_eqb (fst (run_log bk (fun k => nth k answers None) init evs 0 [])) irows
   else true).
(* script based SimulatorBackend: raw operations, resumed job = what this run of the script wrote *)
Definition s_case := (list ev * list (list (nat * Z) * list (nat * status)))%type.
Definition chk_s (c : s_case) : bool :=
  let '(evs, ipolls) := c in
  let '(st, e) := run Sim init evs in
  list_eqb poll_eqb (polls st) ipolls && opt_eqb err_eqb e None.
(* elapsed times handed to the simulator by the blackbox backend vs mono_fix of the table's (exact rationals of
   the floats; the code adds 0.01 and subtracts the resume offset in binary64: compared up to 1e-9) *)
Definition fix_case := (list Q * list Q)%type.
Definition Qclose (a b : Q) : bool := Qleb (Qabs (a - b)) (1 # 1000000000).
Definition chk_fix (c : fix_case) : bool := let '(raw, impl) := c in list_eqb Qclose (mono_fix raw) impl.
(* tabular resume: checkpointing, paused level, table rows (level, payload), implementation rows *)
Definition zz_eqb (a b : Z * Z) : bool := Z.eqb (fst a) (fst b) && Z.eqb (snd a) (snd b).
Definition tab_case := (bool * option Z * list (Z * Z) * list (Z * Z))%type.
Definition chk_tab (c : tab_case) : bool :=
  let '(ck, p, all, impl) := c in list_eqb zz_eqb (tab_results ck p all) impl.
"""

SIG_GENERIC_LATE = {"backend": "generic TrialBackend.fetch_status_results",
                    "event": "report_between_pause_decision_and_worker_end_delivered_after_resume"}
SIG_SIM_LATE = {"backend": "SimulatorBackend.fetch_status_results",
                "event": "report_processed_in_stop_window_delivered_after_same_iteration_resume"}

ST = {"InProgress": "InProgress", "Completed": "Completed", "Failed": "Failed", "Paused": "Paused",
      "Stopped": "Stopped", "Stopping": "Stopped"}   # "stopping" (delayed stop) is hidden like "stopped": the model's StopMark


# ----------------------------------------------------------------------------------------------
# Coq terms
# ----------------------------------------------------------------------------------------------
def rep_t(r):
    return "(%s, %s)" % (q(r[0]), zlit(r[1]))


def reps_t(rs):
    return lst([rep_t(r) for r in rs])


def ev_t(e):
    k = e[0]
    if k == "emit":
        return "W (Emit %s %s)" % (natlit(e[1]), natlit(e[2]))
    if k == "finish":
        return "W (Finish %s)" % natlit(e[1])
    if k == "fail":
        return "W (Fail %s %s)" % (natlit(e[1]), natlit(e[2]))
    if k == "start":
        return "Start %s" % reps_t(e[1])
    if k == "resume":
        return "Resume %s %s" % (natlit(e[1]), reps_t(e[2]))
    if k == "poll":
        return "Poll %s %s" % (lst([natlit(i) for i in e[1]]),
                               lst(["(%s, %s)" % ({"CONTINUE": "CONT"}.get(d, d), natlit(l)) for d, l in e[2]]))
    if k == "fetch":
        return "Fetch %s" % lst([natlit(i) for i in e[1]])
    if k == "pause":
        return "PauseT %s %s" % (natlit(e[1]), natlit(e[2]))
    if k == "stop":
        return "StopT %s %s" % (natlit(e[1]), natlit(e[2]))
    raise ValueError(k)


MIDW = {"mid_emit": "MEmit", "mid_finish": "MFinish", "mid_fail": "MFail"}


def mids_t(mids):
    return lst(["%s %s %s" % (MIDW[k], natlit(tid), natlit(n)) for k, tid, n in mids])


def ev_chunk(e):
    """Coq list of events: a poll during which workers acted between the two reads is model.poll2 / fetch2"""
    if e[0] == "poll" and len(e) > 3 and e[3]:
        return "poll2 %s %s %s" % (lst([natlit(i) for i in e[1]]), mids_t(e[3]),
                                   lst(["(%s, %s)" % ({"CONTINUE": "CONT"}.get(d, d), natlit(l)) for d, l in e[2]]))
    if e[0] == "fetch" and len(e) > 2 and e[2]:
        return "fetch2 %s %s" % (lst([natlit(i) for i in e[1]]), mids_t(e[2]))
    if e[0] == "half":
        return "[]"     # an unterminated line is not read: nothing happens for the backend
    return "[" + ev_t(e) + "]"


def seq_term(bk, evs, out, polls, err, tuner=False, answers=(), rows=()):
    return "((%s, concat %s, %s, %s, %s, %s, %s, %s) : seq_case)" % (
        bk, lst(["\n    " + ev_chunk(e) for e in evs]),
        lst(["(%s, %s)" % (natlit(i), zlit(v)) for i, v in out]),
        lst(["(%s, %s)" % (lst(["(%s, %s)" % (natlit(i), zlit(v)) for i, v in b]),
                           lst(["(%s, %s)" % (natlit(i), ST[s]) for i, s in sts])) for b, sts in polls]),
        "None" if err is None else "(Some %s)" % err, blit(tuner),
        lst(["None" if a is None else "(Some [%s])" % zlit(a) for a in answers]),
        lst(["(%s, %s, %s)" % (natlit(i), zlit(v), lst([zlit(x) for x in ex])) for i, v, ex in rows]))


# ----------------------------------------------------------------------------------------------
# report generation
# ----------------------------------------------------------------------------------------------
class Clock:
    """worker time stamps: mostly strictly increasing, sometimes tied, on request unsorted"""

    def __init__(self, rng, ties=0.1):
        self.rng, self.t, self.ties = rng, 0, ties

    def next(self):
        if self.rng.random() >= self.ties:
            self.t += self.rng.choice([1, 1, 2, 5])
        return self.t / 4.0


def payload(tid, run, idx):
    return tid * 10000 + run * 100 + idx


def gen_run(rng, clock, tid, run, nmin=0, nmax=6, shuffle=False):
    n = rng.randint(nmin, nmax)
    ts = [clock.next() for _ in range(n)]
    if shuffle:
        rng.shuffle(ts)
    return [(ts[i], payload(tid, run, i)) for i in range(n)]


def as_dicts(reps):
    from fetch_scripted import mk_report
    return [mk_report(ts, v, epoch=i + 1) for i, (ts, v) in enumerate(reps)]


# ----------------------------------------------------------------------------------------------
# A. raw operation sequences on the real TrialBackend (unit-step + sequence correspondence)
# ----------------------------------------------------------------------------------------------
def gen_raw_ops(rng, async_stop=0):
    clock = Clock(rng, ties=rng.choice([0.0, 0.1, 0.4]))
    shuffle = rng.random() < 0.15
    ntr_max = rng.randint(1, 3)
    ops, ntr, runs = [], 0, {}
    marks = {}
    for _ in range(rng.randint(4, 28)):
        kinds = ["emit"] * 5 + ["fetch"] * 6 + ["finish", "fail", "pause", "pause", "stop", "resume", "resume", "resume", "half"]
        if async_stop:      # delayed stops: only start / worker events / polls / stops
            kinds = ["emit"] * 6 + ["fetch"] * 7 + ["finish", "stop", "stop", "half"]
        if ntr < ntr_max:
            kinds += ["start"] * 4
        k = rng.choice(kinds) if ntr else "start"
        bad = rng.random() < 0.03
        tid = ntr + rng.randint(0, 1) if bad else rng.randrange(ntr) if ntr else 0
        if k == "start":
            ops.append(("start", gen_run(rng, clock, ntr, 0, 0, 6, shuffle)))
            runs[ntr] = 1
            ntr += 1
        elif k == "emit":
            ops.append(("emit", tid, rng.randint(0, 3)))
        elif k == "finish":
            ops.append(("finish", tid))
        elif k == "half":
            ops.append(("half", tid))
        elif k == "fail":
            ops.append(("fail", tid, rng.randint(0, 2)))
        elif k == "fetch":
            ids = [i for i in range(ntr) if rng.random() < 0.75]
            rng.shuffle(ids)
            if rng.random() < 0.05 and ids:
                ids.append(rng.choice(ids))
            if bad:
                ids.append(tid)
            mids = []
            once = [i for i in ids if ids.count(i) == 1 and i < ntr]   # a trial listed twice is read twice: no single "between"
            if once and rng.random() < 0.25:
                mids = [[rng.choice(["mid_emit", "mid_finish", "mid_finish", "mid_fail"]), rng.choice(once), rng.randint(0, 3)]]
            ops.append(("fetch", ids, mids))
        elif k in ("pause", "stop"):
            if bad and tid >= ntr:
                continue   # pause/stop of an unknown id: outside what the tuner can do; not generated
            if async_stop and marks.get(tid):
                continue
            ops.append((k, tid, 0 if async_stop else rng.choice([0, 0, 0, 1, 2])))
            marks[tid] = k
        elif k == "resume":
            paused = [i for i in range(ntr) if marks.get(i) == "pause"]
            if paused and rng.random() < 0.9:
                tid = rng.choice(paused)
            elif rng.random() < 0.8:
                continue
            if tid < ntr:
                ops.append(("resume", tid, gen_run(rng, clock, tid, runs.get(tid, 1), 0, 6, shuffle),
                            rng.choice([0, 0, 1, 2])))
                runs[tid] = runs.get(tid, 1) + 1
                if marks.get(tid) == "pause":
                    marks[tid] = None
            else:
                ops.append(("resume", tid, []))
    return ops


def run_raw_ops(ops, async_stop=0, after_stop=None):
    """Executes the operations on the real TrialBackend code; returns (polls, error)."""
    from fetch_scripted import FakeProcLocalBackend
    b = FakeProcLocalBackend()
    b.async_stop_polls = async_stop
    stopped = set()
    polls, err, mops = [], None, []
    for op in ops:
        mops.append(tuple(op))
        try:
            if op[0] == "start":
                b.queue_run(None, as_dicts(op[1]))
                b.start_trial({"n": 0})
            elif op[0] == "resume":
                b.next_run, b.next_eager = [as_dicts(op[2])], [op[3] if len(op) > 3 else 0]
                b.resume_trial(op[1])
                if b.last_eager:
                    mops.append(("emit", op[1], b.last_eager))
            elif op[0] == "emit":
                b.emit(op[1], op[2])
            elif op[0] == "finish":
                b.finish(op[1])
            elif op[0] == "half":
                b.half(op[1])
            elif op[0] == "fail":
                b.fail(op[1], op[2])
            elif op[0] == "fetch":
                st, res = b.fetch_status_results(list(op[1]), mid=[tuple(m) for m in (op[2] if len(op) > 2 else [])])
                polls.append(([(i, r["v"]) for i, r in res], [(i, st[i][1]) for i in op[1]]))
                mops[-1] = ("fetch", list(op[1]), [list(m) for m in b.mid_fired])
                if after_stop is not None:
                    after_stop.extend((i, r["v"]) for i, r in res if i in stopped)
            elif op[0] == "pause":
                b.next_late = op[2]
                b.pause_trial(op[1], None)
            elif op[0] == "stop":
                b.next_late = op[2]
                b.stop_trial(op[1], None)
                stopped.add(op[1])
        except AssertionError as e:
            msg = str(e)
            err = ("ResumeBadId" if "not present" in msg else
                   "ResumeNotPaused" if "Cannot resume" in msg else "UnknownId")
            break
        except (KeyError, FileNotFoundError):   # unknown trial id: no process / no trial folder
            err = "UnknownId"
            break
    b.close()
    return polls, err, mops


def probe_generic_kind():
    """Which LocalBackend._resume_trial does the tree under test have?  Runs the minimal witness of
    F-C02-1 on the real backend: 'Legacy' if the report written in the PAUSE window is returned by the
    first poll after resume_trial (code before patches/F-C02-1.diff), else 'Generic'."""
    ops = [("start", [(1.0, 0), (2.0, 1)]), ("emit", 0, 1), ("fetch", [0]), ("pause", 0, 1),
           ("resume", 0, [(3.0, 100)]), ("emit", 0, 1), ("fetch", [0])]
    polls, err, _ = run_raw_ops(ops)
    last = [v for _, v in polls[-1][0]] if polls and err is None else None
    return "Legacy" if last == [1, 100] else "Generic"


GENERIC_KIND = ["Generic"]


def raw_cases(ctx, replay):
    rng = ctx.rng
    if replay is not None:
        if replay.get("kind") != "raw":
            return
        cases = [[tuple(o) if isinstance(o, (list, tuple)) else o for o in replay["ops"]]]
    else:
        cases = [[("start", [(1.0, 0), (2.0, 1), (3.0, 2)]), ("emit", 0, 1), ("fetch", [0]), ("stop", 0, 0), ("emit", 0, 1),
                  ("fetch", [0]), ("emit", 0, 1), ("fetch", [0]), ("fetch", [0]), ("fetch", [0]), "ASYNC"]]
        for _ in range(ctx.n(700, 12000)):
            a = 2 if rng.random() < 0.12 else 0
            cases.append(gen_raw_ops(rng, async_stop=a) + (["ASYNC"] if a else []))
    terms, meta = [], []
    for ops in cases:
        asyn = 2 if ops and ops[-1] == "ASYNC" else 0
        ops = [o for o in ops if o != "ASYNC"]
        after_stop = []
        polls, err, mops = run_raw_ops(ops, async_stop=asyn, after_stop=after_stop)
        ctx.h("raw_delayed_stop", bool(asyn))
        if after_stop:
            ctx.violation("property", "generic TrialBackend.fetch_status_results: results %s of a trial were returned after stop_trial "
                          "(the job was still 'stopping')" % after_stop[:4],
                          case=dict(kind="raw", ops=[list(o) for o in ops] + (["ASYNC"] if asyn else [])),
                          signature=dict(backend="generic TrialBackend.fetch_status_results", event="results_returned_after_stop_trial"))
        nres = sum(len(b) for b, _ in polls)
        resumed = any(o[0] == "resume" for o in ops)
        ctx.count(("raw", ops), nontrivial=bool(nres >= 2 and (resumed or any(o[0] in ("pause", "stop") for o in ops))))
        ctx.h("raw_len", len(ops) // 5 * 5)
        ctx.h("raw_error", err or "none")
        for o in ops:
            ctx.h("raw_op", o[0])
        ctx.h("raw_fetch_with_worker_between_reads", sum(1 for o in mops if o[0] == "fetch" and len(o) > 2 and o[2]))
        terms.append(seq_term(GENERIC_KIND[0], mops[:len(mops) if err is None else len(mops)], [], polls, err))
        meta.append(dict(kind="raw", ops=[list(o) for o in ops] + (["ASYNC"] if asyn else []), impl_polls=polls, impl_error=err))
    if terms:
        ctx.sample(dict(kind="raw TrialBackend operations", ops=meta[0]["ops"][:8], impl_polls=meta[0]["impl_polls"][:4]))
        for i in ctx.coq_bad_cases("raw", IMPORTS, PRELUDE, "chk_seq", terms, shard=125):
            ctx.violation("correspondence", "model Fetch.v (Generic) differs from TrialBackend on a raw operation sequence",
                          case=meta[i], failing_input=False,
                          broken="correspondence chk_seq (model/Fetch.v fetch_generic / t_pause / t_stop / t_resume, kind %s)" % GENERIC_KIND[0])


# ----------------------------------------------------------------------------------------------
# B/C. whole runs of the real Tuner with scripted backend + scheduler
# ----------------------------------------------------------------------------------------------
class Policy:
    """Random policy that records its choices; or replays a recorded script (same order of calls)."""

    def __init__(self, rng=None, script=None, params=None):
        self.rng, self.script, self.p = rng, script, params or {}
        self.rec = dict(suggest=[], decide=[], world=[])
        self.pos = dict(suggest=0, decide=0, world=0)
        self.clock = Clock(rng or random.Random(0), ties=self.p.get("ties", 0.0))
        self.backend = None
        self.n_polls = 10 ** 9
        self.paused = []          # trials paused and not yet resumed (scheduler's own knowledge)
        self.nruns = {}
        self.sim = self.p.get("sim", False)

    def _take(self, key):
        s = self.script[key]
        i = self.pos[key]
        self.pos[key] += 1
        return s[i] if i < len(s) else None

    def _mk(self, reps):
        if self.sim:
            # simulated job: elapsed time since the start of the run, no worker time stamp
            from fetch_scripted import mk_report
            return [mk_report(None, v, epoch=i + 1, elapsed=el, with_ts=False) for i, (el, v) in enumerate(reps)]
        return as_dicts(reps)

    def _gen_reps(self, tid, run, nmin):
        rng = self.rng
        if self.sim:
            n = rng.randint(nmin, 6)
            el, out = 0.0, []
            for i in range(n):
                el += rng.choice(self.p.get("gaps", [0.25, 0.5, 1.0]))
                out.append((el, payload(tid, run, i)))
            return out
        return gen_run(rng, self.clock, tid, run, nmin, 6)

    def suggest(self, trial_id):
        if self.script is not None:
            s = self._take("suggest")
            if s is None:
                s = ["start", [[0.0 if not self.sim else 1.0, payload(trial_id, 0, 0)]]]
        elif self.rng.random() < self.p.get("p_none", 0.0):
            s = ["none"]      # the scheduler has nothing more to suggest (Tuner: configuration space exhausted)
        else:
            if self.paused and self.rng.random() < self.p.get("p_resume", 0.5):
                tid = self.rng.choice(self.paused)
                s = ["resume", tid, [list(r) for r in self._gen_reps(tid, self.nruns[tid], 0 if self.rng.random() < 0.1 else 1)]]
            else:
                s = ["start", [list(r) for r in self._gen_reps(trial_id, 0, 1)]]
            if not self.sim and self.rng.random() < self.p.get("p_eager", 0.3):
                s.append(self.rng.randint(1, 2))     # a fast job: its first report(s) are written right at launch
        self.rec["suggest"].append(s)
        if s[0] == "none":
            return None
        if s[0] == "start":
            self.nruns[trial_id] = 1
            return ("start", self._mk([tuple(r) for r in s[1]]), s[2] if len(s) > 2 else 0)
        tid = s[1]
        if tid in self.paused:
            self.paused.remove(tid)
        self.nruns[tid] = self.nruns.get(tid, 1) + 1
        return ("resume", tid, self._mk([tuple(r) for r in s[2]]), s[3] if len(s) > 3 else 0)

    def decide(self, trial_id, result):
        if self.script is not None:
            d = self._take("decide") or ["CONTINUE", 0]
        else:
            x = self.rng.random()
            dec = "PAUSE" if x < self.p.get("p_pause", 0.25) else "STOP" if x < self.p.get("p_pause", 0.25) + self.p.get("p_stop", 0.12) else "CONTINUE"
            late = self.rng.choice(self.p.get("lates", [0]))
            d = [dec, late if dec != "CONTINUE" else 0]
        self.rec["decide"].append(d)
        if d[0] == "PAUSE":
            self.paused.append(trial_id)
        return d[0], d[1]

    def world(self, backend):
        if backend.npolls > self.n_polls + 80:
            raise RuntimeError("the tuning loop does not end")
        waiting = self.p.get("wait") and not self.sim and backend.npolls >= self.n_polls
        if self.script is not None:
            w = self._take("world")
            if w is None:
                # replay past the recorded script while the tuner waits for its trials: let them end
                w = [["finish", tid, 0] for tid, wk in backend.w.items() if wk.proc == "running"] if waiting else []
        elif waiting:
            # wait_trial_completion_when_stopping: the stop criterion is met, the tuner waits for the running trials;
            # every worker ends soon -- before a poll reads, or right after it (before a busy query)
            w = []
            for tid, wk in backend.w.items():
                if wk.proc == "running":
                    x = self.rng.random()
                    w.append(["finish", tid, 0] if x < 0.4 else ["post_finish", tid, 0] if x < 0.75 else ["emit", tid, 1])
        else:
            w = []
            for tid, wk in backend.w.items():
                if wk.proc == "running":
                    x = self.rng.random()
                    y = self.rng.random()
                    mid = "" if self.sim else "mid_" if y < self.p.get("p_mid", 0.15) else "post_" if y < self.p.get("p_mid", 0.15) + self.p.get("p_post", 0.1) else ""
                    if not self.sim and not mid and self.rng.random() < self.p.get("p_half", 0.08):
                        w.append(["half", tid, 0])     # this poll sees the begun line; a later write completes it
                    elif x < 0.6:
                        w.append([mid + "emit", tid, self.rng.randint(0, 3)])
                    elif x < 0.85:
                        w.append([mid + "finish", tid, 0])
                    elif x < 0.9:
                        w.append([mid + "fail", tid, self.rng.randint(0, 2)])
        self.rec["world"].append(w)
        return [tuple(x) for x in w]


@contextlib.contextmanager
def quiet():
    lv = logging.root.manager.disable
    logging.disable(logging.CRITICAL)
    try:
        with contextlib.redirect_stdout(io.StringIO()):
            yield
    finally:
        logging.disable(lv)


COMPOSERS = {}


def composer_answers(cb):
    c = COMPOSERS.get(id(cb))
    return c.answers if c is not None else []


def log_rows_of(cb):
    """rows of the real results log: (trial id, payload, extra columns)"""
    out = []
    for r in cb.results:
        x = r.get("extra_calls")
        out.append((r["trial_id"], r["v"], [] if x is None else [int(x)]))
    return out


def run_tuner_generic(case):
    """Real Tuner.run over FakeProcLocalBackend + ScriptedScheduler. Returns the observation dict."""
    from fetch_scripted import FakeProcLocalBackend, ScriptedScheduler, ScriptedComposer
    from syne_tune import Tuner
    from syne_tune.results_callback import StoreResultsCallback
    pol = Policy(rng=random.Random(case["seed"]) if case.get("script") is None else None,
                 script=case.get("script"), params=case["params"])
    b = FakeProcLocalBackend()
    b.world_fn = pol.world
    pol.backend = b
    pol.n_polls = case["n_polls"]
    sch = ScriptedScheduler(pol, b)
    comp = case["params"].get("composer", "no_composer")
    composer = None if comp == "no_composer" else ScriptedComposer(comp)
    cb = StoreResultsCallback(extra_results_composer=composer)
    COMPOSERS[id(cb)] = composer
    tuner = Tuner(trial_backend=b, scheduler=sch, stop_criterion=lambda status: b.npolls >= case["n_polls"],
                  n_workers=case["W"], sleep_time=0, callbacks=[cb], tuner_name="c02", suffix_tuner_name=False,
                  save_tuner=False, max_failures=10 ** 6,
                  start_jobs_without_delay=case["params"].get("sjwd", True),
                  wait_trial_completion_when_stopping=bool(case["params"].get("wait", False)))
    crash = None
    with quiet():
        try:
            tuner.run()
        except Exception as e:  # noqa
            crash = "%s: %s" % (type(e).__name__, str(e)[:200])
        finally:
            b.close()
    # events for the model
    evs, out, polls, reported, timeline = [], [], [], {}, []
    cur_poll = None
    for c in b.calls:
        if c[0] == "suggest":
            continue
        if c[0] == "exit_ok":
            timeline.append(("exit_ok", c[1]))
            continue
        if c[0] == "result":
            out.append((c[1], c[2]))
            cur_poll[2].append((c[3], c[4]))
            timeline.append(("result", c[1], c[2], c[3]))
            continue
        cur_poll = None
        if c[0] == "half":
            continue
        if c[0] in ("emit", "finish", "fail"):
            evs.append((c[0], c[1], c[2]) if c[0] != "finish" else ("finish", c[1]))
        elif c[0] == "start":
            reps = [(r["st_worker_timestamp"], r["v"]) for r in c[2]]
            evs.append(("start", reps))
            reported.setdefault(c[1], []).append([v for _, v in reps])
            timeline.append(("start", c[1]))
        elif c[0] == "resume":
            reps = [(r["st_worker_timestamp"], r["v"]) for r in c[2]]
            evs.append(("resume", c[1], reps))
            reported.setdefault(c[1], []).append([v for _, v in reps])
            timeline.append(("resume", c[1]))
        elif c[0] == "poll":
            cur_poll = ["poll", list(c[1]), [], [list(m) for m in c[4]]]
            evs.append(cur_poll)
            polls.append((list(c[2]), [(i, c[3][i]) for i in c[1]]))
            timeline.append(("poll", dict(c[3])))
    evs = [tuple(e) for e in evs]
    rows = [(r["trial_id"], r["v"]) for r in cb.results]
    return dict(evs=evs, out=out, polls=polls, reported=reported, timeline=timeline, rows=rows, crash=crash,
                log_rows=log_rows_of(cb), answers=list(composer_answers(cb)), wait=bool(case["params"].get("wait", False)),
                window={k: list(v) for k, v in b.late_emitted.items()}, script=pol.rec,
                mids=sum(len(e[3]) for e in evs if e[0] == "poll" and len(e) > 3))


def run_tuner_sim(case):
    """Real Tuner.run over the real SimulatorBackend (scripted job runner) + SimulatorCallback."""
    from fetch_scripted import ScriptedSimBackend, ScriptedScheduler, FakeTime, ScriptedComposer
    from syne_tune import Tuner
    from syne_tune.backend.simulator_backend.simulator_backend import SimulatorConfig
    from syne_tune.backend.simulator_backend.simulator_callback import SimulatorCallback
    prm = dict(case["params"])
    prm["sim"] = True
    pol = Policy(rng=random.Random(case["seed"]) if case.get("script") is None else None,
                 script=case.get("script"), params=prm)
    d = prm["delays"]
    cfg = SimulatorConfig(delay_on_trial_result=d[0], delay_complete_after_final_report=d[1],
                          delay_complete_after_stop=d[2], delay_start=d[3], delay_stop=d[4])
    crash = None
    with quiet(), mock.patch("syne_tune.backend.simulator_backend.time_keeper.time", FakeTime()):
        b = ScriptedSimBackend(cfg, tuner_sleep_time=prm["sleep"])
        sch = ScriptedScheduler(pol, b)
        comp = prm.get("composer", "no_composer")
        composer = None if comp == "no_composer" else ScriptedComposer(comp)
        cb = SimulatorCallback(extra_results_composer=composer)
        COMPOSERS[id(cb)] = composer
        tuner = Tuner(trial_backend=b, scheduler=sch, stop_criterion=lambda status: b.npolls >= case["n_polls"],
                      n_workers=case["W"], sleep_time=0, callbacks=[cb], tuner_name="c02", suffix_tuner_name=False,
                      save_tuner=False, max_failures=10 ** 6)
        try:
            tuner.run()
        except Exception as e:  # noqa
            crash = "%s: %s" % (type(e).__name__, str(e)[:200])
    # reconstruct the model's events from the recorded calls
    evs, out, polls, reported, timeline, window = [], [], [], {}, [], {}
    cnt, stat, runof = {}, {}, {}
    last_suggest, cur_poll, pending = None, None, None
    same_iter_resume = False
    paused_in_iter = set()

    def world_diffs(after, skip=None):
        for tid in sorted(after):
            if tid == skip:
                continue
            n, s = after[tid]
            if n > cnt.get(tid, 0):
                evs.append(("emit", tid, n - cnt.get(tid, 0)))
                cnt[tid] = n
            if s == "Completed" and stat.get(tid) != "Completed":
                evs.append(("finish", tid))
            stat[tid] = s

    calls = b.calls
    for idx, c in enumerate(calls):
        if isinstance(c, tuple):
            if c[0] == "suggest":
                last_suggest = c
            elif c[0] == "result":
                if cur_poll is None:
                    continue
                out.append((c[1], c[2]))
                timeline.append(("result", c[1], c[2], c[3]))
                late = 0
                if c[3] != "CONTINUE":
                    nxt = calls[idx + 1] if idx + 1 < len(calls) else None
                    if isinstance(nxt, dict) and nxt["op"] in ("pause", "stop") and nxt["tid"] == c[1]:
                        n_after = nxt["after"].get(c[1], (0, None))[0]
                        late = n_after - cnt.get(c[1], 0)
                        run_reps = reported[c[1]][-1]
                        base = runof[c[1]]
                        window.setdefault(c[1], []).extend(run_reps[cnt.get(c[1], 0) - base:n_after - base])
                        cnt[c[1]] = n_after
                        stat[c[1]] = nxt["after"].get(c[1], (0, "InProgress"))[1]
                    if c[3] == "PAUSE":
                        paused_in_iter.add(c[1])
                cur_poll[2].append((c[3], late))
            continue
        op = c["op"]
        if op in ("pause", "stop"):
            continue
        if op == "poll":
            world_diffs(c["after"])
            cur_poll = ["poll", list(c["ids"]), []]
            evs.append(cur_poll)
            polls.append((list(c["batch"]), [(i, c["status"][i]) for i in c["ids"]]))
            timeline.append(("poll", dict(c["status"])))
            paused_in_iter = set()
        elif op == "start":
            world_diffs(c["after"])
            reps = [(0, v) for v in last_suggest[3]]
            evs.append(("start", reps))
            reported.setdefault(c["tid"], []).append(list(last_suggest[3]))
            runof[c["tid"]] = 0
            timeline.append(("start", c["tid"]))
        elif op == "resume":
            world_diffs(c["after"])
            reps = [(0, v) for v in last_suggest[3]]
            evs.append(("resume", c["tid"], reps))
            reported.setdefault(c["tid"], []).append(list(last_suggest[3]))
            runof[c["tid"]] = cnt.get(c["tid"], 0)
            timeline.append(("resume", c["tid"]))
            if c["tid"] in paused_in_iter:
                same_iter_resume = True
    evs = [tuple(e) for e in evs]
    rows = [(r["trial_id"], r["v"]) for r in cb.results]
    return dict(evs=evs, out=out, polls=polls, reported=reported, timeline=timeline, rows=rows, crash=crash,
                log_rows=log_rows_of(cb), answers=list(composer_answers(cb)),
                window=window, script=pol.rec, same_iter_resume=same_iter_resume)


# ----------------------------------------------------------------------------------------------
# independent checker: reported vs delivered vs decisions (implementation data only)
# ----------------------------------------------------------------------------------------------
def check_delivery(obs):
    """Returns list of (event, detail). Uses only what the workers were scripted to report, the
    decisions the scheduler took and what reached on_trial_result / the results log."""
    bad = []
    if obs["rows"] != obs["out"]:
        # the results log must hold one row per delivered result, in delivery order (whatever the extra columns)
        bad.append(("results_log_differs_from_on_trial_result", dict(rows=obs["rows"][:10], out=obs["out"][:10],
                                                                      n_rows=len(obs["rows"]), n_delivered=len(obs["out"]))))
    seg, segs = {}, {}          # trial -> index of current run; (trial, run) -> delivered payloads
    polls_since, gap_at_resume = {}, {}   # polls between the decision and the resume of a trial
    decided, completed, pending = {}, set(), []
    exited, must_complete, decided_runs = [], set(), set()
    window_all = {int(tid): set(v) for tid, v in obs["window"].items()}

    def settle():
        # a trial the last poll showed as completed, and no decision was taken for it in that batch
        for tid in pending:
            if not decided.get(tid):
                completed.add((tid, seg[tid]))
        del pending[:]

    for ev in list(obs["timeline"]) + [("end",)]:
        if ev[0] not in ("result", "exit_ok"):
            settle()
        if ev[0] == "exit_ok":
            exited.append((ev[1], seg[ev[1]]))
        elif ev[0] == "end" and obs.get("wait"):
            # wait_trial_completion_when_stopping=True: tuning only ends once every running trial is done, so a run
            # whose worker has exited before the end was "completed on its own before tuning ended"
            must_complete.update(exited)
        elif ev[0] == "poll":
            # the worker of these runs had written everything and exited before this poll started
            must_complete.update(exited)
            del exited[:]
        if ev[0] in ("start", "resume"):
            tid = ev[1]
            seg[tid] = seg.get(tid, -1) + 1
            segs[(tid, seg[tid])] = []
            gap_at_resume[tid] = polls_since.get(tid) if decided.get(tid) else None
            decided[tid] = None
        elif ev[0] == "result":
            _, tid, v, dec = ev
            if decided.get(tid):
                bad.append(("delivered_after_%s_decision_before_resume" % decided[tid].lower(), dict(trial=tid, payload=v)))
            if v in window_all.get(tid, ()):
                bad.append(("LATE", dict(trial=tid, payload=v, run=seg[tid], polls_between_pause_and_resume=gap_at_resume.get(tid))))
            segs[(tid, seg[tid])].append(v)
            if dec != "CONTINUE":
                decided[tid] = dec
                decided_runs.add((tid, seg[tid]))
                polls_since[tid] = 0
        elif ev[0] == "poll":
            pending.extend(tid for tid, s in ev[1].items() if s == "Completed" and not decided.get(tid))
            for tid in polls_since:
                polls_since[tid] += 1
    for (tid, j), dl in segs.items():
        rep = obs["reported"][tid][j]
        if dl != rep[:len(dl)]:
            if j > 0 and dl and dl[0] in window_all.get(tid, ()):
                continue   # already reported as LATE (first delivery after resume is a window report of an earlier run)
            bad.append(("delivered_not_a_prefix_of_reported", dict(trial=tid, run=j, delivered=dl, reported=rep)))
        elif (tid, j) in completed and dl != rep:
            bad.append(("completed_run_not_fully_delivered", dict(trial=tid, run=j, delivered=dl, reported=rep)))
        elif (tid, j) in must_complete and (tid, j) not in decided_runs and dl != rep:
            # the run completed on its own and the tuning loop polled again afterwards, without any decision
            bad.append(("run_completed_on_its_own_before_a_later_poll_not_fully_delivered",
                        dict(trial=tid, run=j, delivered=dl, reported=rep)))
    return bad


def gen_tuner_case(rng, sim):
    lates = rng.choice([[0], [0], [0, 0, 1], [0, 1, 2]])
    prm = dict(wait=(not sim) and rng.random() < 0.25, p_none=rng.choice([0.0, 0.0, 0.05, 0.15]), composer=rng.choice(["no_composer", "no_composer", "dict_always", "none_always", "none_odd", "none_until_completion"]),
               sjwd=True if sim else rng.random() < 0.7, p_pause=rng.choice([0.1, 0.25, 0.4]), p_stop=rng.choice([0.05, 0.12, 0.25]),
               p_resume=rng.choice([0.2, 0.5, 0.9]), lates=lates, ties=rng.choice([0.0, 0.0, 0.2]))
    if sim:
        dr = rng.choice([0.0, 0.05, 0.5])
        prm.update(delays=[dr, rng.choice([dr, dr + 0.05, dr + 1.0]), rng.choice([0.0, 0.05, 1.0]),
                           rng.choice([0.0, 0.05, 0.5]), rng.choice([0.0, 0.05, 0.5, 2.0])],
                   sleep=rng.choice([0.3, 1.0, 3.0]), gaps=rng.choice([[0.25, 0.5, 1.0], [0.05, 0.1], [1.0, 2.5]]))
    return dict(kind="tuner_sim" if sim else "tuner_generic", seed=rng.randrange(10 ** 9), W=rng.randint(1, 3),
                n_polls=rng.randint(4, 14) if sim else rng.randint(3, 10), params=prm, script=None)


def tuner_cases(ctx, replay, sim):
    rng = ctx.rng
    kind = "tuner_sim" if sim else "tuner_generic"
    if replay is not None:
        if replay.get("kind") != kind:
            return
        cases = [replay]
    else:
        cases = [gen_tuner_case(rng, sim) for _ in range(ctx.n(300 if sim else 450, 6000 if sim else 9000))]
    runner = run_tuner_sim if sim else run_tuner_generic
    terms, meta = [], []
    for case in cases:
        obs = runner(case)
        rcase = dict(kind=kind, seed=case["seed"], W=case["W"], n_polls=case["n_polls"], params=case["params"],
                     script=obs["script"])
        nres = len(obs["out"])
        nresume = sum(1 for e in obs["evs"] if e[0] == "resume")
        ndec = sum(1 for e in obs["timeline"] if e[0] == "result" and e[3] != "CONTINUE")
        skipped = sum(len(b) for b, _ in obs["polls"]) - nres
        ctx.count((kind, rcase["script"], case["W"], case["n_polls"]), nontrivial=bool(nres >= 3 and ndec >= 1 and (nresume >= 1 or skipped >= 1)))
        ctx.h(kind + "_results", min(nres // 5 * 5, 40))
        ctx.h(kind + "_resumes", min(nresume, 5))
        ctx.h(kind + "_skipped_in_batch", min(skipped, 5))
        ctx.h(kind + "_window_reports", min(sum(len(v) for v in obs["window"].values()), 5))
        if sim:
            ctx.h(kind + "_same_iteration_resume", obs["same_iter_resume"])
        else:
            ctx.h(kind + "_worker_acts_between_reads", min(obs.get("mids", 0), 5))
            ctx.h(kind + "_start_jobs_without_delay", case["params"].get("sjwd", True))
        ctx.h(kind + "_results_log_composer", case["params"].get("composer", "no_composer"))
        ctx.h(kind + "_wait_trial_completion_when_stopping", bool(case["params"].get("wait", False)))
        sg = obs["script"]["suggest"]
        ctx.h(kind + "_space_exhausted", "no" if ["none"] not in sg else
              "after_a_start_in_the_same_call" if len(sg) >= 2 and sg[-2][0] != "none" else "yes")
        if obs["crash"]:
            # the scripts are legal (the scheduler only resumes paused trials, ...): tuning that aborts delivers nothing more
            ctx.violation("property", "Tuner.run raised on a scripted run (%s): %s" % (kind, obs["crash"]), case=rcase,
                          signature=dict(backend=(SIG_SIM_LATE if sim else SIG_GENERIC_LATE)["backend"], event="tuner_run_raises",
                                         exception=obs["crash"].split(":")[0],
                                         start_jobs_without_delay=bool(case["params"].get("sjwd", True))))
            continue
        ctx.traces_validated += 1
        for event, detail in check_delivery(obs):
            if event == "LATE" and sim and detail["polls_between_pause_and_resume"] != 0:
                sig = dict(backend=SIG_SIM_LATE["backend"], event="report_processed_in_stop_window_delivered_after_later_resume")
                what = "%s: %s" % (sig["backend"], detail)
            elif event == "LATE":
                sig = dict(SIG_SIM_LATE if sim else SIG_GENERIC_LATE)
                what = ("%s: trial %d got report %d, which its previous run wrote after the PAUSE decision and before the "
                        "worker was gone, delivered after resume_trial" % (sig["backend"], detail["trial"], detail["payload"]))
            else:
                sig = dict(backend=(SIG_SIM_LATE if sim else SIG_GENERIC_LATE)["backend"], event=event,
                           start_jobs_without_delay=bool(case["params"].get("sjwd", True)))
                what = "%s: %s %s" % (sig["backend"], event, detail)
            ctx.violation("property", what, case=dict(rcase, first_bad=detail), signature=sig)
            break
        terms.append(seq_term("Sim" if sim else GENERIC_KIND[0], obs["evs"], obs["out"], obs["polls"], None, tuner=True,
                              answers=obs.get("answers", []), rows=obs.get("log_rows", [])))
        meta.append(dict(rcase, impl_out=obs["out"], impl_polls=obs["polls"], events=[list(e) for e in obs["evs"]]))
    if terms:
        ctx.sample(dict(kind=kind, W=meta[0]["W"], n_polls=meta[0]["n_polls"], events=meta[0]["events"][:10],
                        impl_delivered=meta[0]["impl_out"][:10]))
        for i in ctx.coq_bad_cases(kind, IMPORTS, PRELUDE, "chk_seq", terms, shard=60):
            ctx.violation("correspondence", "model Fetch.v (%s) differs from the real Tuner/backend on a whole run" % ("Sim" if sim else "Generic"),
                          case=meta[i], failing_input=False,
                          broken="correspondence chk_seq (model/Fetch.v fetch / update_loop, %s)" % ("Sim" if sim else "Generic"))


# ----------------------------------------------------------------------------------------------
# C2. the script based SimulatorBackend: _run_job_and_collect_results slices std.out on resume
# ----------------------------------------------------------------------------------------------
TRAIN_SCRIPT = """
import argparse, json, os
p = argparse.ArgumentParser()
p.add_argument("--epochs", type=int)
p.add_argument("--ckpt", type=int)
p.add_argument("--tid", type=int)
p.add_argument("--st_checkpoint_dir", type=str)
a, _ = p.parse_known_args()
os.makedirs(a.st_checkpoint_dir, exist_ok=True)
ck = os.path.join(a.st_checkpoint_dir, "epoch.txt")
start = int(open(ck).read()) if (a.ckpt and os.path.exists(ck)) else 0
rf = os.path.join(a.st_checkpoint_dir, "run.txt")
run = int(open(rf).read()) + 1 if os.path.exists(rf) else 0
open(rf, "w").write(str(run))
for epoch in range(start + 1, a.epochs + 1):
    print("[tune-metric]: " + json.dumps({"epoch": epoch, "v": a.tid * 10000 + run * 100 + epoch,
                                           "elapsed": 1.0 * (epoch - start)}), flush=True)
    open(ck, "w").write(str(epoch))
"""

SIG_SIM_SLICE = {"backend": "SimulatorBackend._run_job_and_collect_results",
                 "event": "resumed_job_delivers_results_of_a_previous_run"}


def gen_simscript_case(rng):
    ntr = rng.randint(1, 2)
    ops, started, state = [], 0, {}
    nstarts = 0
    for _ in range(rng.randint(6, 16)):
        running = [i for i, s in state.items() if s == "run"]
        paused = [i for i, s in state.items() if s == "paused"]
        k = rng.choice(["adv"] * 4 + ["fetch"] * 4 + ["pause"] * 2 + ["stop", "resume", "resume", "start"])
        if k == "start" or not state:
            if started < ntr and nstarts < 4:
                ops.append(["start", rng.randint(3, 6), rng.randint(0, 1)])
                state[started] = "run"
                started += 1
                nstarts += 1
        elif k == "adv":
            ops.append(["adv", rng.choice([0.5, 1.0, 1.5, 2.5])])
        elif k == "fetch":
            ids = [i for i in running if rng.random() < 0.6]
            rng.shuffle(ids)
            ops.append(["fetch", ids])
        elif k in ("pause", "stop") and running:
            i = rng.choice(running)
            ops.append([k, i])
            state[i] = "paused" if k == "pause" else "stopped"
        elif k == "resume" and paused and nstarts < 4:
            i = rng.choice(paused)
            ops.append(["resume", i])
            state[i] = "run"
            nstarts += 1
    ops += [["adv", 8.0], ["fetch", [i for i, s in state.items() if s == "run"]]]
    return dict(kind="simscript", delays=rng.choice([[0, 0, 0, 0, 0], [0.0, 0.0, 0.25, 0.0, 0.75]]), ops=ops)


def run_simscript(case, tmp):
    """Raw operations on the real script based SimulatorBackend (simulated time advanced by hand)."""
    import sys
    from pathlib import Path
    from fetch_scripted import FakeTime
    from syne_tune.backend.simulator_backend.simulator_backend import SimulatorBackend, SimulatorConfig
    script = Path(tmp) / "c02_train.py"
    script.write_text(TRAIN_SCRIPT)
    d = case["delays"]
    evs, polls, timeline = [], [], []
    cnt, stat = {}, {}
    pred, conf, nrun, ckpt_epoch = {}, {}, {}, {}       # predicted std.out payloads per trial
    arrived_at_resume = {}
    old_path = os.environ.get("PATH", "")
    os.environ["PATH"] = str(Path(sys.executable).parent) + os.pathsep + old_path
    try:
        with quiet(), mock.patch("syne_tune.backend.simulator_backend.time_keeper.time", FakeTime()):
            b = SimulatorBackend(entry_point=str(script), elapsed_time_attr="elapsed",
                                 simulator_config=SimulatorConfig(delay_on_trial_result=d[0], delay_complete_after_final_report=d[1],
                                                                  delay_complete_after_stop=d[2], delay_start=d[3], delay_stop=d[4]))
            b.set_path(tempfile.mkdtemp(prefix="exp-", dir=tmp))
            b.time_keeper.start_of_time()

            def snap():
                return {tr.trial_id: (len(tr.metrics), tr.status) for tr in b._all_trial_results(list(b.trial_ids))}

            def world(skip=None):
                after = snap()
                for tid in sorted(after):
                    if tid == skip:
                        continue
                    n, st = after[tid]
                    if n > cnt.get(tid, 0):
                        evs.append("W (Emit %s %s)" % (natlit(tid), natlit(n - cnt.get(tid, 0))))
                        cnt[tid] = n
                    if st == "Completed" and stat.get(tid) != "Completed":
                        evs.append("W (Finish %s)" % natlit(tid))
                    stat[tid] = st
                return after

            def script_lines(tid):
                n, ck = conf[tid]
                start = ckpt_epoch.get(tid, 0) if ck else 0
                run = nrun.get(tid, -1) + 1
                nrun[tid] = run
                lines = [tid * 10000 + run * 100 + e for e in range(start + 1, n + 1)]
                if lines:
                    ckpt_epoch[tid] = n
                return lines

            for op in case["ops"]:
                if op[0] == "adv":
                    b.time_keeper.advance(op[1])
                elif op[0] == "start":
                    tid = len(b.trial_ids)
                    b.start_trial({"epochs": op[1], "ckpt": op[2], "tid": tid})
                    world()
                    conf[tid] = (op[1], op[2])
                    pred[tid] = script_lines(tid)
                    evs.append("Start %s" % reps_t([(0, v) for v in pred[tid]]))
                    timeline.append(("start", tid))
                elif op[0] == "fetch":
                    st, res = b.fetch_status_results(list(op[1]))
                    world()
                    evs.append("Fetch %s" % lst([natlit(i) for i in op[1]]))
                    polls.append(([(i, r["v"]) for i, r in res], [(i, st[i][1]) for i in op[1]]))
                    for i, r in res:
                        timeline.append(("result", i, r["v"]))
                elif op[0] in ("pause", "stop"):
                    tid = op[1]
                    (b.pause_trial if op[0] == "pause" else b.stop_trial)(tid, None)
                    after = snap()
                    n = after.get(tid, (0, None))[0]
                    evs.append("%s %s %s" % ("PauseT" if op[0] == "pause" else "StopT", natlit(tid), natlit(n - cnt.get(tid, 0))))
                    cnt[tid] = n
                    stat[tid] = after.get(tid, (0, "InProgress"))[1]
                    timeline.append((op[0], tid))
                elif op[0] == "resume":
                    tid = op[1]
                    b.resume_trial(tid)
                    world()
                    arrived_at_resume.setdefault(tid, []).append(cnt.get(tid, 0))
                    new_lines = script_lines(tid)
                    pred[tid] = pred[tid] + new_lines
                    evs.append("Resume %s %s" % (natlit(tid), reps_t([(0, v) for v in new_lines])))
                    timeline.append(("resume", tid, cnt.get(tid, 0)))
            from syne_tune.report import retrieve
            real = {tid: [r["v"] for r in retrieve(b.stdout(tid))] for tid in b.trial_ids if os.path.exists(b.trial_path(tid) / "std.out")}
    finally:
        os.environ["PATH"] = old_path
    return dict(evs=evs, polls=polls, timeline=timeline, pred=pred, real=real)


def check_simscript(obs):
    """model-free: a delivered result belongs to the CURRENT run of its trial (nothing a paused/stopped run
    wrote is delivered after a resume), in the order the run wrote them, nothing twice, nothing while the
    trial is paused/stopped"""
    bad = []
    pos = {tid: {v: k for k, v in enumerate(lines)} for tid, lines in obs["real"].items()}
    last, run_no, off, seen_v = {}, {}, {}, set()
    for ev in obs["timeline"]:
        if ev[0] == "start":
            run_no[ev[1]] = 0
        elif ev[0] in ("pause", "stop"):
            off[ev[1]] = ev[0]
        elif ev[0] == "resume":
            off[ev[1]] = None
            run_no[ev[1]] += 1
        elif ev[0] == "result":
            _, tid, v = ev
            k = pos.get(tid, {}).get(v)
            if off.get(tid):
                bad.append(("delivered_while_%s" % off[tid], dict(trial=tid, payload=v)))
            if (tid, v) in seen_v:
                bad.append(("delivered_twice", dict(trial=tid, payload=v)))
            elif k is None:
                bad.append(("delivered_result_not_in_stdout", dict(trial=tid, payload=v)))
            elif (v // 100) % 100 != run_no[tid]:
                bad.append(("SLICE", dict(trial=tid, payload=v, why="was written by run %d of the trial, delivered during run %d (after the resume)" % ((v // 100) % 100, run_no[tid]))))
            elif k <= last.get(tid, -1):
                bad.append(("delivered_out_of_order", dict(trial=tid, payload=v)))
            seen_v.add((tid, v))
            if k is not None:
                last[tid] = max(last.get(tid, -1), k)
    return bad


SIMSCRIPT_DIRECTED = [
    # F-C02-3: the script (no checkpointing) writes epochs 1..4 at elapsed 1..4; epoch 1 delivered, pause, resume:
    # the events of epochs 2..4 of the paused run were removed and never arrived; they must not come back
    dict(kind="simscript", delays=[0, 0, 0, 0, 0],
         ops=[["start", 4, 0], ["adv", 1.5], ["fetch", [0]], ["pause", 0], ["resume", 0], ["adv", 20.0], ["fetch", [0]]]),
    # a poll that does not cover the reporting trial (epochs 1, 2 dropped), epoch 3 delivered, pause, resume of a
    # script that checkpoints (it ran to the end: the resumed job writes nothing), polls to the end
    dict(kind="simscript", delays=[0, 0, 0, 0, 0],
         ops=[["start", 6, 1], ["adv", 2.5], ["fetch", []], ["adv", 1.0], ["fetch", [0]], ["pause", 0], ["resume", 0],
              ["adv", 9.0], ["fetch", [0]]]),
]


def simscript_cases(ctx, replay, tmp):
    rng = ctx.rng
    if replay is not None:
        if replay.get("kind") != "simscript":
            return
        cases = [replay]
    else:
        cases, starts, budget = list(SIMSCRIPT_DIRECTED), 4, ctx.n(16, 160)
        while starts < budget:
            c = gen_simscript_case(rng)
            starts += sum(1 for o in c["ops"] if o[0] in ("start", "resume"))
            cases.append(c)
    terms, meta = [], []
    for case in cases:
        obs = run_simscript(case, tmp)
        rcase = dict(kind="simscript", delays=case["delays"], ops=case["ops"])
        nres = sum(len(b) for b, _ in obs["polls"])
        ctx.count(("simscript", rcase), nontrivial=bool(nres >= 2 and any(o[0] == "resume" for o in case["ops"])))
        ctx.h("simscript_script_starts", sum(1 for o in case["ops"] if o[0] in ("start", "resume")))
        ctx.traces_validated += 1
        if obs["pred"] != obs["real"]:
            ctx.violation("correspondence", "driver: predicted std.out %s differs from the real one %s" % (obs["pred"], obs["real"]),
                          case=rcase, failing_input=False, broken="driver c02 simscript (prediction of the training script's output)")
            continue
        for event, detail in check_simscript(obs):
            if event == "SLICE":
                sig = dict(SIG_SIM_SLICE)
                what = "%s: trial %d: result %d %s" % (sig["backend"], detail["trial"], detail["payload"], detail["why"])
            else:
                sig = dict(backend="SimulatorBackend (script based)", event=event)
                what = "%s: %s %s" % (sig["backend"], event, detail)
            ctx.violation("property", what, case=dict(rcase, first_bad=detail, impl_polls=obs["polls"]), signature=sig)
            break
        terms.append("((%s, %s) : s_case)" % (
            lst(["\n    " + e for e in obs["evs"]]),
            lst(["(%s, %s)" % (lst(["(%s, %s)" % (natlit(i), zlit(v)) for i, v in b]),
                               lst(["(%s, %s)" % (natlit(i), ST[s]) for i, s in sts])) for b, sts in obs["polls"]])))
        meta.append(dict(rcase, impl_polls=obs["polls"]))
    if terms:
        for i in ctx.coq_bad_cases("simscript", IMPORTS, PRELUDE, "chk_s", terms, shard=60):
            ctx.violation("correspondence", "model Fetch.v (Sim, script based resume slice) differs from the real SimulatorBackend", case=meta[i],
                          failing_input=False, broken="correspondence chk_s (model/Fetch.v Sim: Resume / fetch_sim / take_nrf)")


# ----------------------------------------------------------------------------------------------
# C3. real processes on the real LocalBackend: pause must end the worker before the trial is resumed
# ----------------------------------------------------------------------------------------------
REAL_SCRIPT = """
import argparse, json, os, signal, sys, time
p = argparse.ArgumentParser()
p.add_argument("--epochs", type=int)
p.add_argument("--tid", type=int)
p.add_argument("--st_checkpoint_dir", type=str)
a, _ = p.parse_known_args()
os.makedirs(a.st_checkpoint_dir, exist_ok=True)
rf = os.path.join(a.st_checkpoint_dir, "run.txt")
run = int(open(rf).read()) + 1 if os.path.exists(rf) else 0
open(rf, "w").write(str(run))
stop = []
signal.signal(signal.SIGTERM, lambda sig, frm: stop.append(1))   # graceful shutdown: finish the epoch, report, exit
for epoch in range(1, a.epochs + 1):
    time.sleep(0.25)
    print("[tune-metric]: " + json.dumps({"epoch": epoch, "v": a.tid * 10000 + run * 100 + epoch,
                                           "st_worker_timestamp": time.time()}), flush=True)
    if stop:
        sys.exit(0)
"""


def realproc_cases(ctx, replay, tmp):
    """2 trials with real worker processes: PAUSE on the report of epoch 2, resume at once, poll to the end"""
    import time
    from pathlib import Path
    from syne_tune.backend.local_backend import LocalBackend
    if replay is not None and replay.get("kind") != "realproc":
        return
    cases = [replay] if replay is not None else [dict(kind="realproc", epochs=[4, 3], pause_at=2)]
    for case in cases:
        script = Path(tmp) / "c02_real.py"
        script.write_text(REAL_SCRIPT)
        delivered, bad, alive_after_pause = {}, None, []
        with quiet():
            b = LocalBackend(entry_point=str(script), rotate_gpus=False)
            b.set_path(tempfile.mkdtemp(prefix="real-", dir=tmp))
            try:
                for n in case["epochs"]:
                    tid = b.start_trial({"epochs": n, "tid": len(b.trial_ids)}).trial_id
                    delivered[tid] = []
                    run_no, t_end, paused_once = 0, time.time() + 20, False
                    while time.time() < t_end:
                        st, res = b.fetch_status_results([tid])
                        for _, r in res:
                            delivered[tid].append((run_no, int(r["v"])))
                        if not paused_once and any(int(r["epoch"]) >= case["pause_at"] for _, r in res):
                            old = b.trial_subprocess[tid]
                            b.pause_trial(tid, result=res[-1][1])
                            b.resume_trial(tid)          # at once, as a scheduler promoting the trial in the same iteration
                            run_no, paused_once = 1, True
                            try:
                                old.wait(timeout=2.0)    # a killed process is gone (almost) immediately
                            except Exception:
                                alive_after_pause.append(tid)
                        elif st[tid][1] == "Completed":
                            break
                        time.sleep(0.05)
            finally:
                b.stop_all()
        ctx.count(("realproc", case), nontrivial=True)
        ctx.traces_validated += 1
        ctx.h("realproc_trials", len(case["epochs"]))
        for tid, dl in delivered.items():
            n = case["epochs"][tid]
            late = [v for run, v in dl if run == 1 and (v // 100) % 100 == 0]
            want_new = [tid * 10000 + 100 + e for e in range(1, n + 1)]
            got_new = [v for run, v in dl if run == 1 and (v // 100) % 100 == 1]
            if late:
                bad = ("report_of_the_paused_run_written_after_the_pause_decision_delivered_after_resume",
                       dict(trial=tid, payloads=late, delivered=dl))
            elif tid in alive_after_pause:
                bad = ("worker_process_alive_after_pause_trial", dict(trial=tid))
            elif got_new != want_new:
                bad = ("resumed_run_not_delivered_completely_in_order", dict(trial=tid, delivered=dl, reported_by_new_run=want_new))
            if bad:
                break
        if bad:
            ctx.violation("property", "LocalBackend with real worker processes: %s %s" % bad, case=dict(case, first_bad=bad[1]),
                          signature=dict(backend="LocalBackend (real processes)", event=bad[0]))


# ----------------------------------------------------------------------------------------------
# D. tabular simulator: which results a resumed job replays
# ----------------------------------------------------------------------------------------------
def gen_times(rng, n):
    """cumulative time column of a benchmark table as a noisy / surrogate-predicted one looks: increasing on the
    whole, with ties, steps below 0.01, and dips below an earlier value over 1, 2 or 3 consecutive levels"""
    t, out = 0.0, []
    for _ in range(n):
        t += rng.choice([0.5, 1.0, 1.0, 2.0, 0.004, 0.0])
        out.append(t)
    style = rng.choice(["plain", "dip1", "dip2", "dip3", "noise"])
    if style.startswith("dip") and n >= 2:
        k = int(style[3])
        i = rng.randrange(1, n)
        for j in range(i, min(n, i + k)):
            out[j] = out[i - 1] * rng.choice([0.3, 0.5, 0.8]) + 0.125 * (j - i) * rng.choice([0, 1, -1])
    elif style == "noise":
        out = [max(0.0, x + rng.choice([-1.5, -0.75, 0.0, 0.0, 0.25])) for x in out]
    return [float(x) for x in out], style


def tab_imports():
    import sys
    import numpy as np
    # yahpo_gym is installed but does not import here (ConfigSpace binary vs numpy 2: ValueError, which
    # blackbox_repository/repository.py does not catch); make it look "not installed" (ImportError is caught)
    if "yahpo_gym" not in sys.modules:
        sys.modules["yahpo_gym"] = None
    with quiet():
        import syne_tune.blackbox_repository  # noqa: F401
    from syne_tune.blackbox_repository.blackbox import Blackbox
    from syne_tune.blackbox_repository.simulated_tabular_backend import UserBlackboxBackend
    from syne_tune.config_space import randint

    class TableBlackbox(Blackbox):
        """one row per configuration x (0..9): objectives v = 1000 x + 100 + level, elapsed = times[x][level index]"""

        def __init__(self, levels, times_per_cfg):
            super().__init__(configuration_space={"x": randint(0, 9)}, fidelity_space={"epoch": randint(1, 100)},
                             objectives_names=["v", "elapsed"])
            self._levels, self._times = list(levels), times_per_cfg

        @property
        def fidelity_values(self):
            return np.array(self._levels)

        def _objective_function(self, configuration, fidelity=None, seed=None):
            x = int(configuration["x"])
            return np.array([[1000.0 * x + 100 + l, t] for l, t in zip(self._levels, self._times[x % len(self._times)])], dtype=float)

    return TableBlackbox, UserBlackboxBackend


def gen_tabsim_case(rng):
    n = rng.randint(2, 7)
    levels = list(range(1, n + 1))
    ncfg = rng.randint(1, 3)
    times = [gen_times(rng, n)[0] for _ in range(ncfg)]
    if rng.random() < 0.5:
        times[0] = gen_times(random.Random(rng.randrange(10 ** 6)), n)[0]
    ops, started = [], 0
    for _ in range(rng.randint(4, 14)):
        k = rng.choice(["adv", "adv", "fetch", "fetch", "start"])
        if k == "start" or not started:
            if started < ncfg:
                ops.append(["start", started])
                started += 1
        elif k == "adv":
            ops.append(["adv", rng.choice([0.005, 0.02, 0.3, 1.0, 2.5])])
        else:
            ops.append(["fetch"])
    ops += [["adv", 100.0], ["fetch"]]
    return dict(kind="tabsim", levels=levels, times=times, delays=rng.choice([[0, 0, 0, 0, 0], [0.0, 0.05, 0.0, 0.05, 0.0]]), ops=ops)


def run_tabsim(case):
    """start / advance / poll on the real UserBlackboxBackend over a table whose time column has dips"""
    from fetch_scripted import FakeTime
    from syne_tune.backend.simulator_backend.simulator_backend import SimulatorConfig
    TableBlackbox, UserBlackboxBackend = tab_imports()
    d = case["delays"]
    evs, polls, delivered, cnt, stat = [], [], {}, {}, {}
    with quiet(), mock.patch("syne_tune.backend.simulator_backend.time_keeper.time", FakeTime()):
        b = UserBlackboxBackend(blackbox=TableBlackbox(case["levels"], case["times"]), elapsed_time_attr="elapsed", seed=0,
                                simulator_config=SimulatorConfig(delay_on_trial_result=d[0], delay_complete_after_final_report=d[1],
                                                                 delay_complete_after_stop=d[2], delay_start=d[3], delay_stop=d[4]))
        b.time_keeper.start_of_time()

        def world():
            for tr in b._all_trial_results(list(b.trial_ids)):
                tid, n, st = tr.trial_id, len(tr.metrics), tr.status
                if n > cnt.get(tid, 0):
                    evs.append("W (Emit %s %s)" % (natlit(tid), natlit(n - cnt.get(tid, 0))))
                    cnt[tid] = n
                if st == "Completed" and stat.get(tid) != "Completed":
                    evs.append("W (Finish %s)" % natlit(tid))
                stat[tid] = st

        for op in case["ops"]:
            if op[0] == "adv":
                b.time_keeper.advance(op[1])
            elif op[0] == "start":
                tid = len(b.trial_ids)
                b.start_trial({"x": op[1]})
                world()
                evs.append("Start %s" % reps_t([(0, 1000 * op[1] + 100 + l) for l in case["levels"]]))
                delivered[tid] = []
            elif op[0] == "fetch":
                ids = list(b.trial_ids)
                st, res = b.fetch_status_results(ids)
                world()
                evs.append("Fetch %s" % lst([natlit(i) for i in ids]))
                polls.append(([(i, int(r["v"])) for i, r in res], [(i, st[i][1]) for i in ids]))
                for i, r in res:
                    delivered[i].append(int(r["epoch"]))
        final = {tid: stat.get(tid) for tid in delivered}
    return dict(evs=evs, polls=polls, delivered=delivered, final=final)


def tabsim_cases(ctx, replay):
    rng = ctx.rng
    if replay is not None:
        if replay.get("kind") != "tabsim":
            return
        cases = [replay]
    else:
        cases = [dict(kind="tabsim", levels=[1, 2, 3, 4], times=[[1.0, 0.5, 0.8, 2.0]], delays=[0, 0, 0, 0, 0],
                      ops=[["start", 0], ["adv", 0.9], ["fetch"], ["adv", 5.0], ["fetch"]])]
        cases += [gen_tabsim_case(rng) for _ in range(ctx.n(150, 3000))]
    terms, meta = [], []
    for case in cases:
        obs = run_tabsim(case)
        dips = sum(1 for t in case["times"] for a, b in zip(t, t[1:]) if b <= a)
        ctx.count(("tabsim", case), nontrivial=bool(dips >= 1 and sum(len(b) for b, _ in obs["polls"]) >= 2))
        ctx.h("tabsim_time_dips", min(dips, 5))
        ctx.traces_validated += 1
        for tid, dl in obs["delivered"].items():
            want = case["levels"][:len(dl)]
            done = obs["final"].get(tid) == "Completed"
            if dl != want or (done and dl != case["levels"]):
                ctx.violation("property", "blackbox simulator: trial %d (time column %s) got the levels %s delivered, %s" % (
                    tid, case["times"][tid % len(case["times"])], dl,
                    "not a gap-free prefix in report order" if dl != want else "completed but not all of %s" % case["levels"]),
                    case=dict(case, first_bad=dict(trial=tid, delivered=dl)),
                    signature=dict(backend="_BlackboxSimulatorBackend", event="results_delivered_out_of_report_order" if dl != want else "completed_run_not_fully_delivered"))
                break
        terms.append("((%s, %s) : s_case)" % (
            lst(["\n    " + e for e in obs["evs"]]),
            lst(["(%s, %s)" % (lst(["(%s, %s)" % (natlit(i), zlit(v)) for i, v in b]),
                               lst(["(%s, %s)" % (natlit(i), ST[s]) for i, s in sts])) for b, sts in obs["polls"]])))
        meta.append(dict(case, impl_polls=obs["polls"]))
    if terms:
        for i in ctx.coq_bad_cases("tabsim", IMPORTS, PRELUDE, "chk_s", terms, shard=60):
            ctx.violation("correspondence", "model Fetch.v (Sim) differs from the real UserBlackboxBackend on a start/advance/poll sequence",
                          case=meta[i], failing_input=False, broken="correspondence chk_s (model/Fetch.v Sim: t_emit order / fetch_sim)")


def tabular_cases(ctx, replay):
    from syne_tune.backend.trial_status import Trial
    import datetime
    TableBlackbox, UserBlackboxBackend = tab_imports()

    rng = ctx.rng
    if replay is not None:
        if replay.get("kind") != "tabular":
            return
        cases = [replay]
    else:
        cases = []
        for _ in range(ctx.n(300, 3000)):
            n = rng.randint(1, 8)
            levels = sorted(rng.sample(range(1, 20), n))
            paused = rng.choice([None, None] + levels + [0, 25]) if rng.random() < 0.9 else None
            times, style = gen_times(rng, n)
            cases.append(dict(kind="tabular", levels=levels, paused=paused, ckpt=rng.random() < 0.7,
                              with_result=rng.random() < 0.9, times=times, style=style))
    terms, meta, fterms, fmeta = [], [], [], []
    for case in cases:
        levels = case["levels"]
        times = case.get("times") or [1.5 * (i + 1) for i in range(len(levels))]
        with quiet():
            be = UserBlackboxBackend(blackbox=TableBlackbox(levels, [times]), elapsed_time_attr="elapsed",
                                     support_checkpointing=case["ckpt"], seed=0)
            be._trial_dict[0] = Trial(trial_id=0, config={"x": 0}, creation_time=datetime.datetime(2020, 1, 1))
            be.trial_ids.append(0)
            paused = case["paused"]
            eff = None
            if paused is not None:
                # the public way the level gets known to the backend: pause_trial(result=...)
                with mock.patch.object(UserBlackboxBackend.__mro__[2], "_stop_or_pause_trial", lambda self, trial_id, status: None):
                    be.pause_trial(0, result={"epoch": paused} if case["with_result"] else None)
                eff = paused if case["with_result"] else None
            try:
                status, res = be._run_job_and_collect_results(0)
            except IndexError:
                # nothing left to run (paused at the last level): the code indexes results[0]; no scheduler
                # resumes such a trial; counted, compared as "no results"
                res = []
                ctx.h("tabular_empty_resume_indexerror", 1)
        impl = [(int(r["epoch"]), int(r["v"])) for r in res]
        allr = [(l, 100 + l) for l in levels]
        want = [r for r in allr if not (eff is not None and case["ckpt"]) or r[0] > eff]
        ctx.count(("tab", case), nontrivial=bool(eff is not None and case["ckpt"] and 0 < len(want) < len(allr)))
        ctx.h("tabular", "ckpt" if case["ckpt"] else "no_ckpt")
        ctx.h("tabular_time_column", case.get("style", "plain"))
        # the times handed to the simulator decide the order in which the results arrive: strictly increasing
        el = [float(r["elapsed"]) for r in res]
        from fractions import Fraction
        skip = eff is not None and case["ckpt"]
        off = Fraction(0)
        if skip and eff in levels:
            off = Fraction(times[levels.index(eff)])
        raw = [Fraction(t) - off for l, t in zip(levels, times) if not skip or l > eff]
        if res:
            fterms.append("((%s, %s) : fix_case)" % (lst([q(x) for x in raw]), lst([q(x) for x in el])))
            fmeta.append(dict(case, raw=[float(x) for x in raw], impl_elapsed=el))
        if any(b <= a for a, b in zip(el, el[1:])) or (el and el[0] <= 0):
            ctx.violation("property", "elapsed times %s handed to the simulator for the table column %s are not increasing: the results "
                          "of the job arrive out of order" % (el, times), case=case,
                          signature=dict(backend="_BlackboxSimulatorBackend._run_job_and_collect_results",
                                         event="elapsed_times_not_increasing"))
        if impl != want:
            ctx.violation("property", "resumed tabular job replays %s, expected the levels above the paused level %s: %s" % (impl, eff, want),
                          case=case, signature=dict(backend="_BlackboxSimulatorBackend._run_job_and_collect_results",
                                                    event="resume_does_not_continue_after_paused_level"))
        terms.append("((%s, %s, %s, %s) : tab_case)" % (blit(case["ckpt"]), "None" if eff is None else "(Some %s)" % zlit(eff),
                                           lst(["(%s, %s)" % (zlit(a), zlit(b)) for a, b in allr]),
                                           lst(["(%s, %s)" % (zlit(a), zlit(b)) for a, b in impl])))
        meta.append(dict(case, impl=impl))
    if terms:
        for i in ctx.coq_bad_cases("fix", IMPORTS, PRELUDE, "chk_fix", fterms, shard=300):
            ctx.violation("correspondence", "model mono_fix differs from the elapsed times the blackbox backend hands to the simulator",
                          case=fmeta[i], failing_input=False, broken="correspondence chk_fix (model/Fetch.v mono_fix)")
        for i in ctx.coq_bad_cases("tab", IMPORTS, PRELUDE, "chk_tab", terms, shard=300):
            ctx.violation("correspondence", "model tab_results differs from _run_job_and_collect_results", case=meta[i],
                          failing_input=False, broken="correspondence chk_tab (model/Fetch.v tab_results)")


# ----------------------------------------------------------------------------------------------
def load_corpus():
    """minimised failing cases (corpus/C02/*.json), run first"""
    import glob
    import json
    from common import VERIF
    return [json.load(open(f)) for f in sorted(glob.glob(os.path.join(VERIF, "corpus", "C02", "*.json")))]


def run(ctx, replay=None):
    ctx.rule = ("cases: (raw) random sequences of start/resume/pause/stop/fetch and worker events on the real TrialBackend "
                "(<= 3 trials x <= 6 reports per run, 0..3 new reports per poll, completion before/after the last result is "
                "seen, reports written in the decision window, unknown ids, invalid resumes); (tuner_generic / tuner_sim) "
                "whole runs of the real Tuner with a scripted scheduler over the scripted poll backend resp. the real "
                "SimulatorBackend with a scripted job runner (1..3 workers, 3..10 loop iterations, start_jobs_without_delay on/off, "
                "worker actions before a poll, between its status and text read, and between the poll and busy_trial_ids, "
                "non-report text in std.out also in front of a report on the same line, every "
                "CONTINUE/PAUSE/STOP/resume pattern drawn at random); (tabular) resumed jobs of UserBlackboxBackend. "
                "non-trivial = a raw sequence returning >= 2 results with a pause/stop/resume in it; a whole run with >= 3 "
                "delivered results, >= 1 STOP/PAUSE decision and (>= 1 resume or >= 1 result skipped in its batch); a tabular "
                "resume that drops some but not all levels; distinct by content hash")
    tmp = tempfile.mkdtemp(prefix="c02-")
    old = os.environ.get("SYNETUNE_FOLDER")
    os.environ["SYNETUNE_FOLDER"] = tmp
    try:
        GENERIC_KIND[0] = probe_generic_kind()
        ctx.notes.append("LocalBackend._resume_trial of the tree under test follows model kind %s (%s)" % (
            GENERIC_KIND[0], "patch F-C02-1 present: theorems about Generic apply" if GENERIC_KIND[0] == "Generic"
            else "code before patch F-C02-1: c02_nothing_after_decision_refuted_legacy applies, finding F-C02-1 expected"))
        ctx.h("generic_model_kind", GENERIC_KIND[0])
        if replay is None:
            for case in load_corpus():
                tuner_cases(ctx, case, sim=case["kind"] == "tuner_sim")
        raw_cases(ctx, replay)
        tuner_cases(ctx, replay, sim=False)
        tuner_cases(ctx, replay, sim=True)
        simscript_cases(ctx, replay, tmp)
        realproc_cases(ctx, replay, tmp)
        tabular_cases(ctx, replay)
        tabsim_cases(ctx, replay)
    finally:
        if old is None:
            os.environ.pop("SYNETUNE_FOLDER", None)
        else:
            os.environ["SYNETUNE_FOLDER"] = old
        shutil.rmtree(tmp, ignore_errors=True)
