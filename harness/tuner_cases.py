"""Shared by drivers/c01.py and drivers/c12.py: case generation for scripted whole runs of the real
Tuner, the Coq case term / checker prelude for model/Tuner.v, and the INDEPENDENT Python checkers
of C01 and C12 on the implementation trace (they know nothing about the model)."""
import copy
import json
import os
import random

import scripted
from common import VERIF

IMPORTS = "From Verif Require Import model.Base model.Tuner.\nOpen Scope Q_scope.\n"

PRELUDE = r"""
Definition run_case := (params * oracles * nat * list event * outcome * list (nat * status) * list status)%type.
Definition smap_eqb (a b : list (nat * status)) : bool :=
  list_eqb (fun x y => Nat.eqb (fst x) (fst y) && status_eqb (snd x) (snd y)) a b.
Definition chk_run (c : run_case) : bool :=
  let '(prm, o, fuel, itrace, iout, ismap, iw) := c in
  let '(st, out) := run prm o fuel in
  list_eqb event_eqb (rev (s_trace st)) itrace
  && list_eqb Z.eqb (outcome_code out) (outcome_code iout)
  && smap_eqb (s_smap st) ismap
  && list_eqb status_eqb (map (fun t => b_w (s_bt st t)) (seq 0 (s_ntrials st))) iw.
(* diagnostics: (first differing trace index, model event there, model outcome, model status map equal?, workers equal?) *)
Definition diag_run (c : run_case) :=
  let '(prm, o, fuel, itrace, iout, ismap, iw) := c in
  let '(st, out) := run prm o fuel in
  let mt := rev (s_trace st) in
  let d := first_diff mt itrace 0 in
  (d, match d with Some i => nth_error mt i | None => None end, out, smap_eqb (s_smap st) ismap,
   list_eqb status_eqb (map (fun t => b_w (s_bt st t)) (seq 0 (s_ntrials st))) iw).
"""


# ------------------------------------------------------------------------------------------
# generation
# ------------------------------------------------------------------------------------------
def gen_criterion(rng, rich):
    """StoppingCriterion fields; ``rich`` -> every field and combinations are exercised."""
    c = {}
    if not rich:
        if rng.random() < 0.3:
            c["max_num_trials_started"] = rng.randint(0, 12)
        return c
    if rng.random() < 0.15:
        # both metric thresholds at once, so that runs occur in which only one side is crossed
        c = dict(min_metric_value=rng.randint(1, 8) / 4.0, max_metric_value=rng.randint(32, 39) / 4.0)
        if rng.random() < 0.3:
            c[rng.choice(["max_num_trials_started", "max_num_trials_finished"])] = rng.randint(3, 12)
        return c
    fields = ["max_wallclock_time", "max_num_evaluations", "max_num_trials_started", "max_num_trials_completed",
              "max_num_trials_finished", "max_cost", "min_metric_value", "max_metric_value"]
    k = rng.choice([0, 1, 1, 1, 2, 2, 3, 8])
    for f in rng.sample(fields, min(k, len(fields))):
        if f == "max_wallclock_time":
            c[f] = rng.randint(0, 60) / 4.0
        elif f == "max_num_evaluations":
            c[f] = rng.randint(0, 40)
        elif f in ("max_num_trials_started", "max_num_trials_completed", "max_num_trials_finished"):
            c[f] = rng.randint(0, 10)
        elif f == "max_cost":
            c[f] = rng.randint(0, 80) / 4.0
        elif f == "min_metric_value":
            c[f] = rng.randint(-1, 6) / 4.0
        else:
            c[f] = rng.randint(34, 42) / 4.0
    return c


def gen_case(rng, rich_criterion=False, small=False):
    n_workers = rng.choice([1, 1, 2, 2, 3, 4, 5, 6]) if not small else rng.choice([1, 2])
    params = dict(n_workers=n_workers, wait=rng.random() < 0.4, max_failures=rng.choice([0, 1, 2, 3, 50, 50]),
                  criterion=gen_criterion(rng, rich_criterion))
    params["async"] = rng.random() < 0.75
    if rng.random() < 0.12:
        # start_jobs_without_delay=False (model run_b)
        params["sjwd"] = False
    style = rng.choice(["plain", "plain", "pausey", "stoppy", "faulty", "quiet", "exhaust", "chaos"])
    profile = dict(polls=rng.choice([6, 10, 16, 25, 40]) if not small else rng.randint(1, 4),
                   max_reports=rng.choice([1, 2, 3, 3]), ts_jitter=rng.choice([0, 3, 9]),
                   dt=rng.choice([0.0, 1.0, 1.0, 4.0]))
    if style == "pausey":
        profile.update(p_pause=0.3, p_resume=0.6, p_stop=0.05)
    elif style == "stoppy":
        profile.update(p_stop=0.35, p_pause=0.05)
    elif style == "faulty":
        profile.update(p_fail=0.2, p_stop_ext=0.1, p_stopping=0.08, p_pause=0.15, p_stop=0.15)
    elif style == "quiet":
        profile.update(p_pause=0.0, p_stop=0.0, p_fail=0.0, p_stop_ext=0.0, p_stopping=0.0, p_none=0.0, p_resume_bad=0.0)
    elif style == "exhaust":
        profile.update(p_none=0.25)
    elif style == "chaos":
        profile.update(p_fail=0.12, p_stop_ext=0.08, p_stopping=0.1, p_pause=0.25, p_stop=0.2, p_none=0.08,
                       p_resume=0.5, p_resume_bad=0.05, p_complete=0.2, p_first_report=0.5)
    if rich_criterion and rng.random() < 0.08:
        # the scheduler says "nothing to suggest" while long jobs are running; the criterion becomes true later
        style = "exhaust_then_criterion"
        profile.update(p_none=0.35, p_complete=0.01, p_fail=0.01, p_stop_ext=0.0, p_stopping=0.0, p_pause=0.0,
                       p_stop=0.0, polls=rng.choice([10, 16, 25]), max_reports=2)
        params["wait"] = False
        params["criterion"] = rng.choice([dict(max_num_evaluations=rng.randint(4, 14)), dict(max_cost=rng.randint(8, 30) / 4.0),
                                          dict(min_metric_value=rng.randint(1, 3) / 4.0), {}])
    if rich_criterion and rng.random() < 0.1:
        profile["p_ckpt_missing"] = rng.choice([0.05, 0.15])   # PBT-style clone whose source checkpoint does not exist
    if rich_criterion and rng.random() < 0.25:
        # names of columns TuningStatus uses in its rows, as a reported field and / or as a hyperparameter
        name = rng.choice(["status", "status", "trial_id", "iter", "worker-time", "worker-cost"])
        if rng.random() < 0.7:
            params["odd_field"] = name
        if rng.random() < 0.5 or "odd_field" not in params:
            params["odd_config"] = rng.choice(["status", "trial_id", "iter"])
    params["polls_budget"] = profile["polls"]
    nonfinite = rich_criterion and rng.random() < 0.14
    if rich_criterion or rng.random() < 0.2:
        params["num_type"] = rng.choice(scripted.NUM_TYPES[:3] if nonfinite else scripted.NUM_TYPES)
        if params["num_type"] in ("int", "np.int64"):
            profile["int_values"] = True
            for k in ("min_metric_value", "max_metric_value"):   # thresholds inside the integer range 0..10
                if k in params["criterion"]:
                    params["criterion"][k] = float(rng.randint(1, 3) if k.startswith("min") else rng.randint(7, 9))
            if "max_cost" in params["criterion"]:
                params["criterion"]["max_cost"] = float(rng.randint(0, 20))
    if nonfinite:
        # diverged evaluations: NaN / +-inf as metric values, half of the time NaN as the FIRST value of the run, with a
        # threshold on that metric that finite values reported later cross (metric grid 0..10, thresholds inside)
        profile.update(p_nonfinite=rng.choice([0.0, 0.1, 0.3]), first_nan=rng.random() < 0.6, p_first_report=1.0)
        f = rng.choice(["min_metric_value", "max_metric_value", "both"])
        crit = {k: v for k, v in params["criterion"].items() if k not in ("min_metric_value", "max_metric_value")}
        if rng.random() < 0.5:
            crit = {k: v for k, v in crit.items() if k in ("max_wallclock_time",)}
        if f in ("min_metric_value", "both"):
            crit["min_metric_value"] = rng.randint(2, 16) / 4.0
        if f in ("max_metric_value", "both"):
            crit["max_metric_value"] = rng.randint(24, 38) / 4.0
        params["criterion"] = crit
        style = "nonfinite_metrics"
    if rich_criterion:
        u = rng.random()
        if u < 0.04:      # zero budgets: the criterion holds before anything happened
            profile["polls"] = 0
            style = "zero_budget_extra"
        elif u < 0.08:
            params["criterion"] = dict(params["criterion"], max_wallclock_time=0.0)
            profile["clock_start"] = rng.choice([0.25, 1.0, 5.0])
            style = "zero_budget_wallclock"
        elif u < 0.16:
            params["rerun"] = True
    if rich_criterion and rng.random() < 0.06:
        # NO trial ever reports anything: every job fails or stops on its own before its first report (a job that
        # completes without a report makes the tuner raise, so none completes); the finished budget has to end the run
        # while overall_metric_statistics.count is still 0, max_failures is out of reach
        style = "silent_ends"
        profile.update(p_silent=1.0, p_first_report=0.0, p_complete=0.0, p_fail=rng.choice([0.3, 0.5]),
                       p_stop_ext=rng.choice([0.0, 0.3]), p_stopping=0.0, p_pause=0.0, p_stop=0.0, p_none=0.0,
                       p_resume_bad=0.0, polls=rng.choice([16, 25, 40]))
        profile.pop("p_nonfinite", None); profile.pop("first_nan", None); profile.pop("max_failed_total", None)
        params["polls_budget"] = profile["polls"]
        params["max_failures"] = 50
        params["wait"] = rng.random() < 0.3
        params.pop("rerun", None)
        crit = dict(max_num_trials_finished=rng.randint(0, 4))
        if rng.random() < 0.5:   # further fields that cannot hold without a report / within the run
            crit.update(rng.choice([dict(max_num_trials_completed=rng.randint(0, 3)), dict(max_cost=rng.randint(0, 8) / 4.0),
                                    dict(max_num_evaluations=rng.randint(0, 5)), dict(min_metric_value=1.0),
                                    dict(max_num_trials_started=rng.randint(20, 40))]))
        params["criterion"] = crit
    if params["criterion"].get("max_wallclock_time") is not None and rng.random() < 0.6:
        # delay (fake clock) between constructing the Tuner and calling run(); the budget is for run()
        params["construct_gap"] = rng.choice([0.25, 1.0, 7.5, 100.0])
    return dict(params=params, profile=profile, style=style, seed=rng.getrandbits(48))


def run_case(case):
    """case: dict(params, profile, seed) -> generated; or dict(params, record) -> replayed script."""
    if case.get("record") is not None:
        script = scripted.Script.from_record(case["record"])
    else:
        script = scripted.Script(random.Random(case["seed"]), case["profile"])
    out = scripted.run_tuner(case["params"], script)
    out["record"] = script.record()
    return out


def replayable(case, out):
    """Self-contained replay form of a case (explicit oracle lists instead of the generator seed)."""
    return dict(params=copy.deepcopy(case["params"]), record=out["record"], style=case.get("style", "replay"))


def coq_case(case, out):
    T = scripted.coq_terms()
    return "((%s,\n  %s,\n  %s, %s,\n  %s, %s, %s) : run_case)" % (
        T["params"](case["params"]), T["oracles"](out["record"]), "%d%%nat" % (out["iterations"] + 2),
        T["trace"](out["trace"]), T["outcome"](out["outcome"]), T["smap"](out["smap"]), T["statuses"](out["workers"]))


# ------------------------------------------------------------------------------------------
# independent checker: C01
# ------------------------------------------------------------------------------------------
def check_c01(params, out):
    """Returns a list of (what, signature). Works on the implementation trace only."""
    bad = []
    tr = out["trace"]
    n = params["n_workers"]
    # ---- pause_trial reaches the backend-specific _pause_trial whatever status the trial is recorded with -----------
    for call, t, status in out.get("status_after") or []:
        if status == ("Paused" if call == "pause_trial" else "Stopped"):
            continue
        bad.append(("after %s(%d) returned the worker of the trial shows status %s: the backend-specific _%s was not "
                    "called (the worker-side run is not paused, results it queued are not discarded)" % (call, t, status, call),
                    dict(check="lifecycle", event="status_after_" + call, backend="scripted", status=status)))
        break
    # ---- budget ---------------------------------------------------------------------------
    fetch_orders = [ev[1] for ev in tr if ev[0] == "b_fetch"]
    fi = 0
    for occ, call in out["occupancy"]:
        limit = n - 1 if call in ("b_start", "b_resume") else n
        if len(occ) > limit:
            bad.append(("%d trials occupy workers at %s with n_workers=%d" % (len(occ), call, n),
                        dict(check="budget", call=call)))
            break
        if call == "b_fetch":
            order = fetch_orders[fi]
            fi += 1
            if len(order) > n or len(set(order)) != len(order):
                bad.append(("tuner polls %d running trials with n_workers=%d" % (len(order), n), dict(check="budget", call="poll")))
                break
            if not set(occ) <= set(order):
                bad.append(("trials %s occupy a worker but the tuner does not list them as running (%s)" % (
                    sorted(set(occ) - set(order)), order), dict(check="budget", call="occupying_not_running")))
                break
    # ---- ids ------------------------------------------------------------------------------
    started = 0
    for ev in tr:
        if ev[0] == "s_suggest" and ev[1] != started:
            bad.append(("suggest called with trial_id=%d after %d starts" % (ev[1], started), dict(check="ids", call="suggest")))
            break
        if ev[0] == "b_start":
            if ev[1] != started:
                bad.append(("start number %d got trial id %d" % (started, ev[1]), dict(check="ids", call="start")))
                break
            started += 1
    # ---- life cycle + scheduler notifications, per trial -----------------------------------------
    # phases: N(ot started) A(dd pending) R(unning/reporting) S1 (STOP decided) S2 (backend stopped)
    #         P1 (PAUSE decided) P2 (backend paused) Z (paused) E (ended)
    phase = {}
    last_status = {}   # status shown for the trial by the last poll
    for i, ev in enumerate(tr):
        k = ev[0]
        if k == "cb_fetch":
            for t, s in ev[1]:
                last_status[t] = s
            continue
        if k not in ("b_start", "s_add", "s_result", "b_stop", "b_pause", "s_remove", "s_complete", "s_error", "b_resume"):
            continue
        if k == "b_stop" and any(e[0] == "b_stop_all" for e in tr[:i]):
            t = ev[1]
            if phase.get(t) not in ("R",):   # stop_all stops what is still in progress
                bad.append(("stop_all stops trial %d which is in phase %s" % (t, phase.get(t)), dict(check="lifecycle", event="stop_all")))
            phase[t] = "E"
            continue
        t = ev[1]
        p = phase.get(t, "N")
        nxt = None
        if k == "b_start":
            nxt = "A" if p == "N" else None
        elif k == "s_add":
            nxt = "R" if (p == "A" and i > 0 and tr[i - 1][0] == "b_start" and tr[i - 1][1] == t) else None
        elif k == "s_result":
            nxt = {"CONTINUE": "R", "STOP": "S1", "PAUSE": "P1"}.get(ev[3], "R") if p == "R" else None
        elif k == "b_stop":
            nxt = "S2" if p == "S1" else None
        elif k == "b_pause":
            nxt = "P2" if p == "P1" else None
        elif k == "s_remove":
            nxt = "E" if p in ("S1", "S2") else "Z" if p == "P2" else None
        elif k in ("s_complete", "s_error"):
            nxt = "E" if p == "R" else None
        elif k == "b_resume":
            nxt = "R" if p == "Z" else None
        if nxt is None:
            sig = dict(check="lifecycle", event=k, phase=p)
            if k == "s_error" and p in ("E", "Z") and last_status.get(t) == "Failed":
                # on_trial_remove (after the scheduler's own STOP/PAUSE) AND on_trial_error for the same run
                sig = dict(check="callbacks", event="on_trial_error_after_on_trial_remove", visible_status="Failed")
            bad.append(("trial %d: %s in phase %s (event %d of the trace)" % (t, k, p, i), sig))
            break
        phase[t] = nxt
    # ---- delivered results reach the scheduler exactly once, in order ----------------------------
    i = 0
    while i < len(tr):
        if tr[i][0] == "cb_fetch":
            fetched = [tuple(x) for x in tr[i][2]]
            j = i + 1
            told, decided = [], {}
            while j < len(tr) and tr[j][0] not in ("cb_fetch", "cb_loop_end", "cb_tuning_end"):
                if tr[j][0] == "s_result":
                    told.append((tr[j][1], tr[j][2]))
                    if tr[j][3] in ("STOP", "PAUSE"):
                        decided[tr[j][1]] = len(told)
                j += 1
            expect, gone = [], set()
            for (t, idx) in fetched:
                if t in gone:
                    continue
                expect.append((t, idx))
                if t in decided and len(expect) == decided[t]:
                    gone.add(t)
            cut_by_exception = (out["outcome"][0] == "exception" and told == expect[:len(told)]
                                and not any(e[0] == "cb_fetch" for e in tr[j:]))
            if told != expect and not cut_by_exception:
                bad.append(("poll returned results %s but the scheduler was told %s" % (fetched, told),
                            dict(check="callbacks", event="results_not_delivered_once_in_order")))
                break
            i = j
        else:
            i += 1
    return bad


# ------------------------------------------------------------------------------------------
# independent checker: C12
# ------------------------------------------------------------------------------------------
def check_c12(params, out):
    bad = []
    tr = out["trace"]
    n = params["n_workers"]
    crit = params.get("criterion") or {}
    # ---- nothing is started once the stop condition holds at an iteration end -----------------
    held = False
    for i, ev in enumerate(tr):
        k = ev[0]
        if k == "stop_cond":
            held = bool(ev[2])
        elif held and k in ("s_suggest", "b_start", "b_resume"):
            bad.append(("%s after the stop condition held at the end of an iteration" % k,
                        dict(check="exit", event=k, wait=params["wait"])))
            break
        elif held and not params["wait"] and k == "cb_loop_start":
            bad.append(("loop body entered after the stop condition held (wait_trial_completion_when_stopping=False)",
                        dict(check="exit", event="loop_body")))
            break
    # ---- a criterion that holds from the very start: nothing may be started at all ---------------------------------
    rec = out.get("record") or {}
    ext, clk = rec.get("ext") or [], rec.get("clk") or []
    wc = crit.get("max_wallclock_time")
    always = (ext and all(ext)) or (wc is not None and clk and min(clk) > wc)
    if always and out["outcome"][0] != "aborted":
        first = next((ev[0] for ev in tr if ev[0] in ("s_suggest", "b_start", "b_resume", "cb_loop_start")), None)
        if first is not None:
            bad.append(("the stop criterion holds at every moment of this run (%s) but the loop was entered (%s)" % (
                "extra user criterion always True" if (ext and all(ext)) else "max_wallclock_time=%s, clock >= %s" % (wc, min(clk)), first),
                dict(check="exit", event="criterion_held_from_the_start", first=first)))
    # ---- run() called again on the finished tuner: the criterion still holds, so nothing happens --------------------
    if out.get("second_outcome") is not None and out["outcome"] == ["normal"]:
        last = [ev for ev in tr if ev[0] == "stop_cond"]
        st2 = out.get("second_trace") or []
        # "the condition holds when the first run has ended": the last evaluation held AND nothing happened after it
        # (with wait_trial_completion_when_stopping the loop goes through further iterations after the last evaluation
        # that held and leaves by 'break' without another evaluation; a PAUSE decision in such an iteration takes a trial
        # out of num_trials_finished again, so a count criterion that held may not hold any more - the non-monotone
        # reading of c12_no_start_after_first_hold_refuted). Otherwise: a count / cost field of the criterion holds on the
        # counters of the tuner AFTER the first run (independent re-evaluation, expected_criterion).
        i_last = max((i for i, ev in enumerate(tr) if ev[0] == "stop_cond"), default=-1)
        quiet_after = not any(ev[0] == "cb_loop_start" for ev in tr[i_last + 1:])
        cnt = out.get("counters") or {}
        count_crit = {k: v for k, v in crit.items() if k in ("max_num_evaluations", "max_num_trials_started",
                                                            "max_num_trials_completed", "max_num_trials_finished", "max_cost")}
        holds_on_end_state = bool(cnt) and any(v is True for v in expected_criterion(count_crit, cnt).values())
        held_at_end = bool(last and last[-1][2]) and (quiet_after or holds_on_end_state)
        if held_at_end and any(ev[0] in ("s_suggest", "b_start", "b_resume", "cb_loop_start") for ev in st2):
            bad.append(("run() called again on the finished Tuner (stop condition held when the first run ended) enters the loop "
                        "again: %s" % ([ev[0] for ev in st2][:8],), dict(check="exit", event="second_run_enters_loop")))
    # ---- the user's criterion / the failure limit re-evaluated at the end of EVERY iteration (whether or not the tuner
    # looks at it there): once it holds, the loop ends (wait=False) / nothing is started any more (wait=True) -----------
    ends = [i for i, ev in enumerate(tr) if ev[0] == "cb_loop_end"]
    crit_nw = {k: v for k, v in crit.items() if k != "max_wallclock_time"}   # the clock is only read by the criterion
    for k, (pos, obs) in enumerate(zip(ends, out.get("loop_obs") or [])):
        o = dict(obs, wallclock=0.0, evaluations=0, cost=0.0, min_metrics={}, max_metrics={})
        must = [f for f, v in expected_criterion(crit_nw, o).items() if v is True]
        if obs.get("extra"):
            must.append("extra_user_criterion")
        if obs["failed"] > params["max_failures"]:
            must.append("max_failures")
        if not must:
            continue
        later = tr[pos + 1:]
        if params["wait"]:
            # the condition may stop holding again (e.g. a Stopping trial going back to InProgress): judge the next
            # iteration only, i.e. up to the next evaluation point
            nxt = next((i for i, ev in enumerate(later) if ev[0] == "cb_loop_end"), len(later))
            went_on = any(ev[0] in ("s_suggest", "b_start", "b_resume") for ev in later[:nxt])
        else:
            went_on = any(ev[0] == "cb_loop_start" for ev in later)
        if went_on:
            bad.append(("at the end of iteration %d the stop condition holds (%s; %s) but the run went on for %d more "
                        "iterations (suggest had returned None before: %s)" % (
                            k, must[0], {a: obs[a] for a in ("started", "completed", "finished", "failed", "truth", "extra")},
                            sum(1 for ev in later if ev[0] == "cb_loop_start"),
                            any(ev[0] == "s_suggest" and ev[2] is None for ev in tr[:pos])),
                        dict(check="exit", event="stop_condition_holds_but_loop_goes_on", field=must[0])))
        break
    # ---- the StoppingCriterion itself, re-evaluated from its documentation ---------------------------
    bad.extend(check_stopping_criterion(params, out))
    # ---- a fault inside start_trial (checkpoint to clone from is missing): the original exception escapes -------
    starts = sum(1 for ev in tr if ev[0] == "b_start")
    sug = [ev for ev in tr if ev[0] == "s_suggest"]
    if sug and sug[-1][2] is not None and sug[-1][2][0] == "start" and sug[-1][2][2] is not None \
            and sug[-1][2][2] >= starts and sug[-1][1] == starts:
        if out["outcome"][0] not in ("ckpt_missing", "failure_limit"):
            bad.append(("copy_checkpoint raised inside start_trial (no checkpoint of trial %s) but run() ended with %s" % (
                sug[-1][2][2], out["outcome"][:3]), dict(check="finally", event="original_exception_masked", outcome=out["outcome"][0])))
    # ---- finally block ----------------------------------------------------------------------
    if out["outcome"][0] != "aborted":
        if sum(1 for ev in tr if ev[0] == "cb_tuning_end") != 1 or sum(1 for ev in tr if ev[0] == "b_stop_all") != 1:
            bad.append(("on_tuning_end / stop_all did not run exactly once", dict(check="finally", event="tuning_end")))
        running = [t for t, s in enumerate(out["workers"]) if s == "InProgress"]
        if running:
            bad.append(("trials %s still InProgress in the backend after run() returned (%s)" % (running, out["outcome"]),
                        dict(check="finally", event="left_running")))
        if tr and tr[-1][0] not in ("b_stop", "b_stop_all"):
            bad.append(("events after stop_all: %s" % (tr[-1],), dict(check="finally", event="after_stop_all")))
    # ---- counters -------------------------------------------------------------------------------
    smap = out["smap"]
    c = out["counters"]
    cnt = lambda names: sum(1 for _, s in smap if s in names)
    want = dict(started=len(smap), completed=cnt(("Completed",)), failed=cnt(("Failed",)),
                finished=cnt(("Completed", "Stopped", "Stopping", "Failed")), running=cnt(("InProgress",)))
    for k, v in want.items():
        if c[k] != v:
            bad.append(("counter %s = %d but the status map has %d" % (k, c[k], v), dict(check="counters", counter=k)))
    n_started = sum(1 for ev in tr if ev[0] == "b_start")
    if c["started"] != n_started or [t for t, _ in smap] != list(range(n_started)):
        bad.append(("num_trials_started = %d, start_trial calls = %d, map keys %s" % (c["started"], n_started, [t for t, _ in smap]),
                    dict(check="counters", counter="started_vs_calls")))
    if c["running"] != 0:
        bad.append(("num_trials_running = %d after run() returned" % c["running"], dict(check="counters", counter="running")))
    # ---- overshoot of trial-count budgets (counts at loop exit = before the finally block) -----------
    at_exit = out.get("at_exit")
    if at_exit is not None:
        for field, key in (("max_num_trials_started", "started"), ("max_num_trials_completed", "completed"),
                           ("max_num_trials_finished", "finished")):
            b = crit.get(field)
            if key != "started" and params["wait"]:
                continue  # running trials are meant to finish after the criterion holds: no n_workers bound claimed
            if b is not None and at_exit[key] > max(b, 0) + n:
                bad.append(("%s=%d but %d trials %s at loop exit with n_workers=%d" % (field, b, at_exit[key], key, n),
                            dict(check="overshoot", field=field)))
    # ---- failures: harness-side ground truth (the scripted world knows which jobs ended Failed while a poll of
    # the loop was looking) against TuningStatus.num_trials_failed and the max_failures rule --------------------------
    if out.get("failed_in_poll") is not None and out["outcome"][0] != "aborted":
        poll_pos = [i for i, ev in enumerate(tr) if ev[0] == "b_fetch"]
        truth = {}
        # an exception raised INSIDE the last poll (no event of the scheduling phase follows it) ends the loop before
        # the statuses of that poll are recorded
        after_last = tr[poll_pos[-1]:] if poll_pos else []
        poll_finished = any(ev[0] in ("s_suggest", "cb_sleep", "cb_loop_end", "b_busy") for ev in after_last)
        by_exception = out["outcome"][0] not in ("normal", "failure_limit") or out.get("replaced_exception")
        aborted_poll = len(poll_pos) if (by_exception and not poll_finished) else None
        for t, k in out["failed_in_poll"]:
            if k == aborted_poll or k > len(poll_pos):
                continue  # an exception ended the loop inside that poll, before the status was recorded / no such poll
            truth[t] = poll_pos[k - 1] if 0 < k <= len(poll_pos) else 0
        # a trial that is resumed afterwards is in progress again (only possible after the scheduler's own PAUSE)
        still_failed = sorted(t for t, pos in truth.items()
                              if not any(ev[0] == "b_resume" and ev[1] == t for ev in tr[pos:]))
        if c["failed"] != len(still_failed):
            bad.append(("jobs of trials %s ended Failed under the eyes of the tuning loop (and were not resumed) but "
                        "num_trials_failed = %d; status map %s" % (still_failed, c["failed"], smap),
                        dict(check="failure_count", failed_jobs=min(len(still_failed), 3), counted=min(c["failed"], 3))))
        elif len(still_failed) > params["max_failures"] and (out["outcome"][0] != "failure_limit" or out["outcome"][1] not in truth):
            bad.append(("%d failed jobs > max_failures=%d but run() ended with %s" % (len(still_failed), params["max_failures"], out["outcome"]),
                        dict(check="failure_limit", outcome=out["outcome"][0], truth="scripted_jobs")))
    # ---- failure limit -------------------------------------------------------------------------------
    if c["failed"] > params["max_failures"]:
        o = out["outcome"]
        errs = {ev[1] for ev in tr if ev[0] == "s_error"} | {t for ev in tr if ev[0] == "cb_fetch" for t, s in ev[1] if s == "Failed"}
        if o[0] != "failure_limit" or o[1] not in errs:
            bad.append(("num_trials_failed=%d > max_failures=%d but run() ended with %s" % (c["failed"], params["max_failures"], o),
                        dict(check="failure_limit", outcome=o[0])))
    elif out["outcome"][0] == "failure_limit":
        bad.append(("run() raised the failure-limit error with %d <= %d failures" % (c["failed"], params["max_failures"]),
                    dict(check="failure_limit", outcome="spurious")))
    # ---- exhausted search space ---------------------------------------------------------------------
    none_at = [i for i, ev in enumerate(tr) if ev[0] == "s_suggest" and ev[2] is None]
    if none_at and any(ev[0] == "s_suggest" for ev in tr[none_at[0] + 1:]):
        bad.append(("suggest called again after it returned None", dict(check="exhausted", event="suggest_after_none")))
    return bad


def expected_criterion(crit, obs):
    """Independent reading of the StoppingCriterion docstring (stopping_criterion.py): 'the combined criterion is
    true whenever one of the atomic criteria is true'; max_num_* : 'more than this number ...'; max_cost : 'total
    cost ... larger than this value'; min_metric_value / max_metric_value : 'an evaluation reports a metric value
    below / above a threshold' (per metric). max_wallclock_time : 'once this wallclock time is reached' - equality
    is left undecided (returns None for that field). Returns {field: True|False|None} for the fields that are set."""
    res = {}
    if obs.get("truth") is not None:
        # statistics of the delivered results computed by the harness itself (scripted.ScriptedBackend.truth), not the
        # ones TuningStatus keeps
        tr = obs["truth"]
        obs = dict(obs, evaluations=tr["evaluations"], cost=tr["cost"], wallclock=tr.get("wallclock", obs["wallclock"]),
                   min_metrics={} if tr["min_m"] is None else {"m": tr["min_m"]},
                   max_metrics={} if tr["max_m"] is None else {"m": tr["max_m"]})
    for field, key in (("max_num_evaluations", "evaluations"), ("max_num_trials_started", "started"),
                       ("max_num_trials_completed", "completed"), ("max_num_trials_finished", "finished"),
                       ("max_cost", "cost")):
        if crit.get(field) is not None:
            res[field] = obs[key] > crit[field]
    if crit.get("max_wallclock_time") is not None:
        w, b = obs["wallclock"], crit["max_wallclock_time"]
        res["max_wallclock_time"] = None if w == b else w > b
    if crit.get("min_metric_value") is not None:
        res["min_metric_value"] = "m" in obs["min_metrics"] and obs["min_metrics"]["m"] < crit["min_metric_value"]
    if crit.get("max_metric_value") is not None:
        res["max_metric_value"] = "m" in obs["max_metrics"] and obs["max_metrics"]["m"] > crit["max_metric_value"]
    return res


def check_stopping_criterion(params, out):
    """Compares what the real StoppingCriterion answered at every evaluation with the documented meaning of its
    fields applied to the recorded TuningStatus observables."""
    crit = params.get("criterion") or {}
    obs_list = out.get("criterion_obs") or []
    for i, obs in enumerate(obs_list):
        tw = (obs.get("truth") or {}).get("wallclock")
        if crit.get("max_wallclock_time") is not None and tw is not None and abs(obs["wallclock"] - tw) > 1e-9:
            return [("evaluation %d: TuningStatus.wallclock_time is %s but %s (fake clock) have passed since run() was entered; "
                     "the Tuner was constructed %s before run(); max_wallclock_time=%s is a budget for the time spent in run()"
                     % (i, obs["wallclock"], tw, params.get("construct_gap", 0.0), crit["max_wallclock_time"]),
                     dict(check="stopping_criterion", field="max_wallclock_time",
                          event="wallclock_not_measured_from_start_of_run"))]
        exp = expected_criterion(crit, obs)
        must = [f for f, v in exp.items() if v is True]
        undecided = [f for f, v in exp.items() if v is None]
        shown = {k: obs[k] for k in ("wallclock", "started", "completed", "finished")}
        shown.update(obs.get("truth") or dict(evaluations=obs["evaluations"], cost=obs["cost"],
                                               min_m=obs["min_metrics"].get("m"), max_m=obs["max_metrics"].get("m")))
        went_on = "the run went on" if i + 1 < len(obs_list) else "the run ended"
        if must and not obs["criterion"]:
            return [("evaluation %d: %s holds (%s; criterion %s) but the real StoppingCriterion returned False, %s" % (
                i, must[0], shown, crit, went_on),
                     dict(check="stopping_criterion", field=must[0], value_type=params.get("num_type", "float")))]
        if obs["criterion"] and not must and not undecided:
            return [("evaluation %d: no field of the criterion %s holds (%s) but the real StoppingCriterion returned True, %s" % (
                i, crit, shown, went_on),
                     dict(check="stopping_criterion", field="none"))]
    return []


def check_discipline(out, scheduler=None):
    """The resume discipline of proofs/TunerComposeProofs.v ([Dok]) re-implemented on the implementation trace:
    the scheduler may suggest 'resume t' only while ITS answer to the last delivered result of t was PAUSE and it has
    not asked to resume t since (never for a trial it answered STOP for, was told completed / failed, or does not
    know). This is the hypothesis under which c01_resume_discipline excludes the backend's resume assertion."""
    view = {}
    for i, ev in enumerate(out["trace"]):
        k = ev[0]
        if k == "s_add":
            view[ev[1]] = "running"
        elif k == "s_result":
            view[ev[1]] = {"PAUSE": "paused", "STOP": "stopped"}.get(ev[3], "running")
        elif k in ("s_complete", "s_error"):
            view[ev[1]] = "ended"
        elif k == "s_suggest" and ev[2] is not None and ev[2][0] == "resume":
            t = ev[2][1]
            v = view.get(t, "unknown")
            if v != "paused":
                return [("the scheduler suggests to resume trial %s, which in its own view is '%s' (event %d of the trace); "
                         "run() ended with %s" % (t, v, i, out["outcome"][:2]),
                         dict(check="resume_discipline", view=v, scheduler=scheduler))]
            view[t] = "running"
    return []


DISC_IMPORTS = ("From Verif Require Import model.Base model.Tuner proofs.TunerProofs proofs.TunerComposeProofs.\n"
                "Open Scope Q_scope.\n")
DISC_PRELUDE = "Definition chk_disc (tr : list event) : bool := dok_b (rev tr).\n"


def coq_discipline(ctx, tag, traces):
    """Evaluates the verified boolean checker dok_b on implementation traces; returns indices where it is false."""
    T = scripted.coq_terms()
    terms = ["(%s : list event)" % T["trace"](tr) for tr in traces]
    if not terms:
        return []
    return _with_case_dir_retry(lambda: ctx.coq_bad_cases(tag, DISC_IMPORTS, DISC_PRELUDE, "chk_disc", terms, shard=15))


def histograms(ctx, case, out):
    p = case["params"]
    ctx.h("n_workers", p["n_workers"])
    ctx.h("style", case.get("style", "replay"))
    ctx.h("flags", "async=%s,wait=%s" % (p["async"], p["wait"]) + ("" if p.get("sjwd", True) else ",start_jobs_without_delay=False"))
    ctx.h("outcome", out["outcome"][0])
    ctx.h("polls", min(out["iterations"] // 5 * 5, 60))
    ctx.h("criterion_fields", ",".join(sorted(k.replace("max_", "").replace("num_", "") for k in (p.get("criterion") or {}))) or "-")
    for obs in (out.get("criterion_obs") or [])[-1:]:
        fired = [f for f, v in expected_criterion(p.get("criterion") or {}, obs).items() if v]
        ctx.h("criterion_fired_at_end", ",".join(sorted(fired)) if fired else ("extra" if obs["extra"] else "-"))
    kinds = {}
    for ev in out["trace"]:
        k = ev[0]
        if k == "s_result":
            k = "decision_" + ev[3]
        elif k == "s_suggest":
            k = "suggest_" + ("none" if ev[2] is None else ev[2][0] + ("_ckpt" if ev[2][0] == "start" and ev[2][2] is not None else ""))
        elif k == "cb_fetch":
            for _, s in ev[1]:
                kinds["visible_" + s] = kinds.get("visible_" + s, 0) + 1
            continue
        elif not (k.startswith("s_") or k.startswith("b_")):
            continue
        kinds[k] = kinds.get(k, 0) + 1
    for k, v in kinds.items():
        ctx.h("events", k, v)


def nontrivial(out):
    ks = {ev[0] for ev in out["trace"]}
    decs = {ev[3] for ev in out["trace"] if ev[0] == "s_result"}
    return ("b_start" in ks and ("s_complete" in ks or "s_error" in ks) and
            (("PAUSE" in decs) or ("STOP" in decs)) and out["iterations"] >= 3)


# ------------------------------------------------------------------------------------------
# driver (a): scripted whole runs compared with the model
# ------------------------------------------------------------------------------------------
def corpus_cases(prop):
    d = os.path.join(VERIF, "corpus", prop)
    res = []
    if os.path.isdir(d):
        for f in sorted(os.listdir(d)):
            if f.endswith(".json"):
                res.append(json.load(open(os.path.join(d, f)))["case"])
    return res


def _with_case_dir_retry(f, attempts=3):
    """common.py evaluates cases in a per-process scratch directory under build/cases; when several checks run
    at the same time another process' clean-up can remove it under our feet: re-create it and try again."""
    import common
    for k in range(attempts):
        try:
            return f()
        except FileNotFoundError:
            if k == attempts - 1:
                raise
            common._CASE_DIR = None


def scripted_runs(ctx, cases, checker, prop_name, shard=20):
    """Runs every case on the implementation, applies the independent checker, then the Coq comparison."""
    terms, meta = [], []
    for case in cases:
        out = run_case(case)
        if out["aborted"]:
            ctx.h("outcome", "aborted")
            ctx.notes.append("a generated run exceeded the hard iteration limit and was dropped")
            continue
        rep = replayable(case, out)
        histograms(ctx, case, out)
        ctx.count(rep, nontrivial=nontrivial(out))
        ctx.traces_validated += 1
        if len(ctx.samples) < 2 and 20 < len(out["trace"]) < 80:
            ctx.sample(dict(params=case["params"], style=case.get("style"), trace_head=out["trace"][:25],
                            outcome=out["outcome"], status_map=out["smap"]))
        # start_jobs_without_delay=False is outside the properties' quantifier, but since /repo 1516ffc (F-C02-2) the
        # same properties hold there, so the independent checkers judge those runs as well
        for what, sig in checker(case["params"], out):
            if not case["params"].get("sjwd", True):
                sig = dict(sig, start_jobs_without_delay=False)
            ctx.violation("property", what, case=rep, signature=sig)
        if not case["params"].get("sjwd", True):
            polled = {t for ev in out["trace"] if ev[0] == "b_fetch" for t in ev[1]}
            started = [i for i, ev in enumerate(out["trace"]) if ev[0] == "b_start"]
            later_poll = lambda i: any(ev[0] == "b_fetch" for ev in out["trace"][i:])
            lost = [out["trace"][i][1] for i in started if out["trace"][i][1] not in polled and later_poll(i)]
            ctx.h("sjwd_false", "started_trial_never_polled" if lost else "no_lost_trial")
            if lost:
                ctx.violation("property", "start_jobs_without_delay=False: trials %s were started but no later poll lists them" % lost,
                              case=rep, signature=dict(check="sjwd_false", event="started_trial_never_polled"))
        if out["outcome"][0] == "exception":
            ctx.h("outside_model", out["outcome"][0])   # an exception model/Tuner.v has no counterpart for
            continue
        if any(v != v or v in (float("inf"), float("-inf"))
               for look in out["record"].get("world", []) for r in look[0] for v in r):
            # the model's metric values are rationals: runs with NaN / +-inf reports are judged by the independent
            # checkers only (check_stopping_criterion on the harness's own statistics)
            ctx.h("outside_model", "nonfinite_metric")
            continue
        if out.get("copy_fault") is not None:
            # a start that failed half-way (copy_checkpoint raised inside start_trial) IS part of model/Tuner.v:
            # schedule_k / ckpt_missing / ECkptMissing; the run is compared event for event like every other
            ctx.h("failed_start_compared_with_model", out["outcome"][0])
        terms.append(coq_case(case, out))
        meta.append((rep, out))
    if terms:
        bad = _with_case_dir_retry(lambda: ctx.coq_bad_cases("run", IMPORTS, PRELUDE, "chk_run", terms, shard=shard))
        if bad:
            diag = _with_case_dir_retry(
                lambda: ctx.coq_eval("diag", IMPORTS, PRELUDE, ["diag_run %s" % terms[i] for i in bad[:3]]))
        for n, i in enumerate(bad):
            rep, out = meta[i]
            d = diag[n] if n < 3 else ""
            ctx.violation("correspondence",
                          "model/Tuner.v run differs from the real Tuner.run() on a scripted run; "
                          "(first differing event index, model event, model outcome, status map equal, workers equal) = %s; "
                          "implementation outcome %s" % (d, out["outcome"]),
                          case=rep, failing_input=False, broken="correspondence chk_run (model/Tuner.v run) for " + prop_name)


