(* C11 — Seeded runs are reproducible.

   2-safety property: outputs depend on (arguments, random_seed, events) only.  The facts [edges], [effs],
   [roots_<cfg>], [off_<cfg>] are GENERATED from the current source of the repository on every run
   (harness/translate_effects.py -> gen/EffFacts.v); every theorem below is a kernel-checked statement about
   those generated lists (finite domain; the bound is the generated lists themselves) closed by the generic
   lemma [check_sound] (proofs/EffGraphProofs.v) and [vm_compute].

   Reading of [NoReachableEffect edges effs off roots forb allow]:
     for every effect site (f, e, lits, name) of the source whose function node f is [Reach]-able from the
     configuration's entry points [roots] in the over-approximate call graph [edges] (guard literals in [off]
     are false under what the property fixes: random_seed given, the searcher name, a TimeKeeper passed), whose
     own guards are live, and whose effect kind e is forbidden by [forb]: (name, e) is in [allow].
   The allow-lists are part of the statements; every entry is justified in a comment.  A site is named by the
   qualified name of its function followed by "/n", n = number of sites of that effect kind in the function
   (an additional site in an allow-listed function is therefore NOT covered by the old entry).

   Configurations (entry points = every method of the class and of its base classes, plus the classes of
   syne_tune.config_space / backend.trial_status, plus import-time code of every module of the closure):
     fifo_random, fifo_grid, fifo_rea (RegularizedEvolution passed as object), fifo_bayesopt,
     hyperband_{random,bayesopt,hypertune,dyhpo} (all scheduler types: the rung-system table is one node),
     synchb_{random,bayesopt}, dehb, pbt, msr (MedianStoppingRule around FIFOScheduler),
     sim_experiment (Tuner + SimulatorBackend/UserBlackboxBackend + BlackboxTabular, backend seed given). *)
From Coq Require Import List PArith String.
From Verif Require Import model.EffGraph proofs.EffGraphProofs gen.EffFacts.
Import ListNotations.
Open Scope string_scope.

Ltac by_check := apply check_sound; vm_compute; reflexivity.

(* ---- generic part (proved once) ------------------------------------------------------------------------- *)
(* [reach_b] (fuelled fixpoint iteration, fuel = 1 + number of edges) decides the inductive [Reach],
   for EVERY graph, guard set and root list (the fuel always suffices: each round that changes the set
   takes at least one edge out of the set of edges whose target is still missing). *)
Theorem c11_reach_b_sound_complete :
  forall g off roots b, reach_b g off roots b = true <-> Reach g off roots b.
Proof. exact reach_b_iff. Qed.
Print Assumptions c11_reach_b_sound_complete.

Theorem c11_reach_b_sound :
  forall g off roots b, reach_b g off roots b = true -> Reach g off roots b.
Proof. exact reach_b_sound. Qed.
Print Assumptions c11_reach_b_sound.

Theorem c11_check_decides :
  forall g effs off roots forb allow,
    check_b g effs off roots forb allow = true -> NoReachableEffect g effs off roots forb allow.
Proof. exact check_sound. Qed.
Print Assumptions c11_check_decides.

(* ---- allow-lists ------------------------------------------------------------------------------------------ *)
(* model-free schedulers: NO exception for ambient randomness / clock / process entropy / dynamic code *)
Definition allow_none : list (string * eff) := [].

(* check_and_merge_defaults(options, mandatory, default_options, ..) is handed the module-level _DEFAULT_OPTIONS of
   the scheduler module; its only write into an object derived from its parameters is `result_dict[kd] = vd` for
   keys kd MISSING from result_dict, where result_dict is either the dict passed by the caller (not module-level)
   or the default's own nested dict (then every key kd is present: no write).  The entry names the callee, the
   parameter and the mutating expression, so a different mutation of the defaults is not covered. *)
Definition allow_default_imputation : list (string * eff) := [
  ("syne_tune.optimizer.schedulers.fifo.FIFOScheduler.__init__/1 check_and_merge_defaults(default_options): result_dict[...] = ...", ModuleGlobalWrite);
  ("syne_tune.optimizer.schedulers.hyperband.HyperbandScheduler.__init__/1 check_and_merge_defaults(default_options): result_dict[...] = ...", ModuleGlobalWrite);
  ("syne_tune.optimizer.schedulers.pbt.PopulationBasedTraining.__init__/1 check_and_merge_defaults(default_options): result_dict[...] = ...", ModuleGlobalWrite);
  ("syne_tune.optimizer.schedulers.synchronous.dehb.DifferentialEvolutionHyperbandScheduler._create_internal/1 check_and_merge_defaults(default_options): result_dict[...] = ...", ModuleGlobalWrite);
  ("syne_tune.optimizer.schedulers.synchronous.hyperband.SynchronousHyperbandScheduler._create_internal/1 check_and_merge_defaults(default_options): result_dict[...] = ...", ModuleGlobalWrite);
  ("syne_tune.optimizer.schedulers.synchronous.hyperband_impl.GeometricDifferentialEvolutionHyperbandScheduler.__init__/1 check_and_merge_defaults(default_options): result_dict[...] = ...", ModuleGlobalWrite);
  ("syne_tune.optimizer.schedulers.synchronous.hyperband_impl.SynchronousGeometricHyperbandScheduler.__init__/1 check_and_merge_defaults(default_options): result_dict[...] = ...", ModuleGlobalWrite)
].

(* GP-based searchers *)
Definition allow_ambient_gp : list (string * eff) := [
  (* profiling only: cumulative_get_config_time, never read by a decision *)
  ("syne_tune.optimizer.schedulers.searchers.model_based_searcher.ModelBasedSearcher.get_config/2", WallClock);
  (* mxnet-style default initialiser `anp.random.uniform`, only used for a Parameter declared without `init`;
     every Parameter of gpautograd declares one (validated on every run by the driver: the state of the global
     numpy generator is compared before/after every call of a seeded GP searcher) *)
  ("syne_tune.optimizer.schedulers.searchers.bayesopt.gpautograd.gluon.Block.initialize/1", GlobalNumpyRNG);
  ("syne_tune.optimizer.schedulers.searchers.bayesopt.gpautograd.gluon.Parameter.initialize/1", GlobalNumpyRNG);
  ("syne_tune.optimizer.schedulers.searchers.bayesopt.gpautograd.gluon.ParameterDict.initialize/1", GlobalNumpyRNG);
  (* `random_state = np.random` defaults of PosteriorState.sample_*: reached only through the by-name
     resolution of the MENTION `self._gpmodel.sample_joint / sample_marginals` in
     GaussProcEstimator._draw_fantasy_values; the object is a GaussianProcessModel, whose methods of that name
     have no random_state parameter and pass `random_state=self._random_state` on (gp_model.py:153,177) *)
  ("syne_tune.optimizer.schedulers.searchers.bayesopt.gpautograd.posterior_state.GaussProcPosteriorState.sample_marginals@rsnone/1", GlobalNumpyRNG);
  ("syne_tune.optimizer.schedulers.searchers.bayesopt.gpautograd.posterior_state.GaussProcPosteriorState.sample_joint@rsnone/1", GlobalNumpyRNG);
  ("syne_tune.optimizer.schedulers.searchers.bayesopt.gpautograd.learncurve.posterior_state.GaussProcAdditivePosteriorState.sample_marginals@rsnone/1", GlobalNumpyRNG);
  ("syne_tune.optimizer.schedulers.searchers.bayesopt.gpautograd.hypertune.posterior_state._sample_hypertune_common@rsnone/1", GlobalNumpyRNG)
].

(* ordered consumption of a set: the sites below consume sets whose elements hash independently of
   PYTHONHASHSEED (int / float / tuples of float) or whose order cannot reach a suggestion or decision *)
(* loops over a set whose body only asserts / logs are classified by the translator itself (category "assert-only",
   counted as hash_order_loops_assert_only in the evidence) and are not sites at all: nothing is allow-listed here *)
Definition allow_hash_common : list (string * eff) := [].
Definition allow_hash_stochastic : list (string * eff) :=
  (* `for pos in self._rc_returned_pos`: set of int positions (hash(int) is not randomised) *)
  ("syne_tune.optimizer.schedulers.searchers.searcher_base.StochasticAndFilterDuplicatesSearcher.get_config/1 for-loop over a set left early", HashOrderIter)
  :: allow_hash_common.
(* PASHA's epsilon estimate walks over all pairs of a SET of trial-id strings (itertools.combinations).  Order-free
   provided a pair is identified independently of the order of its members and only |difference| values enter
   the percentile; this holds after the fix proposed in findings/C11-pasha-epsilon-ordered-pairs.diff (before it,
   seen_pairs held ORDERED pairs: finding, reproduced by corpus/C11/pasha-epsilon-ordered-pairs.json).  A bounded
   walk (islice, break) over the pairs is a different site name and is NOT covered. *)
Definition allow_hash_pasha : list (string * eff) := [
  ("syne_tune.optimizer.schedulers.hyperband_pasha.PASHARungSystem._update_epsilon/1 set passed to itertools.combinations", HashOrderIter)
].
Definition allow_hash_grid : list (string * eff) :=
  (* `list(set(_hpr_points))`: grid values of Float/Integer ranges (float / int elements) *)
  ("syne_tune.optimizer.schedulers.searchers.random_grid_searcher.GridSearcher._generate_all_candidates_on_grid/1 set passed to list", HashOrderIter)
  :: allow_hash_common.
Definition allow_hash_gp : list (string * eff) := [
  (* list of configs in set order of trial-id STRINGS; its only consumer ExclusionListFromState turns it into a
     set of match strings (order-free).  Hash-seed dependent order, harmless consumer: fresh-process twins under
     different PYTHONHASHSEED in the driver validate this *)
  ("syne_tune.optimizer.schedulers.searchers.bayesopt.datatypes.tuning_job_state.TuningJobState.all_configurations/1 comprehension over a set", HashOrderIter);
  (* set of integer resource levels *)
  ("syne_tune.optimizer.schedulers.searchers.bayesopt.gpautograd.independent.posterior_state.IndependentGPPerResourcePosteriorState._split_features/1 for-loop over a set", HashOrderIter);
  (* set of tuples of floats *)
  ("syne_tune.optimizer.schedulers.searchers.bayesopt.gpautograd.kernel.freeze_thaw.FreezeThawKernelFunction.forward/2 order-truncating: zip ; set passed to zip", HashOrderIter);
  (* tuple({"acq_func"}): singleton *)
  ("syne_tune.optimizer.schedulers.searchers.gp_searcher_factory._common_defaults/1 set passed to tuple", HashOrderIter);
  ("syne_tune.optimizer.schedulers.searchers.searcher_base.StochasticAndFilterDuplicatesSearcher.get_config/1 for-loop over a set left early", HashOrderIter)
].

(* the exception the property itself grants: process-global block-name counters of the GP parameter blocks *)
Definition allow_shared_gp : list (string * eff) := [
  ("syne_tune.optimizer.schedulers.searchers.bayesopt.gpautograd.gluon.NameManager.__enter__/2", ClassAttrWrite);
  ("syne_tune.optimizer.schedulers.searchers.bayesopt.gpautograd.gluon.NameManager.__exit__/1", ClassAttrWrite);
  ("syne_tune.optimizer.schedulers.searchers.bayesopt.gpautograd.gluon._BlockScope.__enter__/1", ClassAttrWrite);
  ("syne_tune.optimizer.schedulers.searchers.bayesopt.gpautograd.gluon._BlockScope.__exit__/1", ClassAttrWrite);
  ("syne_tune.optimizer.schedulers.searchers.bayesopt.gpautograd.gluon._BlockScope.create/2", ClassAttrWrite)
] ++ allow_default_imputation.

(* ==== model-free schedulers / searchers ================================================================ *)
(* FIFOScheduler + RandomSearcher *)
Theorem c11_no_ambient_rng_fifo_random :
  NoReachableEffect edges effs off_fifo_random roots_fifo_random ambient allow_none.
Proof. by_check. Qed.
Print Assumptions c11_no_ambient_rng_fifo_random.
Theorem c11_no_hash_order_fifo_random :
  NoReachableEffect edges effs off_fifo_random roots_fifo_random hash_order allow_hash_stochastic.
Proof. by_check. Qed.
Print Assumptions c11_no_hash_order_fifo_random.
Theorem c11_instances_disjoint_fifo_random :
  NoReachableEffect edges effs off_fifo_random roots_fifo_random shared_write allow_default_imputation.
Proof. by_check. Qed.
Print Assumptions c11_instances_disjoint_fifo_random.

(* FIFOScheduler + GridSearcher *)
Theorem c11_no_ambient_rng_fifo_grid :
  NoReachableEffect edges effs off_fifo_grid roots_fifo_grid ambient allow_none.
Proof. by_check. Qed.
Print Assumptions c11_no_ambient_rng_fifo_grid.
Theorem c11_no_hash_order_fifo_grid :
  NoReachableEffect edges effs off_fifo_grid roots_fifo_grid hash_order allow_hash_grid.
Proof. by_check. Qed.
Print Assumptions c11_no_hash_order_fifo_grid.
Theorem c11_instances_disjoint_fifo_grid :
  NoReachableEffect edges effs off_fifo_grid roots_fifo_grid shared_write allow_default_imputation.
Proof. by_check. Qed.
Print Assumptions c11_instances_disjoint_fifo_grid.

(* FIFOScheduler + RegularizedEvolution *)
Theorem c11_no_ambient_rng_fifo_rea :
  NoReachableEffect edges effs off_fifo_rea roots_fifo_rea ambient allow_none.
Proof. by_check. Qed.
Print Assumptions c11_no_ambient_rng_fifo_rea.
Theorem c11_no_hash_order_fifo_rea :
  NoReachableEffect edges effs off_fifo_rea roots_fifo_rea hash_order allow_hash_common.
Proof. by_check. Qed.
Print Assumptions c11_no_hash_order_fifo_rea.
Theorem c11_instances_disjoint_fifo_rea :
  NoReachableEffect edges effs off_fifo_rea roots_fifo_rea shared_write allow_default_imputation.
Proof. by_check. Qed.
Print Assumptions c11_instances_disjoint_fifo_rea.

(* HyperbandScheduler (stopping, promotion, pasha, rush_*, cost_promotion, dyhpo rung systems) + random *)
Theorem c11_no_ambient_rng_hyperband_random :
  NoReachableEffect edges effs off_hyperband_random roots_hyperband_random ambient allow_none.
Proof. by_check. Qed.
Print Assumptions c11_no_ambient_rng_hyperband_random.
Theorem c11_no_hash_order_hyperband_random :
  NoReachableEffect edges effs off_hyperband_random roots_hyperband_random hash_order (allow_hash_pasha ++ allow_hash_stochastic).
Proof. by_check. Qed.
Print Assumptions c11_no_hash_order_hyperband_random.
Theorem c11_instances_disjoint_hyperband_random :
  NoReachableEffect edges effs off_hyperband_random roots_hyperband_random shared_write allow_default_imputation.
Proof. by_check. Qed.
Print Assumptions c11_instances_disjoint_hyperband_random.

(* SynchronousGeometricHyperbandScheduler + random *)
Theorem c11_no_ambient_rng_synchb_random :
  NoReachableEffect edges effs off_synchb_random roots_synchb_random ambient allow_none.
Proof. by_check. Qed.
Print Assumptions c11_no_ambient_rng_synchb_random.
Theorem c11_no_hash_order_synchb_random :
  NoReachableEffect edges effs off_synchb_random roots_synchb_random hash_order allow_hash_stochastic.
Proof. by_check. Qed.
Print Assumptions c11_no_hash_order_synchb_random.
Theorem c11_instances_disjoint_synchb_random :
  NoReachableEffect edges effs off_synchb_random roots_synchb_random shared_write allow_default_imputation.
Proof. by_check. Qed.
Print Assumptions c11_instances_disjoint_synchb_random.

(* GeometricDifferentialEvolutionHyperbandScheduler (DEHB) *)
Theorem c11_no_ambient_rng_dehb :
  NoReachableEffect edges effs off_dehb roots_dehb ambient allow_none.
Proof. by_check. Qed.
Print Assumptions c11_no_ambient_rng_dehb.
Theorem c11_no_hash_order_dehb :
  NoReachableEffect edges effs off_dehb roots_dehb hash_order allow_hash_stochastic.
Proof. by_check. Qed.
Print Assumptions c11_no_hash_order_dehb.
Theorem c11_instances_disjoint_dehb :
  NoReachableEffect edges effs off_dehb roots_dehb shared_write allow_default_imputation.
Proof. by_check. Qed.
Print Assumptions c11_instances_disjoint_dehb.

(* PopulationBasedTraining *)
Theorem c11_no_ambient_rng_pbt :
  NoReachableEffect edges effs off_pbt roots_pbt ambient allow_none.
Proof. by_check. Qed.
Print Assumptions c11_no_ambient_rng_pbt.
Theorem c11_no_hash_order_pbt :
  NoReachableEffect edges effs off_pbt roots_pbt hash_order allow_hash_stochastic.
Proof. by_check. Qed.
Print Assumptions c11_no_hash_order_pbt.
Theorem c11_instances_disjoint_pbt :
  NoReachableEffect edges effs off_pbt roots_pbt shared_write allow_default_imputation.
Proof. by_check. Qed.
Print Assumptions c11_instances_disjoint_pbt.

(* MedianStoppingRule around FIFOScheduler *)
Theorem c11_no_ambient_rng_msr :
  NoReachableEffect edges effs off_msr roots_msr ambient allow_none.
Proof. by_check. Qed.
Print Assumptions c11_no_ambient_rng_msr.
Theorem c11_no_hash_order_msr :
  NoReachableEffect edges effs off_msr roots_msr hash_order allow_hash_stochastic.
Proof. by_check. Qed.
Print Assumptions c11_no_hash_order_msr.
Theorem c11_instances_disjoint_msr :
  NoReachableEffect edges effs off_msr roots_msr shared_write allow_default_imputation.
Proof. by_check. Qed.
Print Assumptions c11_instances_disjoint_msr.

(* ==== GP-based searchers (fresh-process twins; block-name counters are the granted exception) ========= *)
Theorem c11_no_ambient_rng_fifo_bayesopt :
  NoReachableEffect edges effs off_fifo_bayesopt roots_fifo_bayesopt ambient allow_ambient_gp.
Proof. by_check. Qed.
Print Assumptions c11_no_ambient_rng_fifo_bayesopt.
Theorem c11_no_hash_order_fifo_bayesopt :
  NoReachableEffect edges effs off_fifo_bayesopt roots_fifo_bayesopt hash_order allow_hash_gp.
Proof. by_check. Qed.
Print Assumptions c11_no_hash_order_fifo_bayesopt.
Theorem c11_shared_state_only_block_names_fifo_bayesopt :
  NoReachableEffect edges effs off_fifo_bayesopt roots_fifo_bayesopt shared_write allow_shared_gp.
Proof. by_check. Qed.
Print Assumptions c11_shared_state_only_block_names_fifo_bayesopt.

Theorem c11_no_ambient_rng_hyperband_bayesopt :
  NoReachableEffect edges effs off_hyperband_bayesopt roots_hyperband_bayesopt ambient allow_ambient_gp.
Proof. by_check. Qed.
Print Assumptions c11_no_ambient_rng_hyperband_bayesopt.
Theorem c11_no_hash_order_hyperband_bayesopt :
  NoReachableEffect edges effs off_hyperband_bayesopt roots_hyperband_bayesopt hash_order (allow_hash_pasha ++ allow_hash_gp).
Proof. by_check. Qed.
Print Assumptions c11_no_hash_order_hyperband_bayesopt.
Theorem c11_shared_state_only_block_names_hyperband_bayesopt :
  NoReachableEffect edges effs off_hyperband_bayesopt roots_hyperband_bayesopt shared_write allow_shared_gp.
Proof. by_check. Qed.
Print Assumptions c11_shared_state_only_block_names_hyperband_bayesopt.

Theorem c11_no_ambient_rng_hyperband_hypertune :
  NoReachableEffect edges effs off_hyperband_hypertune roots_hyperband_hypertune ambient allow_ambient_gp.
Proof. by_check. Qed.
Print Assumptions c11_no_ambient_rng_hyperband_hypertune.
Theorem c11_no_hash_order_hyperband_hypertune :
  NoReachableEffect edges effs off_hyperband_hypertune roots_hyperband_hypertune hash_order (allow_hash_pasha ++ allow_hash_gp).
Proof. by_check. Qed.
Print Assumptions c11_no_hash_order_hyperband_hypertune.
Theorem c11_shared_state_only_block_names_hyperband_hypertune :
  NoReachableEffect edges effs off_hyperband_hypertune roots_hyperband_hypertune shared_write allow_shared_gp.
Proof. by_check. Qed.
Print Assumptions c11_shared_state_only_block_names_hyperband_hypertune.

Theorem c11_no_ambient_rng_hyperband_dyhpo :
  NoReachableEffect edges effs off_hyperband_dyhpo roots_hyperband_dyhpo ambient allow_ambient_gp.
Proof. by_check. Qed.
Print Assumptions c11_no_ambient_rng_hyperband_dyhpo.
Theorem c11_no_hash_order_hyperband_dyhpo :
  NoReachableEffect edges effs off_hyperband_dyhpo roots_hyperband_dyhpo hash_order (allow_hash_pasha ++ allow_hash_gp).
Proof. by_check. Qed.
Print Assumptions c11_no_hash_order_hyperband_dyhpo.

Theorem c11_no_ambient_rng_synchb_bayesopt :
  NoReachableEffect edges effs off_synchb_bayesopt roots_synchb_bayesopt ambient allow_ambient_gp.
Proof. by_check. Qed.
Print Assumptions c11_no_ambient_rng_synchb_bayesopt.
Theorem c11_no_hash_order_synchb_bayesopt :
  NoReachableEffect edges effs off_synchb_bayesopt roots_synchb_bayesopt hash_order allow_hash_gp.
Proof. by_check. Qed.
Print Assumptions c11_no_hash_order_synchb_bayesopt.

(* ==== corollary: simulated experiment (Tuner + SimulatorBackend + tabular blackbox, backend seed given) === *)
Definition rng_only (e : eff) : bool :=
  match e with GlobalNumpyRNG | PyRandom | ProcEntropy | DynamicCode => true | _ => false end.
Definition clock_only (e : eff) : bool := match e with WallClock => true | _ => false end.

Definition allow_rng_sim : list (string * eff) := [
  (* random suffix of the tuner NAME (directory name / metadata), not part of the result table *)
  ("syne_tune.util.random_string/1", PyRandom)
].
(* wall-clock sites of a simulated experiment: they feed time-stamp columns / logging cadence only (simulated
   time comes from SimulatedTimeKeeper's own counter); the driver stubs real time and compares result tables *)
Definition allow_clock_sim : list (string * eff) := [
  ("syne_tune.backend.local_backend.LocalBackend._all_trial_results/1", WallClock);   (* by-name only: no LocalBackend in a simulated run *)
  ("syne_tune.backend.local_backend.LocalBackend._write_time_stamp/1", WallClock);
  ("syne_tune.backend.simulator_backend.time_keeper.SimulatedTimeKeeper.start_of_time/1", WallClock);  (* start datetime: time-stamp column *)
  ("syne_tune.backend.simulator_backend.time_keeper.SimulatedTimeKeeper.mark_exit/1", WallClock);      (* real time spent in the tuner loop, added to simulated time: stubbed to 0 by the driver *)
  ("syne_tune.backend.simulator_backend.time_keeper.SimulatedTimeKeeper.real_time_since_last_recent_exit/1", WallClock);
  ("syne_tune.backend.trial_backend.TrialBackend.start_trial/1", WallClock);          (* Trial.creation_time *)
  ("syne_tune.backend.trial_status.TrialResult.seconds/1", WallClock);
  ("syne_tune.callbacks.hyperband_remove_checkpoints_callback.HyperbandRemoveCheckpointsCallback.on_tuning_start/1", WallClock);
  ("syne_tune.callbacks.hyperband_remove_checkpoints_callback.HyperbandRemoveCheckpointsCallback._get_time_ratio/1", WallClock);
  ("syne_tune.results_callback.StoreResultsCallback.on_tuning_start/1", WallClock);   (* st_tuner_time column *)
  ("syne_tune.results_callback.StoreResultsCallback._set_time_fields/1", WallClock);
  ("syne_tune.tuner.Tuner.run/1", WallClock);                                         (* tuner_start_time metadata *)
  ("syne_tune.tuner.Tuner._enrich_metadata/1", WallClock);
  ("syne_tune.tuning_status.TuningStatus.wallclock_time/1", WallClock);
  ("syne_tune.tuning_status.TuningStatus.__init__/1", WallClock);
  ("syne_tune.util.name_from_base/3", WallClock);                                     (* tuner name *)
  ("syne_tune.util.RegularCallback.__init__/1", WallClock);                           (* print / save cadence *)
  ("syne_tune.util.RegularCallback.__call__/2", WallClock)
].
Definition allow_hash_sim : list (string * eff) := [
  ("syne_tune.backend.local_backend.LocalBackend._get_busy_trial_ids/1 for-loop over a set", HashOrderIter);               (* int trial ids *)
  ("syne_tune.backend.simulator_backend.simulator_backend.SimulatorBackend.busy_trial_ids/1 comprehension over a set", HashOrderIter);  (* int trial ids *)
  ("syne_tune.tuner.Tuner._process_new_results/1 set passed to list", HashOrderIter);                                      (* int trial ids *)
  ("syne_tune.optimizer.schedulers.searchers.searcher_base.StochasticAndFilterDuplicatesSearcher.get_config/1 for-loop over a set left early", HashOrderIter)
].

Theorem c11_sim_experiment_no_ambient_rng :
  NoReachableEffect edges effs off_sim_experiment roots_sim_experiment rng_only allow_rng_sim.
Proof. by_check. Qed.
Print Assumptions c11_sim_experiment_no_ambient_rng.
Theorem c11_sim_experiment_clock_sites :
  NoReachableEffect edges effs off_sim_experiment roots_sim_experiment clock_only allow_clock_sim.
Proof. by_check. Qed.
Print Assumptions c11_sim_experiment_clock_sites.
Theorem c11_sim_experiment_no_hash_order :
  NoReachableEffect edges effs off_sim_experiment roots_sim_experiment hash_order (allow_hash_pasha ++ allow_hash_sim).
Proof. by_check. Qed.
Print Assumptions c11_sim_experiment_no_hash_order.


(* ==== seed flow ============================================================================================== *)
(* c11_seed_flow_<cfg>: in the code reachable from the configuration's entry points
     - every generator construction RandomState(x) / default_rng(x) has a seed-derived argument (an int constant, or
       an expression naming a *seed* value such as random_seed, master_seed, self.random_seed_generator(); a
       seed-named parameter that may be None must be tested) and every generator-named attribute is bound to a
       generator-valued expression                                              (effect UnseededGenerator),
     - every draw (.rand/.randint/.uniform/.normal/.choice/.shuffle/.permutation/...) goes through a receiver
       that is generator-valued by construction or by name (…random_state…, rng)   (effect UnknownRngReceiver),
     - no call leaves the random_state parameter of a callee that has an ambient fallback (default np.random,
       `if random_state is None: random_state = np.random`, or forwarding to such a callee) to its default
                                                                                 (effect RandomStateOmitted);
   together with c11_no_ambient_rng_<cfg> (no module-level np.random / random call is reachable): every random
   draw reachable from the entry points goes through a generator that is seeded, transitively, from random_seed.
   Naming-convention based (syntactic); the twin-run recorder validates it behaviourally. *)
Definition allow_seed_flow_gp : list (string * eff) := [
  (* GaussProcEstimator._draw_fantasy_values picks `self._gpmodel.sample_joint` / `.sample_marginals` as a VALUE
     and calls it two lines later; self._gpmodel is a GaussianProcessModel, whose methods of these names have no
     random_state parameter and pass random_state=self._random_state on.  The by-name resolution cannot tell them
     from PosteriorState.sample_*; an actual call without random_state is a different site and not covered *)
  ("syne_tune.optimizer.schedulers.searchers.bayesopt.models.gp_model.GaussProcEstimator._draw_fantasy_values/2 mention of .sample_joint ; mention of .sample_marginals", RandomStateOmitted)
].
Theorem c11_seed_flow_fifo_random :
  NoReachableEffect edges effs off_fifo_random roots_fifo_random seed_flow allow_none.
Proof. by_check. Qed.
Print Assumptions c11_seed_flow_fifo_random.
Theorem c11_seed_flow_fifo_grid :
  NoReachableEffect edges effs off_fifo_grid roots_fifo_grid seed_flow allow_none.
Proof. by_check. Qed.
Print Assumptions c11_seed_flow_fifo_grid.
Theorem c11_seed_flow_fifo_rea :
  NoReachableEffect edges effs off_fifo_rea roots_fifo_rea seed_flow allow_none.
Proof. by_check. Qed.
Print Assumptions c11_seed_flow_fifo_rea.
Theorem c11_seed_flow_hyperband_random :
  NoReachableEffect edges effs off_hyperband_random roots_hyperband_random seed_flow allow_none.
Proof. by_check. Qed.
Print Assumptions c11_seed_flow_hyperband_random.
Theorem c11_seed_flow_synchb_random :
  NoReachableEffect edges effs off_synchb_random roots_synchb_random seed_flow allow_none.
Proof. by_check. Qed.
Print Assumptions c11_seed_flow_synchb_random.
Theorem c11_seed_flow_dehb :
  NoReachableEffect edges effs off_dehb roots_dehb seed_flow allow_none.
Proof. by_check. Qed.
Print Assumptions c11_seed_flow_dehb.
Theorem c11_seed_flow_pbt :
  NoReachableEffect edges effs off_pbt roots_pbt seed_flow allow_none.
Proof. by_check. Qed.
Print Assumptions c11_seed_flow_pbt.
Theorem c11_seed_flow_msr :
  NoReachableEffect edges effs off_msr roots_msr seed_flow allow_none.
Proof. by_check. Qed.
Print Assumptions c11_seed_flow_msr.
Theorem c11_seed_flow_fifo_bayesopt :
  NoReachableEffect edges effs off_fifo_bayesopt roots_fifo_bayesopt seed_flow allow_seed_flow_gp.
Proof. by_check. Qed.
Print Assumptions c11_seed_flow_fifo_bayesopt.
Theorem c11_seed_flow_hyperband_bayesopt :
  NoReachableEffect edges effs off_hyperband_bayesopt roots_hyperband_bayesopt seed_flow allow_seed_flow_gp.
Proof. by_check. Qed.
Print Assumptions c11_seed_flow_hyperband_bayesopt.
Theorem c11_seed_flow_hyperband_hypertune :
  NoReachableEffect edges effs off_hyperband_hypertune roots_hyperband_hypertune seed_flow allow_seed_flow_gp.
Proof. by_check. Qed.
Print Assumptions c11_seed_flow_hyperband_hypertune.
Theorem c11_seed_flow_hyperband_dyhpo :
  NoReachableEffect edges effs off_hyperband_dyhpo roots_hyperband_dyhpo seed_flow allow_seed_flow_gp.
Proof. by_check. Qed.
Print Assumptions c11_seed_flow_hyperband_dyhpo.
Theorem c11_seed_flow_synchb_bayesopt :
  NoReachableEffect edges effs off_synchb_bayesopt roots_synchb_bayesopt seed_flow allow_seed_flow_gp.
Proof. by_check. Qed.
Print Assumptions c11_seed_flow_synchb_bayesopt.
Theorem c11_seed_flow_sim_experiment :
  NoReachableEffect edges effs off_sim_experiment roots_sim_experiment seed_flow allow_none.
Proof. by_check. Qed.
Print Assumptions c11_seed_flow_sim_experiment.


(* ==== multi-objective model-based searcher (MultiObjectiveMultiSurrogateSearcher, user-supplied sklearn-style
   surrogates, default random-scalarisation scoring), seeded through EITHER route: random_seed itself is not fixed
   in this configuration (with random_seed_generator the name random_seed is None) =========================== *)
Definition allow_ambient_mo : list (string * eff) := [
  (* profiling only: cumulative_get_config_time *)
  ("syne_tune.optimizer.schedulers.searchers.model_based_searcher.ModelBasedSearcher.get_config/2", WallClock)
].
Definition allow_hash_mo : list (string * eff) := [
  (* configs in set order of trial-id strings; only consumer builds a set of match strings (see allow_hash_gp) *)
  ("syne_tune.optimizer.schedulers.searchers.bayesopt.datatypes.tuning_job_state.TuningJobState.all_configurations/1 comprehension over a set", HashOrderIter);
  (* set of int positions *)
  ("syne_tune.optimizer.schedulers.searchers.searcher_base.StochasticAndFilterDuplicatesSearcher.get_config/1 for-loop over a set left early", HashOrderIter);
  (* list(set of match strings) inside get_state(): a state dump that clone_from_state turns into a set again; not on
     the path of suggestions or decisions *)
  ("syne_tune.optimizer.schedulers.searchers.utils.exclusion_list.ExclusionList.get_state/1 set passed to list", HashOrderIter)
].
Theorem c11_no_ambient_rng_mo_multisurrogate :
  NoReachableEffect edges effs off_mo_multisurrogate roots_mo_multisurrogate ambient allow_ambient_mo.
Proof. by_check. Qed.
Print Assumptions c11_no_ambient_rng_mo_multisurrogate.
(* every generator construction is seed-derived on BOTH seeding routes: in particular no *seed* argument is taken
   from a dict lookup that may be None unless the generator route is forwarded in the same call *)
Theorem c11_seed_flow_mo_multisurrogate :
  NoReachableEffect edges effs off_mo_multisurrogate roots_mo_multisurrogate seed_flow allow_none.
Proof. by_check. Qed.
Print Assumptions c11_seed_flow_mo_multisurrogate.
Theorem c11_no_hash_order_mo_multisurrogate :
  NoReachableEffect edges effs off_mo_multisurrogate roots_mo_multisurrogate hash_order allow_hash_mo.
Proof. by_check. Qed.
Print Assumptions c11_no_hash_order_mo_multisurrogate.
Theorem c11_instances_disjoint_mo_multisurrogate :
  NoReachableEffect edges effs off_mo_multisurrogate roots_mo_multisurrogate shared_write allow_default_imputation.
Proof. by_check. Qed.
Print Assumptions c11_instances_disjoint_mo_multisurrogate.

(* ==== what the theorems need from the translator ============================================================ *)
(* [check_sound] / [reach_b] assume NOTHING about the translator: they are theorems about the generated lists.
   What ties them to an execution is stated here: if the nodes touched by a concrete execution form a trace that
   the generated graph JUSTIFIES (every node is an entry point or the target of a live edge from earlier nodes),
   then every effect site of a function that ran is covered by the theorems above.  The translator's obligation
   is therefore exactly: "every concrete execution of a configuration has a justified trace".  It is not proved
   (Python has no formal semantics here); the driver tests it on every run (every executed syne_tune function
   must lie in the reachable set) and the evidence counts the constructs that could break it. *)
Theorem c11_justified_trace_is_covered :
  forall g effs off roots forb allow tr,
    NoReachableEffect g effs off roots forb allow -> Justified g off roots tr ->
    forall f e ls nm, In f tr -> In (f, e, ls, nm) effs -> (forall l, In l ls -> ~ In l off) -> forb e = true ->
      In (nm, e) allow.
Proof. exact justified_trace_effects. Qed.
Print Assumptions c11_justified_trace_is_covered.

(* ---- non-vacuity ---------------------------------------------------------------------------------------- *)
(* the reachable sets are not trivial: the random searcher's draw IS reachable from FIFOScheduler's entry
   points; the ambient default of generate_random_seed (`random_state = np.random`) is reachable exactly when
   the guard `random_seed is None` is not switched off; the analysis does find ambient randomness when
   random_seed is NOT fixed (off = []), so the theorems above are not true for trivial reasons.
   (That no allow-list entry is stale is evaluated by the driver with [allow_used] and reported as a note:
   a site that disappears from the source must not break the build.) *)
Example c11_example_reach :
  reach_b edges off_fifo_random roots_fifo_random fn_RandomSearcher_get_config = true /\
  reach_b edges off_fifo_random roots_fifo_random fn_FIFOScheduler_suggest = true /\
  reach_b edges off_fifo_random roots_fifo_random fn_generate_random_seed_default = false /\
  reach_b edges [] roots_fifo_random fn_generate_random_seed_default = true /\
  reach_b edges off_fifo_random roots_fifo_random fn_Float_Uniform_sample_default = false /\
  check_b edges effs [] roots_fifo_random ambient allow_none = false /\
  check_b edges effs off_fifo_bayesopt roots_fifo_bayesopt ambient allow_none = false /\
  check_b edges effs off_fifo_bayesopt roots_fifo_bayesopt shared_write allow_none = false /\
  check_b edges effs off_hyperband_random roots_hyperband_random shared_write allow_none = false /\
  check_b edges effs off_fifo_bayesopt roots_fifo_bayesopt seed_flow allow_none = false.
Proof. vm_compute. repeat split; reflexivity. Qed.
