(* C13 — Trial failures are contained. Only statements; proofs are [exact <lemma>] of
   proofs/FailureProofs.v and proofs/SearcherDataProofs.v.
   Models: model/Failure.v (tuner dispatch of one poll, _handle_failure, synchronous bracket slot write and
   SynchronousHyperbandScheduler.on_trial_error) and model/SearcherData.v (asynchronous HyperbandScheduler
   bookkeeping + GP multi-fidelity searcher state). *)
From Verif Require Import model.Base model.SearcherData model.Failure proofs.SearcherDataProofs proofs.FailureProofs.
Open Scope Z_scope.

(* One poll of Tuner._update_running_trials (any statuses with unique trial ids, any new results with
   any scheduler decisions, any trials_scheduler_stopped): on_trial_error is called exactly once for a
   trial whose status is failed and that the scheduler has not itself stopped or paused for a result of
   the same batch (then it was told by on_trial_remove; current tuner.py, commit dbe6ca2), or whose
   status is stopped without the scheduler having asked for it — and never otherwise, never twice;
   such a trial is in done_trials afterwards, i.e. it leaves the running set and is not polled again
   for this run. *)
Theorem c13_notified_once :
  forall statuses results ss t, NoDup (map fst statuses) ->
    let ps0 := results_loop statuses results {| done := []; sched_stopped := ss; calls := [] |} in
    count_error t (calls (update_running_trials statuses results ss)) =
      (if ended_badly statuses ps0 t then 1%nat else 0%nat) /\
    (ended_badly statuses ps0 t = true ->
       lookup t (done (update_running_trials statuses results ss)) <> None).
Proof.
  intros statuses results ss t H. split; [exact (notified_once statuses results ss t H)|].
  intro Hb. exact (status_loop_done t statuses _ H Hb).
Qed.
Print Assumptions c13_notified_once.

(* Asynchronous Hyperband + GP searcher, ANY state: on_trial_error t leaves the record of every other
   trial (rung entries [in_rungs], the rung system's _running entry, bracket, decision), its observations
   and its pending evaluations unchanged ... *)
Theorem c13_frame_async_others :
  forall st t t', t' <> t ->
    let st' := on_trial_error st t in
    find t' (trials st') = find t' (trials st) /\
    (forall r c, In ((t', r), c) (obs (srch st')) <-> In ((t', r), c) (obs (srch st))) /\
    (forall p, In (t', p) (pend (srch st')) <-> In (t', p) (pend (srch st))).
Proof. exact async_frame. Qed.
Print Assumptions c13_frame_async_others.

(* ... removes every pending evaluation of t, black-lists t, keeps all observations, and marks t stopped
   without touching its rung entries. *)
Theorem c13_frame_async_own :
  forall st t,
    let st' := on_trial_error st t in
    (forall p, ~ In (t, p) (pend (srch st'))) /\ In t (failed (srch st')) /\ obs (srch st') = obs (srch st) /\
    (forall rec, find t (trials st) = Some rec ->
       exists rec', find t (trials st') = Some rec' /\ dec rec' = STOP /\ in_rungs rec' = in_rungs rec).
Proof. exact async_own. Qed.
Print Assumptions c13_frame_async_own.

(* Synchronous bracket, any promotion rule: when on_trial_error t succeeds for a trial with a pending
   slot, exactly that slot of that bracket's current rung is written with (trial, NaN) — so the rung no
   longer waits for it —, every other slot of the rung, every other bracket and every other trial's
   pending-slot entry are unchanged, and t is no longer pending. *)
Theorem c13_frame_sync :
  forall promote st t st' bid sl b rung ms,
    sync_on_trial_error promote st t = SOk st' -> lookup t (pending_slot st) = Some (bid, sl) ->
    nth_error (brackets st) bid = Some b -> cur b = Some (rung, ms) ->
    (forall bid', bid' <> bid -> nth_error (brackets st') bid' = nth_error (brackets st) bid') /\
    (exists b' rung', nth_error (brackets st') bid = Some b' /\ rung_at b' (s_rung sl) = Some rung' /\
        nth_error rung' (s_index sl) = Some (s_trial sl, Some MNaN) /\
        forall j, j <> s_index sl -> nth_error rung' j = nth_error rung j) /\
    (forall t', t' <> t -> lookup t' (pending_slot st') = lookup t' (pending_slot st)) /\
    lookup t (pending_slot st') = None.
Proof.
  intros promote st t st' bid sl b rung ms H1 H2 H3 H4.
  destruct (sync_error_frame promote st t st' bid sl b rung ms H1 H2 H3 H4) as [A [[b' [B1 [B2 B3]]] [C D]]].
  split; [exact A|]. split; [|split; [exact C | exact D]].
  exists b', (write_slot rung (s_index sl) (s_trial sl, Some MNaN)). split; [exact B1|]. split; [exact B2|].
  split; [exact (write_slot_nth_same rung _ _ B3) | intros j Hj; exact (write_slot_nth_other rung _ _ j Hj)].
Qed.
Print Assumptions c13_frame_sync.

(* "Without raising", asynchronous Hyperband + GP searcher: for every legal history — failures placed
   anywhere: before the first report, between reports, after a resume, of a trial the scheduler has just
   stopped or paused, several per trial — and every later legal event, no assertion / KeyError of the
   modelled scheduler and searcher paths is reachable. *)
Theorem c13_no_error_outcome :
  forall cfg h, wf_config cfg = true -> legal_hist cfg init h -> exists st, run cfg init h = Ok st.
Proof. exact legal_no_error. Qed.
Print Assumptions c13_no_error_outcome.

(* "Without raising", synchronous Hyperband (scheduler shell: bracket manager next_job / on_result with the
   primary-bracket advance, _suggest incl. the searcher returning no configuration, on_trial_result at the
   rung level, on_trial_error): for EVERY event sequence the tuner protocol can issue (fresh trial ids for
   suggest, a trial does not report beyond the level it runs to; failures of pending jobs anywhere, failures
   and reports of non-pending trials are ignored), for every bracket configuration with positive rung
   sizes and every promotion rule that promotes distinct trials of the completed rung, no assertion of
   SynchronousBracket.on_result, SynchronousHyperbandBracketManager.on_result / next_job or of the
   scheduler (_suggest "already registered as pending", on_trial_result sanity checks) is reachable.
   Proved through the invariant SInv: every entry of _trial_to_pending_slot is a valid, distinct,
   handed-out empty slot of a not yet completed bracket at or after the primary one. *)
Theorem c13_no_error_outcome_sync :
  forall promote bracket_rungs,
    (forall rung n, (NoDup (somes (map fst rung)) -> NoDup (promote rung n)) /\
                    forall t, In t (promote rung n) -> In (Some t) (map fst rung)) ->
    (bracket_rungs <> [] /\
     Forall (fun rs => exists size lvl fut, rs = (size, lvl) :: fut /\ (0 < size)%nat) bracket_rungs) ->
    forall h, slegal_hist promote bracket_rungs (shell_init bracket_rungs) 0 h ->
      exists st', shell_run promote bracket_rungs (shell_init bracket_rungs) h = MOk st'.
Proof.
  intros promote bracket_rungs H1 H2 h HL.
  eapply (shell_run_ok promote bracket_rungs H1 H2 h); [apply SInv_init | exact HL].
Qed.
Print Assumptions c13_no_error_outcome_sync.

(* the single step behind it: on_trial_error of a trial with a valid pending slot (which the invariant of the
   previous theorem guarantees) or without a pending slot does not raise *)
Theorem c13_sync_on_trial_error_total :
  forall promote st t,
    (lookup t (pending_slot st) = None -> sync_on_trial_error promote st t = SOk st) /\
    (forall bid sl b, lookup t (pending_slot st) = Some (bid, sl) -> nth_error (brackets st) bid = Some b ->
       slot_valid b sl = true -> exists st', sync_on_trial_error promote st t = SOk st').
Proof.
  intros promote st t. split; [exact (sync_error_unknown promote st t)|].
  intros bid sl b. exact (sync_error_total promote st t bid sl b).
Qed.
Print Assumptions c13_sync_on_trial_error_total.

(* A failed trial is never resumed (asynchronous promotion Hyperband): along every legal history in which
   on_trial_error is signalled for trials that are running, Resume of a black-listed trial is never a
   possible suggestion (it has no not-yet-promoted rung entry), whatever happens later. *)
Theorem c13_failed_not_resumed :
  forall cfg h st, wf_config cfg = true -> legal_hist_fr cfg init h -> run cfg init h = Ok st ->
    forall t b, In t (failed (srch st)) -> legal_b cfg st (Resume t b) = false.
Proof. exact failed_not_resumed. Qed.
Print Assumptions c13_failed_not_resumed.

(* REFUTED without that restriction: if the failure is signalled in the same poll in which the trial's
   report was answered with PAUSE (the tuner then calls on_trial_remove and on_trial_error), the trial
   stays promotable and IS resumed later. Witness replayed on the real HyperbandScheduler by the
   driver (finding F-C13-1). *)
Definition cex_cfg := {| rung_levels := [1; 3]; max_t := 9; pol := Rungs; myopic := false; sty := Promotion; maximize := false; reward_const := 1 |}.
Definition cex_hist := [Start 0 0%nat; Report 0 1 (1 # 10) true; Fail 0; Resume 0 0%nat].
Theorem c13_failed_resumed_same_poll_refuted :
  wf_config cex_cfg = true /\ legal_hist cex_cfg init cex_hist /\
  exists st rec, run cex_cfg init cex_hist = Ok st /\ In 0 (failed (srch st)) /\
                 find 0 (trials st) = Some rec /\ dec rec = CONTINUE.
Proof. split; [reflexivity|]. split; [vm_compute; repeat split; reflexivity|]. vm_compute. do 2 eexists. repeat split. left. reflexivity. Qed.
Print Assumptions c13_failed_resumed_same_poll_refuted.

(* No-repeat searchers: the failed list (part of the exclusion list of get_config) only grows — for
   EVERY later event sequence a black-listed trial stays black-listed. *)
Theorem c13_failed_stays_excluded :
  forall cfg h st st' t, run cfg st h = Ok st' -> In t (failed (srch st)) -> In t (failed (srch st')).
Proof. intros cfg h st st' t. exact (run_failed_mono cfg h st st' t). Qed.
Print Assumptions c13_failed_stays_excluded.

(* Failure limit: with more than max_failures failed trials the run ends with the error naming a trial
   whose status is failed; at or below the limit _handle_failure is not entered. *)
Theorem c13_limit :
  forall max_failures ds,
    ((max_failures < num_failed ds)%nat -> exists t, run_end max_failures ds = Some t /\ In (t, S_Failed) ds) /\
    ((num_failed ds <= max_failures)%nat -> run_end max_failures ds = None).
Proof. intros mf ds. split; [exact (limit_names mf ds) | exact (limit_not_reached mf ds)]. Qed.
Print Assumptions c13_limit.

(* ... and across the polls of a run (done_trials_statuses accumulates): a failure seen in any poll is still
   in the dict handed to _handle_failure at the end of the run unless the same trial finishes again later, so
   with max_failures = 0 ... n the run ends with the error as soon as the remembered failures exceed the limit
   (whatever happens in later polls, e.g. while waiting for trial completion). *)
Theorem c13_limit_across_polls :
  forall t pre d post, NoDup (map fst d) -> In (t, S_Failed) d ->
    (forall d', In d' post -> ~ In t (map fst d')) ->
    let ds := accumulate (pre ++ d :: post) in
    In (t, S_Failed) ds /\ (0 < num_failed ds)%nat /\
    forall mf, (mf < num_failed ds)%nat -> exists t', run_end mf ds = Some t' /\ In (t', S_Failed) ds.
Proof.
  intros t pre d post H1 H2 H3. destruct (failure_remembered t pre d post H1 H2 H3) as [A B].
  split; [exact A|]. split; [exact B|]. intros mf Hmf. exact (limit_names mf _ Hmf).
Qed.
Print Assumptions c13_limit_across_polls.

(* Synchronous brackets do not wait for ever for a failed job: when the last open slot of a fully handed-out rung
   receives its result -- a metric value, or NaN for a job that failed or was stopped from outside; NaN occupies the slot,
   it is not "pending" -- the rung is complete and the bracket moves on at once: the next rung is opened by the
   promotion rule, or the bracket is finished. For any bracket, any promotion rule. *)
Theorem c13_sync_rung_completes :
  forall promote b sl tr mv rung ms,
    slot_valid b (with_trial sl tr None) = true -> cur b = Some (rung, ms) -> (length rung <= first_free b)%nat ->
    (forall i s, i <> s_index sl -> nth_error rung i = Some s -> snd s <> None) ->
    exists b', bracket_on_result promote b (with_trial sl tr (Some mv)) = SOk b' /\
      rungs_done b' = rungs_done b ++ [(write_slot rung (s_index sl) (tr, Some mv), ms)] /\
      first_free b' = 0%nat /\
      match future b with
      | [] => cur b' = None
      | (size, lvl) :: _ => cur b' = Some (map (fun t => (Some t, None)) (promote (write_slot rung (s_index sl) (tr, Some mv)) size), lvl)
      end.
Proof. exact last_result_completes_rung. Qed.
Print Assumptions c13_sync_rung_completes.

Example c13_sync_rung_completes_example :
  (* rung of 3: trials 0 and 2 reported, the pending job of trial 1 fails: the rung completes with the NaN entry *)
  let b := {| rungs_done := []; cur := Some ([(Some 0, Some (MVal (1 # 2))); (Some 1, None); (Some 2, Some (MVal (1 # 4)))], 1);
              future := [(1%nat, 3)]; first_free := 3 |} in
  let sl := {| s_rung := 0; s_level := 1; s_index := 1; s_trial := Some 1; s_metric := None |} in
  slot_valid b (with_trial sl (Some 1) None) = true /\
  match bracket_on_result (fun rung n => firstn n (somes (map fst rung))) b (with_trial sl (Some 1) (Some MNaN)) with
  | SOk b' => length (rungs_done b') = 1%nat /\ cur b' = Some ([(Some 0, None)], 3)
  | SError _ => False
  end.
Proof. vm_compute. repeat split; reflexivity. Qed.

(* Failures counted against ground truth, for every run (list of polls with unique trial ids per poll): a trial the
   backend shows as failed is recorded as failed for that poll WHATEVER the scheduler answered for its new results in
   the same batch (a STOP/PAUSE does not un-fail a job) ... *)
Theorem c13_shown_failure_recorded :
  forall statuses results ss t, NoDup (map fst statuses) -> In (t, S_Failed) statuses ->
    lookup t (poll_done (statuses, results, ss)) = Some S_Failed.
Proof. exact poll_failed_recorded. Qed.
Print Assumptions c13_shown_failure_recorded.

(* ... so for every set F of distinct trials shown as failed that do not finish again later (a failed trial that is
   resumed is finding F-C13-1), the number of failed entries handed to the failure limit is at least |F|, and as soon
   as |F| > max_failures -- max_failures = 0 included -- the run ends with the error naming a failed trial. *)
Theorem c13_limit_ground_truth :
  forall polls (F : list Z) mf, NoDup F -> (forall t, In t F -> shown_failed_last polls t) ->
    (length F <= num_failed (accumulate (map poll_done polls)))%nat /\
    ((mf < length F)%nat -> exists t', tuner_end mf polls = Some t' /\ In (t', S_Failed) (accumulate (map poll_done polls))).
Proof. exact ground_truth_limit. Qed.
Print Assumptions c13_limit_ground_truth.

Example c13_ground_truth_example :
  (* trial 0 crashes in the poll that also delivers its report answered with PAUSE; max_failures = 0 *)
  let polls := [([(0, S_Failed); (1, S_InProgress)], [(0, PAUSE); (1, CONTINUE)], []);
                ([(1, S_Completed)], [(1, CONTINUE)], [])] in
  shown_failed_last polls 0 /\ tuner_end 0 polls = Some 0.
Proof.
  split; [|vm_compute; reflexivity].
  exists [], [(0, S_Failed); (1, S_InProgress)], [(0, PAUSE); (1, CONTINUE)], [], [([(1, S_Completed)], [(1, CONTINUE)], [])].
  split; [reflexivity|]. split; [repeat constructor; cbn; intuition; discriminate|]. split; [left; reflexivity|].
  intros p [<-|[]]. vm_compute. intuition; discriminate.
Qed.

(* No-repeat promise after a failure, for every allow_duplicates setting: the configurations a searcher must not
   propose are those of pending and failed trials, plus those of observed trials unless allow_duplicates=True in
   the model-based phase ([skip_observed]); a failed (or pending) trial is in that set in BOTH settings, and a
   configuration drawn from restrict_configurations is never the configuration of such a trial (for every random
   position stream). Together with c13_failed_stays_excluded the black-listing is permanent. *)
Theorem c13_failed_excluded_all_settings :
  forall skip_observed s t, (In t (failed s) \/ exists r, In (t, r) (pend s)) -> In t (exclusion_trials skip_observed s).
Proof. intros b s t [H|[r H]]; [exact (failed_excluded b s t H) | exact (pending_excluded b s t r H)]. Qed.
Print Assumptions c13_failed_excluded_all_settings.

Theorem c13_restricted_draw_avoids_failed :
  forall (C : Type) (eqb : C -> C -> bool) (config_of : Z -> C) rc skip_observed s draws c t,
    (forall x, eqb x x = true) ->
    draw_restricted eqb rc (map config_of (exclusion_trials skip_observed s)) draws = Some c ->
    In t (failed s) \/ (exists r, In (t, r) (pend s)) -> c <> config_of t.
Proof. intros C eqb config_of rc b s draws c t. exact (restricted_draw_avoids_failed eqb config_of rc b s draws c t). Qed.
Print Assumptions c13_restricted_draw_avoids_failed.

Example c13_restricted_example :
  let s := {| obs := [((0, 1), 1 # 2)]; pend := []; failed := [1] |} in
  exclusion_trials true s = [1] /\ exclusion_trials false s = [1; 0] /\
  draw_restricted Z.eqb [10; 11; 12] (map (fun t => 10 + t) (exclusion_trials true s)) [1; 1; 0]%nat = Some 10.
Proof. vm_compute. repeat split; reflexivity. Qed.

(* the state handed to the surrogate can always be constructed after failures (config_for_trial covers failed
   trials): c14_fitted_data, restated here for the "without raising" part of C13 *)
Theorem c13_fit_state_constructible :
  forall cfg h st choose cap, wf_config cfg = true -> legal_hist cfg init h -> run cfg init h = Ok st -> choose_ok choose ->
    exists s', cap_state choose cap (map fst (trials st)) (srch st) = Some (map fst (trials st), s') /\
               failed s' = failed (srch st) /\ pend s' = pend (srch st).
Proof.
  intros cfg h st choose cap H1 H2 H3 H4. destruct (fitted_data cfg h st choose cap H1 H2 H3 H4) as [s' [A [_ [B [C _]]]]].
  exists s'. auto.
Qed.
Print Assumptions c13_fit_state_constructible.

(* non-vacuity of the synchronous theorem: one bracket (3 slots @ 1, 1 slot @ 3); trial 1 fails while pending, the
   others report, the rung completes without waiting, the next suggestion resumes a trial at level 3, which
   then fails after the resume; promotion rule here: the first n trials of the rung *)
Definition ex_promote (rung : list slot) (n : nat) : list Z := firstn n (somes (map fst rung)).
Definition ex_rungs : list (list (nat * Z)) := [[(3%nat, 1); (1%nat, 3)]].
Definition ex_shist := [SSuggest 0 true; SSuggest 1 true; SSuggest 2 true; SFail 1; SReport 0 1 (1 # 2); SReport 2 1 (1 # 4);
                        SSuggest 3 true; SReport 0 2 (1 # 8); SFail 0; SSuggest 3 true].
Example c13_sync_example :
  slegal_hist ex_promote ex_rungs (shell_init ex_rungs) 0 ex_shist /\
  match shell_run ex_promote ex_rungs (shell_init ex_rungs) ex_shist with
  | MOk st => map fst (sh_pending st) = [3] /\ length (m_brackets (sh_mgr st)) = 2%nat
  | MError _ => False
  end.
Proof. vm_compute. repeat split; reflexivity. Qed.

(* non-vacuity: a poll with a failed trial, an externally stopped one, a scheduler-stopped one *)
Example c13_example :
  let statuses := [(0, S_Failed); (1, S_Stopped); (2, S_InProgress); (3, S_Completed)] in
  let ps := update_running_trials statuses [(2, STOP); (3, CONTINUE)] [] in
  calls ps = [CResult 2; CRemove 2; CResult 3; CError 0; CError 1; CComplete 3] /\
  run_end 1 [(0, S_Failed); (1, S_Stopped); (5, S_Failed)] = Some 0.
Proof. vm_compute. split; reflexivity. Qed.
