(* C18 — Metrics reported by a training script arrive unchanged at the tuner.
   Only statements; every proof is [exact <lemma of proofs/ReportProofs.v>].
   Text = list of code points; [render] = what is on stdout; [readlines] =
   LocalBackend.stdout(); [retrieve_model] = retrieve() up to json.loads;
   json.dumps / sys.getsizeof are oracle values inside a [request]. *)
From Verif Require Import model.Base model.Report proofs.ReportProofs.
From Coq Require Import Sorted.
Local Open Scope Z_scope.

(* Framing.  For EVERY stream made of report lines ("[tune-metric]: " payload
   newline) and other output in any order — other output with or without
   trailing newline, so it may share a line with the report that follows it —
   such that (noise_ok) no maximal run of other output contains the text
   "tune-metric" and (payloads_ok) every payload starts with "{", ends with "}"
   and has no raw newline (it may contain the tag, the whole tag prefix, braces,
   brackets, quotes, escaped newlines, anything else):
   the regex scan of the stream, and retrieve() on the lines read back from the
   file, yield exactly the payloads, in order. *)
Theorem c18_framing :
  forall cs : list chunk, noise_ok cs = true -> payloads_ok cs = true ->
    findall (render cs) = payloads_of cs /\
    retrieve_model (readlines (render cs)) = payloads_of cs.
Proof. intros cs Hn Hp. split; [exact (framing cs Hn Hp) | exact (framing_lines cs Hn Hp)]. Qed.
Print Assumptions c18_framing.

(* reading the file with readlines() and joining with newline (which doubles
   the newlines) never changes what the regex finds — for every text *)
Theorem c18_readlines_join_transparent :
  forall t : list Z, retrieve_model (readlines t) = findall t.
Proof. exact retrieve_readlines. Qed.
Print Assumptions c18_readlines_join_transparent.

(* the fact behind framing: "[" occurs in the tag prefix only at position 0,
   so a match cannot start inside tag-free output and run into a report *)
Theorem c18_tag_prefix_no_self_overlap :
  PRE = 91 :: PRE_TL /\ ~ In 91 PRE_TL /\
  forall c n X, has_tag (c :: n) = false -> (X = [] \/ exists Y, X = 91 :: Y) ->
    match_here ((c :: n) ++ X) = None.
Proof. split; [exact PRE_eq | split; [exact PRE_TL_no_lbk | exact match_here_notag]]. Qed.
Print Assumptions c18_tag_prefix_no_self_overlap.

(* Counter.  For every script (other output and reporter calls, any oracle
   answers) started with counter k0: the counter values on the emitted lines
   are strictly increasing and lie in [k0, final counter); and the i-th payload
   on the stream is the serialisation — made with the i-th emitted counter
   value, of size below the limit — of a call of the script that passed the
   None / st_ checks. *)
Theorem c18_counter :
  forall m1 m2 evs k0,
    match run_script m1 m2 k0 evs with
    | (k', os, cs) =>
        (k0 <= k')%nat /\
        Forall (fun k => (k0 <= k < k')%nat) (emitted_iters os) /\
        StronglySorted lt (emitted_iters os) /\
        Forall2 (sent_as evs) (emitted_iters os) (payloads_of cs)
    end.
Proof. exact run_script_counter. Qed.
Print Assumptions c18_counter.

(* as long as serialisation succeeds the counter is exactly k0, k0+1, k0+2, ...
   (reports rejected for None values / st_ keys do not consume a value) *)
Theorem c18_counter_dense :
  forall m1 m2 evs k0, Forall ser_always_ok evs ->
    match run_script m1 m2 k0 evs with
    | (k', os, _) =>
        emitted_iters os = seq k0 (length (emitted_iters os)) /\
        k' = (k0 + length (emitted_iters os))%nat
    end.
Proof. exact run_script_dense. Qed.
Print Assumptions c18_counter_dense.

(* rejection at the reporting side: None values and st_ keys print nothing and
   leave the counter alone; every other outcome than Emitted puts no report
   line on the stream — at most one complete message line *)
Theorem c18_rejected_leave_no_report :
  forall m1 m2 k r,
    (accepted_by_asserts r = false -> report_call m1 m2 k r = (k, AssertionErr, [])) /\
    match report_call m1 m2 k r with
    | (k', Emitted j, cs) =>
        j = k /\ k' = S k /\ accepted_by_asserts r = true /\
        exists p sz, rq_dump r k = Some (p, sz) /\ sz < SIZE_LIMIT /\ cs = [Report p]
    | (k', _, cs) => (cs = [] \/ cs = [Noise m1] \/ cs = [Noise m2]) /\ (k' = k \/ k' = S k)
    end.
Proof. intros. split; [exact (report_call_assert_rejects m1 m2 k r) | exact (report_call_spec m1 m2 k r)]. Qed.
Print Assumptions c18_rejected_leave_no_report.

(* Reporter, stream, readlines and retrieve composed: whatever the script does,
   if every serialisation has the json.dumps shape and the other output
   (including the reporter's own failure messages) is tag-free, the tuner
   receives exactly the serialisations of the accepted reports, in order, with
   strictly increasing counter values *)
Theorem c18_end_to_end :
  forall m1 m2 evs k0, Forall dumps_shaped evs ->
    match run_script m1 m2 k0 evs with
    | (_, os, cs) =>
        noise_ok cs = true ->
        retrieve_model (readlines (render cs)) = payloads_of cs /\
        Forall2 (sent_as evs) (emitted_iters os) (payloads_of cs) /\
        StronglySorted lt (emitted_iters os)
    end.
Proof. exact end_to_end. Qed.
Print Assumptions c18_end_to_end.

(* Polling a growing std.out.  [poll_model t] = what LocalBackend parses when
   std.out holds [t]: retrieve (drop_unterminated (readlines t)).  For EVERY
   valid stream and EVERY cut position n (inside the tag, inside a payload,
   behind a nested "}", anywhere) one poll of the first n characters yields
   exactly the payloads of the reports whose whole line, newline included, lies
   inside those n characters, in order ([delivered_upto], model/Report.v). *)
Theorem c18_polling_prefixes :
  forall (cs : list chunk) (n : nat), noise_ok cs = true -> payloads_ok cs = true ->
    poll_model (firstn n (render cs)) = delivered_upto cs n.
Proof. exact polling_prefixes. Qed.
Print Assumptions c18_polling_prefixes.

(* hence over any increasing sequence of polls the parsed lists are increasing
   prefixes of the payloads (nothing lost, duplicated, reordered or invented
   when a poll lands inside a line), and a poll that sees the whole text
   parses all of them *)
Theorem c18_polling_monotone :
  forall (cs : list chunk) (n m : nat), noise_ok cs = true -> payloads_ok cs = true -> (n <= m)%nat ->
    (exists k, poll_model (firstn n (render cs)) = firstn k (payloads_of cs)) /\
    (exists j, poll_model (firstn n (render cs)) = firstn j (poll_model (firstn m (render cs)))) /\
    ((length (render cs) <= m)%nat -> poll_model (firstn m (render cs)) = payloads_of cs).
Proof. exact polling_monotone. Qed.
Print Assumptions c18_polling_monotone.

(* dropping the unterminated last line is what makes this true: bare retrieve
   on a prefix cut behind a "}" inside a payload finds a fragment that is not a
   payload (json.loads then raises: finding F-C18-3, fixed by 3359d87), while
   poll_model on the same prefix finds nothing *)
Theorem c18_retrieve_on_cut_line_refuted :
  exists cs n g, noise_ok cs = true /\ payloads_ok cs = true /\
    findall (firstn n (render cs)) = [g] /\ ~ In g (payloads_of cs) /\
    poll_model (firstn n (render cs)) = [].
Proof. exact retrieve_on_cut_line_refuted. Qed.
Print Assumptions c18_retrieve_on_cut_line_refuted.

(* Order of the two reads inside one fetch.  The worker runs concurrently: any
   sequence of snapshots in which the text only grows and the process has exited
   only once everything is written.  Reading the STATUS first (moment i) and
   std.out after it (moment j >= i), as _all_trial_results does: whenever the
   fetch says "exited" it carries all reports — for every valid stream, every
   worker behaviour, every pair of moments.  (Tuner.run never polls a trial
   again once it is reported completed/failed.) *)
Theorem c18_fetch_status_first_complete :
  forall cs tr i j, noise_ok cs = true -> payloads_ok cs = true ->
    worker_trace (length (render cs)) tr -> (i <= j < length tr)%nat ->
    fst (fetch_status_then_text cs tr i j) = true ->
    snd (fetch_status_then_text cs tr i j) = payloads_of cs.
Proof. exact fetch_status_first_complete. Qed.
Print Assumptions c18_fetch_status_first_complete.

(* with the two reads swapped the statement is false: the worker writes its
   report and exits between them; the fetch says "exited" and carries nothing *)
Theorem c18_fetch_text_first_refuted :
  exists cs tr i j, noise_ok cs = true /\ payloads_ok cs = true /\
    worker_trace (length (render cs)) tr /\ (i <= j < length tr)%nat /\
    fetch_text_then_status cs tr i j = (true, []) /\ payloads_of cs <> [].
Proof. exact fetch_text_first_refuted. Qed.
Print Assumptions c18_fetch_text_first_refuted.

(* Wire format.  Payloads are ASCII-only text (json.dumps escapes every non-ASCII
   character of keys and values; the driver checks this of every real payload), so
   the channel does not depend on the encoding the script's stdout writes with nor
   on the one the reader decodes with: for EVERY per-character substitution f that
   leaves ASCII alone (any mix of ascii / latin-1 / cp1252 / utf-8 ..., mojibake
   or replacement characters in the other output included) — provided the other
   output is still tag-free after it — the transcoded stream parses to exactly the
   payloads, also through LocalBackend's reading rule and at every cut position. *)
Theorem c18_encoding_independent :
  forall (f : Z -> list Z) (cs : list chunk) (n : nat),
    ascii_preserving f -> payloads_ascii cs = true -> payloads_ok cs = true ->
    noise_ok (map (transcode_chunk f) cs) = true ->
    findall (transcode f (render cs)) = payloads_of cs /\
    poll_model (transcode f (render cs)) = payloads_of cs /\
    exists k, poll_model (firstn n (transcode f (render cs))) = firstn k (payloads_of cs).
Proof. exact encoding_independent. Qed.
Print Assumptions c18_encoding_independent.

(* Pause -> resume (LocalBackend._resume_trial: the reports already in std.out are counted
   as seen by PARSING them, seen = len(retrieve(...))).  For every stream cs1 of the paused
   run and every stream cs2 the resumed run appends — payloads may contain the tag, the whole
   tag prefix, braces — a poll after the resume returns exactly the payloads of the new run. *)
Theorem c18_resume_delivers_new_run :
  forall cs1 cs2 : list chunk, noise_ok (cs1 ++ cs2) = true -> payloads_ok (cs1 ++ cs2) = true ->
    seen_at_resume (render cs1) = length (payloads_of cs1) /\
    poll_after_resume (render cs1) (render cs1 ++ render cs2) = payloads_of cs2.
Proof. exact resume_delivers_new_run. Qed.
Print Assumptions c18_resume_delivers_new_run.

(* counting occurrences of the tag prefix in the text instead is wrong: a payload with the
   tag inside a string value counts twice and the first report of the resumed run is lost *)
Theorem c18_resume_count_tags_refuted :
  exists cs1 cs2, noise_ok (cs1 ++ cs2) = true /\ payloads_ok (cs1 ++ cs2) = true /\
    count_pre (render cs1) = 2%nat /\ length (payloads_of cs1) = 1%nat /\
    skipn (count_pre (render cs1)) (poll_model (render cs1 ++ render cs2)) = [] /\
    payloads_of cs2 <> [].
Proof. exact resume_count_tags_refuted. Qed.
Print Assumptions c18_resume_count_tags_refuted.

(* DESIGN's "rejected reports do not advance the counter" is FALSE of the code
   for reports rejected by serialisation: self.iter += 1 runs before
   _report_logger.  (The property itself only asks for strictly increasing.) *)
Theorem c18_counter_dense_refuted :
  exists evs, Forall dumps_shaped evs /\
    run_script MSG_UNSER MSG_LARGE reporter_init evs =
      (2%nat, [AssertionErr; Emitted 1], [Noise MSG_LARGE; Report [LBR; RBR]]).
Proof. exact counter_dense_refuted. Qed.
Print Assumptions c18_counter_dense_refuted.

From Coq Require Import String.
Local Open Scope string_scope.
(* ==== JSON layer (model/Report.v: jvalue, dumps = json.dumps with ensure_ascii and the
   default separators, loads; number tokens are opaque) ================================ *)

(* The "json.dumps facts" that c18_framing / c18_encoding_independent take as hypotheses
   are theorems of the modelled serialiser: for EVERY well-formed value (any nesting, any
   strings: tag, braces, quotes, backslashes, raw newlines, control characters, non-ASCII,
   lone surrogates) the serialisation is ASCII-only text without a raw newline, and that
   of a dictionary starts with "{" and ends with "}". *)
Theorem c18_dumps_shape :
  (forall v, jwf v = true -> clean (dumps v) = true) /\
  (forall kvs, jwf (JDict kvs) = true ->
     payload_shape_b (dumps (JDict kvs)) = true /\ ascii_text (dumps (JDict kvs)) = true).
Proof. split; [exact dumps_clean | exact dumps_dict_shape]. Qed.
Print Assumptions c18_dumps_shape.

Example c18_dumps_shape_example :
  let v := JDict [(codes "a}", JList [JStr (codes "[tune-metric]: {" ++ [10; 34; 92; 233; 128512; 55296; 0; 127])%list; JNull;
                                      JNum (codes "-1.5e+300"); JBool true; JDict []])] in
  jwf v = true /\ dumps v = codes "{""a}"": [""[tune-metric]: {\n\""\\\u00e9\ud83d\ude00\ud800\u0000\u007f"", null, -1.5e+300, true, {}]}"
  /\ loads (dumps v) = Some v.
Proof. vm_compute. repeat split. Qed.

(* String values come back unchanged: loads undoes dumps' escaping for EVERY string
   (code points 0..0x10FFFF) — the tag, braces, quotes, backslashes, newlines, control
   characters, non-ASCII and lone surrogates included — except that a high surrogate
   immediately followed by a low surrogate is joined by json.loads into one character (a
   property of the stdlib; excluded by no_surrogate_pair). *)
Theorem c18_string_roundtrip :
  (forall s rest fuel, forallb codepoint_ok s = true -> no_surrogate_pair s = true -> (List.length s < fuel)%nat ->
     parse_string_body fuel (body s ++ 34 :: rest)%list = Some (s, rest)) /\
  (forall s, forallb codepoint_ok s = true -> no_surrogate_pair s = true ->
     loads (dumps (JStr s)) = Some (JStr s)).
Proof. split; [exact parse_string_roundtrip | exact loads_dumps_str]. Qed.
Print Assumptions c18_string_roundtrip.

Example c18_string_roundtrip_example :
  let s := [34; 92; 10; 13; 9; 8; 12; 0; 31; 127; 233; 8232; 65535; 65536; 128512; 1114111; 55296; 97; 56320; 55296; 123; 125] in
  forallb codepoint_ok s = true /\ no_surrogate_pair s = true /\ loads (dumps (JStr s)) = Some (JStr s) /\
  (* the excluded case is really different: *)
  loads (dumps (JStr [55357; 56832])) = Some (JStr [128512]).
Proof. vm_compute. repeat split. Qed.

(* The Reporter on JSON values (fields it adds: st_worker_timestamp always, st_worker_time
   and st_worker_cost only with add_time, st_worker_iter = the counter; size =
   41 + number of characters of the ASCII payload, compared with 50000), the stream,
   LocalBackend's reading and retrieve composed — with NO hypothesis about json.dumps left:
   for every script with well-formed keyword arguments and clock tokens, every payload on
   the stream has the json shape and is ASCII-only, the counters are strictly increasing,
   the i-th payload is dumps (kwargs ++ reserved fields with the i-th counter) of a call
   with no None value, no st_ key and size below the limit, and (other output tag-free) the
   tuner parses exactly these payloads, in order, also when polling any prefix. *)
Theorem c18_reporter_concrete :
  forall add_time m1 m2 cevs k0, forallb cevent_ok cevs = true ->
    match run_script m1 m2 k0 (map (to_event add_time) cevs) with
    | (_, os, cs) =>
        payloads_ok cs = true /\ payloads_ascii cs = true /\
        StronglySorted lt (emitted_iters os) /\
        Forall2 (sent_concrete add_time cevs) (emitted_iters os) (payloads_of cs) /\
        (noise_ok cs = true ->
         retrieve_model (readlines (render cs)) = payloads_of cs /\
         forall n, poll_model (firstn n (render cs)) = delivered_upto cs n)
    end.
Proof. exact reporter_concrete. Qed.
Print Assumptions c18_reporter_concrete.

Example c18_reporter_concrete_example :
  let ck := {| ck_timestamp := codes "1790000000.25"; ck_time := codes "0.5"; ck_cost := None |} in
  let cevs := [CSay (codes "epoch 1 } [tune-metri");
               CCall ck [(codes "loss", JNum (codes "0.25")); (codes "note", JStr (codes "[tune-metric]: {}" ++ [10; 233])%list)];
               CCall ck [(codes "st_x", JNum (codes "1"))];
               CCall ck [(codes "x", JNull)];
               CCall ck [(codes "ok", JBool true)]] in
  forallb cevent_ok cevs = true /\
  let '(k', os, cs) := run_script MSG_UNSER MSG_LARGE reporter_init (map (to_event true) cevs) in
  noise_ok cs = true /\ os = [Emitted 0; AssertionErr; AssertionErr; Emitted 1] /\
  map loads (retrieve_model (readlines (render cs))) =
    [Some (report_dict true ck [(codes "loss", JNum (codes "0.25")); (codes "note", JStr (codes "[tune-metric]: {}" ++ [10; 233])%list)] 0);
     Some (report_dict true ck [(codes "ok", JBool true)] 1)].
Proof. vm_compute. repeat split. Qed.

(* Value-level round trip: for EVERY well-formed JSON value (lists and dicts of any depth and
   width, number tokens opaque, strings and keys without an adjacent high+low surrogate pair)
   the parser gives back the value and what follows it, and loads (dumps v) = Some v. *)
Theorem c18_json_roundtrip :
  (forall v, jwf v = true -> jnov v = true ->
     forall rest fuel, follow_ok rest = true -> (List.length (dumps v) < fuel)%nat ->
       parse_value fuel (dumps v ++ rest)%list = Some (v, rest)) /\
  (forall v, jwf v = true -> jnov v = true -> loads (dumps v) = Some v).
Proof. split; [exact parse_value_roundtrip | exact loads_dumps]. Qed.
Print Assumptions c18_json_roundtrip.

Example c18_json_roundtrip_example :
  let v := JDict [(codes "a", JList [JList []; JDict []; JList [JList [JNum (codes "-0.0"); JNum (codes "Infinity")]]]);
                  (codes "[tune-metric]: {", JDict [(codes "}", JStr (codes "]}" ++ [10; 34; 233; 55296])%list); (codes "", JNull)]);
                  (codes "b", JBool false)] in
  jwf v = true /\ jnov v = true /\ loads (dumps v) = Some v.
Proof. vm_compute. repeat split. Qed.

(* Every report the Reporter accepts arrives unchanged — a theorem about the modelled wire
   format end to end: Reporter on JSON values (report_dict) -> dumps -> the stream with other
   output -> readlines -> retrieve -> loads.  For every script with well-formed keyword
   arguments and clock tokens (strings without adjacent surrogate pair), either value of
   add_time, and tag-free other output: the tuner's parsed dictionaries are, in order, exactly
   the dictionaries the Reporter built for the accepted calls — the user's entries unchanged
   and in their order (every key of kwargs is a key of the dictionary), followed by the
   reserved fields with strictly increasing counter values; a call is accepted iff it has no
   None value, no st_ key and its ASCII payload is below the size limit. *)
Theorem c18_reports_arrive_unchanged :
  forall add_time m1 m2 cevs k0, forallb cevent_good cevs = true ->
    match run_script m1 m2 k0 (map (to_event add_time) cevs) with
    | (_, os, cs) =>
        noise_ok cs = true ->
        StronglySorted lt (emitted_iters os) /\
        exists ds, Forall2 (built_dict add_time cevs) (emitted_iters os) ds /\
                   map loads (retrieve_model (readlines (render cs))) = map Some ds
    end.
Proof. exact reports_arrive_unchanged. Qed.
Print Assumptions c18_reports_arrive_unchanged.

Example c18_reports_arrive_unchanged_example :
  let ck := {| ck_timestamp := codes "1790000000.25"; ck_time := codes "0.5"; ck_cost := Some (codes "1e-05") |} in
  let kw1 := [(codes "tag", JStr (codes "resnet-18")); (codes "note", JStr (codes "[tune-metric]: {}" ++ [10; 233])%list);
              (codes "m", JDict [(codes "self", JList [JNum (codes "NaN"); JNull])])] in
  let cevs := [CSay (codes "epoch 1 } [tune-metri"); CCall ck kw1; CCall ck [(codes "st_x", JNum (codes "1"))];
               CSay (codes "no newline"); CCall ck [(codes "ok", JBool true)]] in
  forallb cevent_good cevs = true /\
  let '(k', os, cs) := run_script MSG_UNSER MSG_LARGE reporter_init (map (to_event true) cevs) in
  noise_ok cs = true /\
  map loads (retrieve_model (readlines (render cs))) =
    [Some (JDict (kw1 ++ reserved_fields true ck 0)%list); Some (JDict ([(codes "ok", JBool true)] ++ reserved_fields true ck 1)%list)].
Proof. vm_compute. repeat split. Qed.

(* Several processes writing to ONE std.out one after the other (a trial that is paused and
   resumed; the counter belongs to one Reporter object and restarts at 0 in every process):
   for every list of scripts, each run by a fresh Reporter, with tag-free other output over
   the concatenation, retrieve of the concatenated streams yields the concatenation of the
   payloads of all processes — every report of every process, also when consecutive reports
   of different processes carry the same counter value; within a process the counters are
   strictly increasing. *)
Theorem c18_multi_process :
  forall add_time m1 m2 (scripts : list (list cevent)),
    forallb (forallb cevent_ok) scripts = true ->
    let outs := map (process_out add_time m1 m2) scripts in
    let css := map snd outs in
    noise_ok (List.concat css) = true ->
    retrieve_model (readlines (List.concat (map render css))) = List.concat (map payloads_of css) /\
    Forall (fun o => StronglySorted lt (emitted_iters (fst o))) outs.
Proof. exact multi_process. Qed.
Print Assumptions c18_multi_process.

Example c18_multi_process_example :
  let ck := {| ck_timestamp := codes "1790000000.25"; ck_time := codes "0.5"; ck_cost := None |} in
  let run1 := [CSay (codes "first run"); CSay [NL]; CCall ck [(codes "epoch", JNum (codes "1"))]] in
  let run2 := [CSay (codes "resumed"); CSay [NL]; CCall ck [(codes "epoch", JNum (codes "2"))]; CCall ck [(codes "epoch", JNum (codes "3"))]] in
  let outs := map (process_out true MSG_UNSER MSG_LARGE) [run1; run2] in
  map (fun o => emitted_iters (fst o)) outs = [[0]; [0; 1]]%nat /\     (* same counter value twice in a row *)
  noise_ok (List.concat (map snd outs)) = true /\
  List.length (retrieve_model (readlines (List.concat (map render (map snd outs))))) = 3%nat.
Proof. vm_compute. repeat split. Qed.

(* retrieve takes a LIST OF LINES; it must not matter whether the lines still carry their
   terminator (readlines) or not (str.splitlines(), rstrip, one log message per element):
   for EVERY text, retrieve over the lines with their newline removed finds what the regex
   finds in the text — hence, with c18_readlines_join_transparent, the same as over the
   keepends lines, and with c18_framing exactly the payloads of a valid stream. *)
Theorem c18_retrieve_line_terminators :
  forall t : list Z,
    retrieve_model (map strip_nl (readlines t)) = findall t /\
    retrieve_model (map strip_nl (readlines t)) = retrieve_model (readlines t).
Proof. intro t. split; [exact (retrieve_stripped_lines t) | rewrite retrieve_readlines; exact (retrieve_stripped_lines t)]. Qed.
Print Assumptions c18_retrieve_line_terminators.

Example c18_retrieve_line_terminators_example :
  let t := (codes "x[tune-metric]: {""a"": {""b"": 1}}" ++ [NL] ++ codes "noise }" ++ [NL] ++ codes "[tune-metric]: {""c"": 2}" ++ [NL])%list in
  map strip_nl (readlines t) = [codes "x[tune-metric]: {""a"": {""b"": 1}}"; codes "noise }"; codes "[tune-metric]: {""c"": 2}"] /\
  retrieve_model (map strip_nl (readlines t)) = [codes "{""a"": {""b"": 1}}"; codes "{""c"": 2}"] /\
  (* joined with nothing instead of a newline the greedy group runs to the last brace of the log *)
  findall (List.concat (map strip_nl (readlines t))) = [codes "{""a"": {""b"": 1}}noise }[tune-metric]: {""c"": 2}"].
Proof. vm_compute. repeat split. Qed.

(* non-vacuity: other output without newline on the same line as a report,
   braces in the other output, a payload containing the whole tag prefix and
   braces, a rejected report in between — hypotheses hold, result as stated *)
Example c18_example :
  let p1 := codes "{""a"": ""[tune-metric]: {}}"", ""st_worker_iter"": 0}" in
  let p2 := codes "{""b"": {""c"": [1, NaN]}, ""st_worker_iter"": 2}" in
  let evs := [Say (codes "epoch 1 } [tune-metri");
              Call {| rq_keys := [codes "a"]; rq_none := [false]; rq_dump := fun _ => Some (p1, 100) |};
              Say (codes "} trailing {"); Say [NL];
              Call {| rq_keys := [codes "st_x"]; rq_none := [false]; rq_dump := fun _ => Some (p1, 100) |};
              Call {| rq_keys := [codes "big"]; rq_none := [false]; rq_dump := fun _ => Some (p1, 60000) |};
              Call {| rq_keys := [codes "b"]; rq_none := [false]; rq_dump := fun _ => Some (p2, 90) |}] in
  let '(k', os, cs) := run_script MSG_UNSER MSG_LARGE reporter_init evs in
  noise_ok cs = true /\ payloads_ok cs = true /\
  os = [Emitted 0; AssertionErr; AssertionErr; Emitted 2] /\ k' = 3%nat /\
  retrieve_model (readlines (render cs)) = [p1; p2].
Proof. vm_compute. repeat split. Qed.
