(* C01 — Worker budget and legal trial life cycle in every tuning run.
   Only statements; every proof is [exact <lemma of proofs/TunerProofs.v>] (tiny glue allowed).
   Model: model/Tuner.v (tuning loop + generic TrialBackend bookkeeping); the scheduler, the
   workers ("world"), the poll order, the clock and the user criterion are ARBITRARY oracles [o]:
   every theorem is for all parameters - incl. BOTH settings of start_jobs_without_delay ([sjwd]),
   asynchronous_scheduling and wait_trial_completion_when_stopping -, all oracles and all fuel
   (= every prefix of every run). *)
From Verif Require Import model.Base model.Tuner proofs.TunerProofs proofs.TunerComposeProofs proofs.TunerPolledProofs.

(* --- budget ---------------------------------------------------------------
   At every loop-iteration boundary of every run (run_loop with any fuel stops at such a boundary
   or at the exit of the loop): the running set is duplicate-free, holds at most n_workers trials,
   and every trial whose worker is active in the backend (InProgress/Stopping) is in it; the
   `assert len(running_trials_ids) <= self.n_workers` of the code never fires. *)
Theorem c01_budget :
  forall prm o fuel st x, run_loop prm o fuel = (st, x) ->
    (NoDup (s_running st) /\ (length (s_running st) <= n_workers prm)%nat /\
     (forall t, (t < s_ntrials st)%nat -> active (b_w (s_bt st t)) = true -> In t (s_running st))) /\
    x <> LExit (Some EAssertBudget).
Proof. exact run_loop_budget. Qed.
Print Assumptions c01_budget.

(* ... and between the atomic steps inside an iteration, i.e. at every backend call: the invariant
   [binv] (the conjunction above) is preserved by the poll (fetch_status_results), by the handling of
   every single result (incl. backend.stop_trial / pause_trial), by every status notification, and
   by every start_trial / resume_trial, which is only reached with a free worker. *)
Theorem c01_budget_every_backend_call :
  forall prm o,
  (forall order st st' sd rs, fetch o order st = (st', sd, rs) -> binv prm st -> binv prm st') /\
  (forall sd st done r st' done', result_step o sd (st, done) r = (st', done') -> binv prm st -> binv prm st') /\
  (forall st done err e st' done' err', status_step (st, done, err) e = (st', done', err') -> binv prm st -> binv prm st') /\
  (forall st st' r, schedule_new_task o st = (st', r) -> binv prm st ->
     (length (s_running st) < n_workers prm)%nat -> binv prm st').
Proof. exact budget_steps. Qed.
Print Assumptions c01_budget_every_backend_call.

Theorem c01_budget_free_worker_at_every_start :
  forall prm o k st, (length (s_running st) + k <= n_workers prm)%nat -> binv prm st ->
  forall j st1 r1, (j < k)%nat -> schedule_k o j st = (st1, r1) -> r1 = SOk ->
    (length (s_running st1) < n_workers prm)%nat.
Proof. exact schedule_k_free. Qed.
Print Assumptions c01_budget_free_worker_at_every_start.

(* --- ids -------------------------------------------------------------------
   [ids_ok] (proofs/TunerProofs.v): every EBStart event carries the number of EBStart events
   before it, every ESSuggest is asked for exactly that number; len(trial_ids) equals it. Hence suggest is always
   called with the id the backend will issue next; a resume consumes no id, and neither does a start that fails
   half-way (model [failed_start]: copy_checkpoint raised inside start_trial, nothing registered). *)
Theorem c01_ids :
  forall prm o fuel st x, run_loop prm o fuel = (st, x) ->
    ids_ok (s_trace st) /\ s_ntrials st = count_starts (s_trace st).
Proof. exact run_loop_idinv. Qed.
Print Assumptions c01_ids.

Theorem c01_assert_never_fires :
  forall prm o fuel st out, run prm o fuel = (st, out) -> out <> Raised EAssertBudget.
Proof. exact run_outcome_not_assert. Qed.
Print Assumptions c01_assert_never_fires.

(* --- life cycle --------------------------------------------------------------
   For every trial t, the events of the trace that concern t (backend.start_trial, scheduler.on_trial_add,
   on_trial_result with its decision, backend.stop_trial / pause_trial, on_trial_remove, on_trial_complete,
   on_trial_error, backend.resume_trial — [tev_of]) are accepted by the automaton [pstep]:
     not started -start-> -add-> RUNNING -result CONTINUE-> RUNNING
     RUNNING -result STOP-> [-backend stop->] -remove-> ENDED        RUNNING -complete-> ENDED
     RUNNING -result PAUSE-> -backend pause-> -remove-> PAUSED       RUNNING -error-> ENDED
     PAUSED -resume-> RUNNING                                        everything else -> PBad.
   [phase_of t tr = PBad] iff some prefix of the per-trial projection is rejected.  Holds for the trace up
   to every iteration boundary / loop exit of every run (the finally block only adds stop_all's stops). *)
Theorem c01_lifecycle :
  forall prm o fuel st x, run_loop prm o fuel = (st, x) -> forall t, phase_of t (s_trace st) <> PBad.
Proof. exact run_loop_life. Qed.
Print Assumptions c01_lifecycle.

(* only a paused trial is ever resumed: backend.resume_trial (event EBResume) is issued exactly when
   the backend's record of the trial says Paused; for any other suggestion to resume, the run ends
   with the backend's assertion error (model outcome EResumeNotPaused / EResumeUnknown) and nothing is resumed.
   (The scheduler is an arbitrary oracle here, so the second disjunct cannot be dropped at this layer.) *)
Theorem c01_resume_only_paused :
  forall o st st' r id cfg,
  o_sug o (s_ns st) = SResume id cfg -> schedule_new_task o st = (st', r) ->
  ((id < s_ntrials st)%nat /\ b_td (s_bt st id) = Paused /\ r = SOk /\
   s_trace st' = ECbResume id :: EBResume id cfg :: ESSuggest (s_ntrials st) (SResume id cfg) :: s_trace st) \/
  ((r = SErr (EResumeNotPaused id) \/ r = SErr (EResumeUnknown id)) /\
   ((id < s_ntrials st)%nat -> b_td (s_bt st id) <> Paused) /\
   s_trace st' = ESSuggest (s_ntrials st) (SResume id cfg) :: s_trace st).
Proof. exact resume_only_paused. Qed.
Print Assumptions c01_resume_only_paused.

(* --- only a paused trial is ever resumed, WITHOUT the disjunct, for disciplined schedulers -------------
   [sview t tr] (proofs/TunerComposeProofs.v) is the scheduler's own view of trial t computed from the calls it
   received and the answers it gave; discipline [Dok tr]: every suggestion "Resume t" is made while the
   scheduler's answer to the last delivered result of t was PAUSE and it has not asked to resume t since
   (never for a trial it answered STOP for, was told completed / failed, or does not know).
   INTERFACE THEOREM: for EVERY scheduler oracle whose answers satisfy the discipline along the run, run() never
   ends with the backend's resume assertions (EResumeNotPaused / EResumeUnknown); together with
   c01_resume_only_paused every backend.resume_trial then hits a record that says Paused.
   The scenario of known finding F-C13-1 (the poll that delivers the result answered with PAUSE already shows the
   trial Failed) is NOT excluded by the discipline and does not break the conclusion: pause_trial writes Paused into
   the backend record, so the later resume passes the backend's check although the job had failed - see
   [c01_discipline_example_failed_then_resumed] below; that a failed trial is resumed is C13's finding, not a breach
   of "only a paused trial is resumed" as the backend can observe it. *)
Theorem c01_resume_discipline :
  forall prm o fuel st x, run_loop prm o fuel = (st, x) -> Dok (s_trace st) ->
    ~ exists t, x = LExit (Some (EResumeNotPaused t)) \/ x = LExit (Some (EResumeUnknown t)).
Proof. exact run_loop_discipline. Qed.
Print Assumptions c01_resume_discipline.

Theorem c01_resume_discipline_run :
  forall prm o fuel st out, run prm o fuel = (st, out) -> Dok (s_trace st) ->
    forall t, out <> Raised (EResumeNotPaused t) /\ out <> Raised (EResumeUnknown t).
Proof. exact run_discipline. Qed.
Print Assumptions c01_resume_discipline_run.

(* the boolean checker of the discipline that the driver evaluates on traces of REAL schedulers *)
Theorem c01_discipline_checker_sound : forall tr, dok_b tr = true <-> Dok tr.
Proof. exact dok_b_sound. Qed.
Print Assumptions c01_discipline_checker_sound.

(* --- scheduler notifications ---------------------------------------------------
   (1) order and multiplicity per trial run: the automaton of c01_lifecycle restricted to the scheduler's
       methods says: on_trial_add directly follows the start (no other event of that trial in between),
       then on_trial_result*, then exactly one of on_trial_remove (after the scheduler's own STOP/PAUSE) /
       on_trial_complete / on_trial_error, then nothing for that trial unless it is resumed from PAUSED.
   (2) which results: within one poll, the on_trial_result calls are exactly the results the backend
       returned, in that order, except that results of a trial following its own STOP/PAUSE in the same
       batch are dropped ([told] is this specification; [sres] lists the calls in the trace). *)
Theorem c01_callbacks :
  (forall prm o fuel st x, run_loop prm o fuel = (st, x) -> forall t, phase_of t (s_trace st) <> PBad) /\
  (forall o sd rs st st' done', loop1 o sd rs st [] = (st', done') ->
     sres (s_trace st') = sres (s_trace st) ++ told o (s_nd st) [] rs).
Proof.
  split; [exact run_loop_life|]. intros o sd rs st st' done' H.
  exact (loop1_told o sd rs st [] st' done' [] H (fun x => eq_refl)).
Qed.
Print Assumptions c01_callbacks.

(* --- non-vacuity: a concrete run (2 workers) in which trial 0 reports, is paused, resumed, and completes,
   trial 1 fails, trial 2 is stopped by the scheduler; all phases legal, budget respected. *)
Definition ex_oracles : oracles :=
  {| o_world := fun n => nth n [([{| r_metric := 1; r_cost := 1; r_ts := 1 |}], WInProgress); ([], WFailed);
                               ([{| r_metric := 2; r_cost := 1; r_ts := 2 |}], WInProgress);
                               ([{| r_metric := 3; r_cost := 1; r_ts := 3 |}], WCompleted)]%Q ([], WInProgress);
     o_ord := fun n => nth n [[]; [0; 1]; [2; 0]]%nat [];
     o_dec := fun n => nth n [PAUSE; STOP; CONTINUE] CONTINUE;
     o_sug := fun n => nth n [SStart 5 None; SStart 6 None; SStart 7 (Some 0%nat); SResume 0 None; SNothing] SNothing;
     o_clk := fun _ => 0%Q; o_ext := fun n => Nat.leb 5 n |}.
Definition ex_params : params :=
  {| n_workers := 2; async := true; wait_completion := false; max_failures := 3; sjwd := true; c_wallclock := None; c_evals := None;
     c_started := None; c_completed := None; c_finished := None; c_cost := None; c_min_metric := None; c_max_metric := None |}.
Example c01_example :
  let '(st, x) := run_loop ex_params ex_oracles 10 in
  x = LExit None /\ s_ntrials st = 3%nat /\
  map (fun t => phase_of t (s_trace st)) [0; 1; 2; 3]%nat = [PE; PE; PE; PN] /\
  existsb (fun e => match e with EBResume 0 None => true | _ => false end) (s_trace st) = true /\
  s_smap st = [(0, Completed); (1, Failed); (2, Stopped)]%nat.
Proof. vm_compute. repeat split. Qed.

(* non-vacuity of the discipline theorem, and the F-C13-1 scenario inside the model: trial 0 is shown Failed by
   the poll that delivers its first report, the scheduler answers PAUSE, later suggests to resume it: the
   discipline holds, the resume is issued (backend record Paused), the status map had said Failed. *)
Definition ex_f_oracles : oracles :=
  {| o_world := fun n => nth n [([{| r_metric := 1; r_cost := 1; r_ts := 1 |}], WFailed)]%Q ([], WInProgress);
     o_ord := fun n => nth n [[]; [0]]%nat [];
     o_dec := fun n => nth n [PAUSE] CONTINUE;
     o_sug := fun n => nth n [SStart 5 None; SResume 0 None] SNothing;
     o_clk := fun _ => 0%Q; o_ext := fun n => Nat.leb 3 n |}.
Definition ex_f_params : params :=
  {| n_workers := 1; async := true; wait_completion := false; max_failures := 3; sjwd := true; c_wallclock := None; c_evals := None;
     c_started := None; c_completed := None; c_finished := None; c_cost := None; c_min_metric := None; c_max_metric := None |}.
Example c01_discipline_example_failed_then_resumed :
  let '(st, x) := run_loop ex_f_params ex_f_oracles 10 in
  x = LExit None /\ dok_b (s_trace st) = true /\
  existsb (fun e => match e with ECbResult 0 Failed 0 PAUSE => true | _ => false end) (s_trace st) = true /\
  existsb (fun e => match e with EBResume 0 None => true | _ => false end) (s_trace st) = true.
Proof. vm_compute. repeat split. Qed.

(* --- every started trial stays in the polled set until the loop observed the end of its run ---------------
   At every iteration boundary and at every exit of the loop without exception, for BOTH settings of
   start_jobs_without_delay (params field [sjwd]; False: /repo 1516ffc): a trial whose per-trial projection is in
   the phase running/reporting (started or resumed, end of the run not yet told to the scheduler) is in
   running_trials_ids, and the next poll lists it ([poll_order] always covers the running set).
   This is the statement the code BEFORE 1516ffc violated for start_jobs_without_delay=False (F-C02-2: the local
   name running_trials_ids was rebound, trials started in that call were never polled). *)
Theorem c01_started_trials_stay_polled :
  forall prm o fuel st x, run_loop prm o fuel = (st, x) -> x = LFuel \/ x = LExit None ->
    forall t, phase_of t (s_trace st) = PR ->
      In t (s_running st) /\ In t (poll_order (s_running st) (o_ord o (s_np st))).
Proof.
  intros prm o fuel st x H Hx t Ht.
  destruct (proj2 (run_loop_polled prm o fuel st x H) Hx) as (_ & _ & HR).
  split; [apply HR; exact Ht|apply poll_lists_running; apply HR; exact Ht].
Qed.
Print Assumptions c01_started_trials_stay_polled.

(* regression example for F-C02-2 (input of findings/C01-sjwd-false-started-trial-never-polled.json), with
   start_jobs_without_delay=False: the backend reports one busy trial while two are listed as running; the code now
   counts max(1, 2) = 2 busy workers and sleeps; every trial that is started is polled. *)
Definition ex_b_oracles : oracles :=
  {| o_world := fun n => nth n [([], WInProgress); ([], WInProgress);
                               ([{| r_metric := 1; r_cost := 1 # 2; r_ts := 4 |}], WCompleted); ([], WInProgress)]%Q ([], WInProgress);
     o_ord := fun n => nth n [[]; [0; 1]; [0; 1]; [1]; [1]]%nat [];
     o_dec := fun _ => CONTINUE;
     o_sug := fun n => nth n [SStart 1 None; SStart 2 None; SStart 3 None] SNothing;
     o_clk := fun _ => 0%Q; o_ext := fun n => Nat.leb 5 n |}.
Definition ex_b_params : params :=
  {| n_workers := 2; async := true; wait_completion := false; max_failures := 3; sjwd := false; c_wallclock := None;
     c_evals := None; c_started := None; c_completed := None; c_finished := None; c_cost := None; c_min_metric := None;
     c_max_metric := None |}.
Example c01_example_start_jobs_with_delay :
  let '(st, out) := run ex_b_params ex_b_oracles 10 in
  out = Normal /\
  existsb (fun e => match e with EBBusy [1%nat] => true | _ => false end) (s_trace st) = true /\
  forallb (fun e => match e with
                    | EBStart t _ _ => existsb (fun e' => match e' with EBFetch l => mem_nat t l | _ => false end) (s_trace st)
                    | _ => true end) (s_trace st) = true.
Proof. vm_compute. repeat split. Qed.
