(* C01 — Worker budget and legal trial life cycle in every tuning run.
   Only statements; every proof is [exact <lemma of proofs/TunerProofs.v>] (tiny glue allowed).
   Model: model/Tuner.v (tuning loop + generic TrialBackend bookkeeping); the scheduler, the
   workers ("world"), the poll order, the clock and the user criterion are ARBITRARY oracles [o]:
   every theorem is for all parameters, all oracles and all fuel (= every prefix of every run). *)
From Verif Require Import model.Base model.Tuner proofs.TunerProofs.

(* --- budget ---------------------------------------------------------------
   At every loop-iteration boundary of every run (run_loop with any fuel stops at such a boundary
   or at the exit of the loop): the running set is duplicate-free, holds at most n_workers trials,
   and every trial whose worker is active in the backend (InProgress/Stopping) is in it; the
   `assert len(running_trials_ids) <= self.n_workers` of the code never fires. *)
Theorem c01_budget :
  forall prm o fuel st x, run_loop prm o fuel = (st, x) ->
    (NoDup (s_running st) /\ (length (s_running st) <= n_workers prm)%nat /\
     (forall t, (t < s_ntrials st)%nat -> active (b_w (s_bt st t)) = true -> In t (s_running st))) /\
    x <> LExit (Some EAssertBudget).
Proof. exact run_loop_budget. Qed.
Print Assumptions c01_budget.

(* ... and between the atomic steps inside an iteration, i.e. at every backend call: the invariant
   [binv] (the conjunction above) is preserved by the poll (fetch_status_results), by the handling of
   every single result (incl. backend.stop_trial / pause_trial), by every status notification, and
   by every start_trial / resume_trial, which is only reached with a free worker. *)
Theorem c01_budget_every_backend_call :
  forall prm o,
  (forall order st st' sd rs, fetch o order st = (st', sd, rs) -> binv prm st -> binv prm st') /\
  (forall sd st done r st' done', result_step o sd (st, done) r = (st', done') -> binv prm st -> binv prm st') /\
  (forall st done err e st' done' err', status_step (st, done, err) e = (st', done', err') -> binv prm st -> binv prm st') /\
  (forall st st' r, schedule_new_task o st = (st', r) -> binv prm st ->
     (length (s_running st) < n_workers prm)%nat -> binv prm st').
Proof. exact budget_steps. Qed.
Print Assumptions c01_budget_every_backend_call.

Theorem c01_budget_free_worker_at_every_start :
  forall prm o k st, (length (s_running st) + k <= n_workers prm)%nat -> binv prm st ->
  forall j st1 r1, (j < k)%nat -> schedule_k o j st = (st1, r1) -> r1 = SOk ->
    (length (s_running st1) < n_workers prm)%nat.
Proof. exact schedule_k_free. Qed.
Print Assumptions c01_budget_free_worker_at_every_start.

(* --- ids -------------------------------------------------------------------
   [ids_ok] (proofs/TunerProofs.v): every EBStart event carries the number of EBStart events
   before it, every ESSuggest is asked for exactly that number; len(trial_ids) equals it. *)
Theorem c01_ids :
  forall prm o fuel st x, run_loop prm o fuel = (st, x) ->
    ids_ok (s_trace st) /\ s_ntrials st = count_starts (s_trace st).
Proof. exact run_loop_idinv. Qed.
Print Assumptions c01_ids.
