(* C06 — Suggestions are valid, typed configurations; initial points first; no repeats.
   Only statements; proofs are [exact]/tiny glue over proofs/SearcherProofs.v.
   Conventions: a configuration [C] is the tuple of its hyperparameter values ([=] is Python
   equality of the tuples, decided by [ceqb]); [ms] is config_to_match_string; random draws are
   an arbitrary input stream; a history is an arbitrary list of events. *)
From Verif Require Import model.Base model.Searcher proofs.SearcherProofs.

(* --- scheduler layer: TrialScheduler._postprocess_config ----------------------------------
   For EVERY configuration [cfg] a searcher hands over: the suggestion has exactly the keys of
   the configuration space (in its order); a constant keeps its value (searchers either omit
   constants or echo them); a hyperparameter the searcher supplied is cast and stays a member
   ([valid], [cast] maps members to members: the Domain facts of C07). *)
Theorem c06_keys_and_constants :
  forall (K V D : Type) (keqb : K -> K -> bool) (cast : D -> V -> V) (valid : D -> V -> Prop),
  (forall a b, keqb a b = true <-> a = b) ->
  (forall d v, valid d v -> valid d (cast d v)) ->
  forall (space : list (K * entry V D)) (cfg : list (K * V)), NoDup (map fst space) ->
  let out := postprocess_config K V D keqb cast cfg space in
  map fst out = map fst space /\
  (forall k v, In (k, EConst v) space ->
     lookupK K keqb k cfg = None \/ lookupK K keqb k cfg = Some v ->
     lookupK K keqb k out = Some (OVal v)) /\
  (forall k d v, In (k, EDom d) space -> lookupK K keqb k cfg = Some v -> valid d v ->
     lookupK K keqb k out = Some (OVal (cast d v)) /\ valid d (cast d v)).
Proof.
  intros K V D keqb cast valid Hk Hcast space cfg Hnd out. split; [|split].
  - apply postprocess_keys.
  - intros k v Hin Hc. unfold out. rewrite (postprocess_lookup K V D keqb cast Hk cfg space k _ Hnd Hin).
    destruct Hc as [-> | ->]; reflexivity.
  - intros k d v Hin Hc Hv. unfold out. rewrite (postprocess_lookup K V D keqb cast Hk cfg space k _ Hnd Hin).
    rewrite Hc. split; [reflexivity | apply Hcast; exact Hv].
Qed.
Print Assumptions c06_keys_and_constants.

(* a hyperparameter the searcher did NOT supply would surface as the Domain object itself
   (the model keeps this case visible; the searcher theorems below show every searcher
   returns complete configurations because it returns initial points, draws or grid points) *)
Theorem c06_missing_key_is_domain_object :
  forall (K V D : Type) (keqb : K -> K -> bool) (cast : D -> V -> V),
  (forall a b, keqb a b = true <-> a = b) ->
  forall space cfg k d, NoDup (map fst space) -> In (k, EDom d) space -> lookupK K keqb k cfg = None ->
  lookupK K keqb k (postprocess_config K V D keqb cast cfg space) = Some (ODomObj d).
Proof.
  intros K V D keqb cast Hk space cfg k d Hnd Hin Hc.
  rewrite (postprocess_lookup K V D keqb cast Hk cfg space k _ Hnd Hin). rewrite Hc. reflexivity.
Qed.
Print Assumptions c06_missing_key_is_domain_object.

(* TrialScheduler.suggest applies the post-processing to EVERY suggestion that carries a
   configuration: a new trial's and a resumed (promoted) trial's, whose configuration replaces
   the trial's configuration in the backend. For a promotion under max_resource_attr the
   scheduler hands the stored searcher configuration [cfg] (no constants) plus the next
   milestone under the key [mra] (a constant of the space): the suggested configuration has
   exactly the keys of the space, every other constant unchanged, [mra] = the milestone,
   supplied hyperparameters cast and members. *)
Theorem c06_suggest_postprocesses_new_and_resumed :
  forall (K V D : Type) (keqb : K -> K -> bool) (cast : D -> V -> V) (valid : D -> V -> Prop),
  (forall a b, keqb a b = true <-> a = b) ->
  (forall d v, valid d v -> valid d (cast d v)) ->
  forall (space : list (K * entry V D)), NoDup (map fst space) ->
  forall (g : suggestion K V) (cfg : list (K * V)), sg_config K V g = Some cfg ->
  exists o out,
    ts_suggest K V D keqb cast space (Some g) = Some o /\ so_config K V D o = Some out /\
    so_spawn_new K V D o = sg_spawn_new K V g /\ so_checkpoint K V D o = sg_checkpoint K V g /\
    map fst out = map fst space /\
    (forall k v, In (k, EConst v) space ->
       lookupK K keqb k cfg = None \/ lookupK K keqb k cfg = Some v -> lookupK K keqb k out = Some (OVal v)) /\
    (forall k d v, In (k, EDom d) space -> lookupK K keqb k cfg = Some v -> valid d v ->
       lookupK K keqb k out = Some (OVal (cast d v)) /\ valid d (cast d v)).
Proof.
  intros K V D keqb cast valid Hk Hcast space Hnd g cfg Hg.
  destruct (ts_suggest_config K V D keqb cast space g cfg Hg) as (o & H1 & H2 & H3 & H4).
  exists o, (postprocess_config K V D keqb cast cfg space).
  destruct (c06_keys_and_constants K V D keqb cast valid Hk Hcast space cfg Hnd) as (A & B & Cc).
  split; [exact H1|]. split; [exact H2|]. split; [exact H3|]. split; [exact H4|].
  split; [exact A|]. split; [exact B | exact Cc].
Qed.
Print Assumptions c06_suggest_postprocesses_new_and_resumed.

Theorem c06_resume_suggestion_with_milestone :
  forall (K V D : Type) (keqb : K -> K -> bool) (cast : D -> V -> V),
  (forall a b, keqb a b = true <-> a = b) ->
  forall (space : list (K * entry V D)) (cfg : list (K * V)) (mra : K) (maxv milestone : V),
  NoDup (map fst space) -> In (mra, EConst maxv) space ->
  let out := postprocess_config K V D keqb cast (with_milestone K V keqb cfg mra milestone) space in
  map fst out = map fst space /\
  lookupK K keqb mra out = Some (OVal milestone) /\
  (forall k v, In (k, EConst v) space -> k <> mra -> lookupK K keqb k cfg = None ->
     lookupK K keqb k out = Some (OVal v)) /\
  (forall k d v, In (k, EDom d) space -> lookupK K keqb k cfg = Some v ->
     lookupK K keqb k out = Some (OVal (cast d v))).
Proof.
  intros K V D keqb cast Hk space cfg mra maxv m Hnd Hin out. split; [apply postprocess_keys|].
  assert (Hneq : forall a b, a <> b -> keqb a b = false).
  { intros a b H. destruct (keqb a b) eqn:E; [apply Hk in E; contradiction | reflexivity]. }
  split; [|split].
  - unfold out. rewrite (postprocess_lookup K V D keqb cast Hk _ space mra _ Hnd Hin).
    rewrite (lookupK_with_milestone K V keqb Hk). rewrite (proj2 (Hk mra mra) eq_refl). reflexivity.
  - intros k v Hc Hne Hl. unfold out. rewrite (postprocess_lookup K V D keqb cast Hk _ space k _ Hnd Hc).
    rewrite (lookupK_with_milestone K V keqb Hk), (Hneq k mra Hne), Hl. reflexivity.
  - intros k d v Hd Hl. unfold out. rewrite (postprocess_lookup K V D keqb cast Hk _ space k _ Hnd Hd).
    rewrite (lookupK_with_milestone K V keqb Hk).
    assert (Hne : k <> mra).
    { intros ->. assert (E : EDom d = EConst maxv); [|discriminate].
      assert (H1 := lookupK_In_NoDup K keqb Hk mra (EDom d) space Hnd Hd).
      assert (H2 := lookupK_In_NoDup K keqb Hk mra (EConst maxv) space Hnd Hin). congruence. }
    rewrite (Hneq k mra Hne), Hl. reflexivity.
Qed.
Print Assumptions c06_resume_suggestion_with_milestone.

(* --- initial points ------------------------------------------------------------------------
   impute_points_to_evaluate: duplicate-free, same elements as the imputed user list
   (None = one default configuration); RandomSearcher and GridSearcher: for EVERY history
   the first suggestions are exactly these points, in the given order. *)
Theorem c06_initial_points_imputed_dedup :
  forall (C : Type) (ceqb : C -> C -> bool), (forall a b, ceqb a b = true <-> a = b) ->
  forall (P : Type) (imp : P -> C) (dflt : P) (pts : option (list P)),
    NoDup (impute_points C ceqb imp dflt pts) /\
    forall x, In x (impute_points C ceqb imp dflt pts) <->
              In x (map imp (match pts with None => [dflt] | Some l => l end)).
Proof.
  intros C ceqb Hc P imp dflt pts. split.
  - apply (impute_points_NoDup C unit ceqb (fun _ => tt) Hc).
  - apply (impute_points_In C unit ceqb (fun _ => tt) Hc).
Qed.
Print Assumptions c06_initial_points_imputed_dedup.

Theorem c06_initial_first_random :
  forall (C M : Type) (meqb : M -> M -> bool) (ms : C -> M)
         (init : list C) dl allow_dup size retries s (history : list (rs_event C)),
  rs_ctor C M meqb ms init dl allow_dup None size retries = Ok s ->
  let o := snd (rs_run C M meqb ms s history) in
  firstn (length init) o = map (ok_some C) (firstn (length o) init).
Proof.
  intros C M meqb ms init dl ad sz rt s es Hc o.
  pose proof (rs_initial_first C M meqb ms es s) as H.
  apply rs_ctor_p2e in Hc as (Hp & _). rewrite Hp in H. exact H.
Qed.
Print Assumptions c06_initial_first_random.

Theorem c06_initial_first_grid :
  forall (C M : Type) (meqb : M -> M -> bool) (ms : C -> M) (Seed : Type)
         base (shuffle : Seed -> list C -> list C) (init : list C) seed sh allow_dup (history : list gs_event),
  let o := snd (gs_run C M meqb ms (gs_ctor C M base shuffle init seed sh allow_dup) history) in
  firstn (length init) o = map Some (firstn (length o) init).
Proof.
  intros C M meqb ms Seed base shuffle init seed sh ad es.
  exact (rs_ctor_grid_initial_first C M meqb ms es (gs_ctor C M base shuffle init seed sh ad)).
Qed.
Print Assumptions c06_initial_first_grid.

(* --- no repeats ------------------------------------------------------------------------------
   RandomSearcher, allow_duplicates = False: for every history (get_config with any draws,
   register_pending, evaluation_failed, update in any order) the suggested configurations are
   pairwise different, and every suggestion that is not an initial point has a match string
   different from the match strings of ALL earlier suggestions. *)
Theorem c06_no_repeat :
  forall (C M : Type) (ceqb : C -> C -> bool) (meqb : M -> M -> bool) (ms : C -> M),
  (forall a b, meqb a b = true <-> a = b) ->
  forall (init : list C) dl size retries s (history : list (rs_event C)),
  NoDup init -> rs_ctor C M meqb ms init dl false None size retries = Ok s ->
  let outs := suggested C (snd (rs_run C M meqb ms s history)) in
  NoDup outs /\
  forall pre c post, outs = pre ++ c :: post -> In c init \/ ~ In (ms c) (map ms pre).
Proof.
  intros C M ceqb meqb ms Hm init dl sz rt s es Hnd Hc.
  exact (rs_no_repeat C M meqb ms Hm init dl sz rt s es Hnd Hc).
Qed.
Print Assumptions c06_no_repeat.

(* Model-based searchers (GP): in EVERY state (hence after every history), a suggestion made
   after the initial points — drawn at random or chosen by Bayesian optimisation with an
   ARBITRARY candidate ranking and ARBITRARY local optimiser — never has the match string of a
   pending or failed trial, nor (allow_duplicates = False) of an observed one. *)
Theorem c06_no_repeat_model_based :
  forall (C M : Type) (meqb : M -> M -> bool) (ms : C -> M),
  (forall a b, meqb a b = true <-> a = b) ->
  forall (s s' : mb_state C M) ds (cands : list C) (opt : C -> C) c ds',
  mb_p2e C M s = [] ->
  mb_get_config C M meqb ms s ds cands opt = Ok (s', Some c, ds') ->
  ~ In (ms c) (tj_excl C M meqb ms (mb_tj C M s) true) /\
  (mb_allow_dup C M s = false -> ~ In (ms c) (tj_excl C M meqb ms (mb_tj C M s) false)).
Proof. intros C M meqb ms Hm. exact (mb_suggestion_not_excluded C M meqb ms Hm). Qed.
Print Assumptions c06_no_repeat_model_based.

(* GP searcher behind FIFOScheduler: initial points first, for EVERY history (new trial ids) *)
Theorem c06_initial_first_model_based :
  forall (C M : Type) (meqb : M -> M -> bool) (ms : C -> M),
  (forall a b, meqb a b = true <-> a = b) ->
  forall (init : list C) num_init allow_dup size retries outer (history : list (mb_event C)),
  let s := mb_ctor C M init num_init allow_dup size retries outer in
  mb_new_ids C M meqb ms s history ->
  let o := snd (mb_run C M meqb ms s history) in
  firstn (length init) o = map (ok_some C) (firstn (length o) init).
Proof.
  intros C M meqb ms Hm init ni ad sz rt outer es s Hids.
  exact (mb_initial_first C M meqb ms es s Hids).
Qed.
Print Assumptions c06_initial_first_model_based.

(* get_batch_configs (batch_size > 1) of the GP searcher, in EVERY state, for every draw stream and every
   per-iteration ranking / local optimiser: the batch is a prefix I of the remaining initial points followed by
   members R chosen at random or by the model; the members of R have pairwise different match strings, none is
   that of a pending / failed / (observed) configuration, and none is that of an initial point placed into the
   same batch (the batch-local exclusion list grows with EVERY member, whatever allow_duplicates says) *)
Theorem c06_batch_no_repeat :
  forall (C M : Type) (meqb : M -> M -> bool) (ms : C -> M),
  (forall a b, meqb a b = true <-> a = b) ->
  forall (s s' : mb_state C M) batch_size ds (oracles : list (list C * (C -> C))) batch,
  mb_get_batch C M meqb ms s batch_size ds oracles = Ok (s', batch) ->
  exists I R, batch = I ++ R /\ I = firstn (length I) (mb_p2e C M s) /\
    NoDup (map ms R) /\
    forall c, In c R -> ~ In (ms c) (tj_excl C M meqb ms (mb_tj C M s) (mb_allow_dup C M s)) /\
                        ~ In (ms c) (map ms I).
Proof. intros C M meqb ms Hm. exact (mb_get_batch_spec C M meqb ms Hm). Qed.
Print Assumptions c06_batch_no_repeat.

Example c06_example_batch :
  let idf := fun c : nat => c in
  let s := mb_ctor nat nat [7%nat] 3 false (Some 5%nat) 100 50 in
  (* one initial point left, then a random draw (7 is rejected: already in the batch), then nothing observed -> random again *)
  exists s', mb_get_batch nat nat Nat.eqb idf s 3 [DCfg 7%nat; DCfg 2%nat; DCfg 2%nat; DCfg 4%nat] [] = Ok (s', [7; 2; 4]%nat).
Proof. eexists. vm_compute. reflexivity. Qed.

(* restrict_configurations (RandomSearcher), in EVERY state with the initial points used up (hence
   after every history): a suggestion is a member of the restricted list and not excluded; the
   answer None means the restricted list is empty, or MAX_RETRIES consecutive position draws all
   pointed at excluded entries. (That the searcher works on its own copy of the caller's list is an
   object-identity fact, checked on the real classes by the driver's shared-list cases.) *)
Theorem c06_restrict_configurations_step :
  forall (C M : Type) (meqb : M -> M -> bool) (ms : C -> M),
  (forall a b, meqb a b = true <-> a = b) ->
  forall (s s' : rs_state C M) rc ds oc ds',
  rs_p2e C M s = [] -> rs_restrict C M s = Some rc ->
  rs_get_config C M meqb ms s ds = Ok (s', oc, ds') ->
  match oc with
  | Some c => In c rc /\ ~ In (ms c) (rs_excl C M s)
  | None => rc = [] \/
            exists ps, ds = map (@DPos C) ps ++ ds' /\ length ps = rs_retries C M s /\
                       forall p, In p ps -> exists c, nth_error rc p = Some c /\ In (ms c) (rs_excl C M s)
  end.
Proof. intros C M meqb ms Hm. exact (rs_restrict_get_config C M meqb ms Hm). Qed.
Print Assumptions c06_restrict_configurations_step.

Example c06_example_restrict :
  exists s, rs_ctor nat nat Nat.eqb (fun c => c) [] (DLBool false) false (Some [4; 6]%nat) (Some 9%nat) 3 = Ok s /\
    snd (rs_run nat nat Nat.eqb (fun c => c) s [RGet nat [DPos 1]; RGet nat [DPos 0]; RGet nat []])
    = [Ok (Some 6%nat); Ok (Some 4%nat); Ok None].
Proof. eexists. split; reflexivity. Qed.

(* Run level, for EVERY history of the GP searcher behind FIFOScheduler (suggestions with new
   trial ids, finite results, NaN / infinite results, failures, in any order, any draws, any
   candidate ranking and local optimiser per suggestion), allow_duplicates = False: the suggested
   configurations are pairwise different, and every suggestion that is not an initial point has a
   match string different from those of ALL earlier suggestions. The invariant is that the
   configuration of every suggested trial stays in pending U failed U observed: a finite result
   moves it to observed, a failure to failed, a NaN / infinite result marks it failed
   (fix commit for finding F-C06-3). *)
Theorem c06_no_repeat_model_based_run :
  forall (C M : Type) (meqb : M -> M -> bool) (ms : C -> M),
  (forall a b, meqb a b = true <-> a = b) ->
  forall (init : list C) num_init size retries outer (history : list (mb_event C)),
  NoDup init ->
  let s := mb_ctor C M init num_init false size retries outer in
  mb_new_ids C M meqb ms s history ->
  let outs := suggested C (snd (mb_run C M meqb ms s history)) in
  NoDup outs /\ forall pre c post, outs = pre ++ c :: post -> In c init \/ ~ In (ms c) (map ms pre).
Proof.
  intros C M meqb ms Hm init ni sz rt outer es Hnd s Hids.
  exact (mb_no_repeat C M meqb ms Hm init ni sz rt outer es Hnd Hids).
Qed.
Print Assumptions c06_no_repeat_model_based_run.

(* DEHB's retry loop for a new trial: a freshly decoded configuration is handed out only if it is
   not in the exclusion list; when all MAX_RETRIES rounds produced excluded configurations the
   answer is None, never the last duplicate *)
Theorem c06_dehb_retry_loop :
  forall (C M : Type) (meqb : M -> M -> bool) (ms : C -> M),
  (forall a b, meqb a b = true <-> a = b) ->
  forall n e (cands : list (dehb_cand C)),
  (forall c, dehb_retry C M meqb ms n e cands = Some (DNew C c) -> ~ In (ms c) e) /\
  (dehb_retry C M meqb ms n e cands = None ->
     (length cands < n)%nat \/
     exists pre rest, cands = map (DNew C) pre ++ rest /\ length pre = n /\ forall c, In c pre -> In (ms c) e).
Proof.
  intros C M meqb ms Hm n e cands. split.
  - intro c. exact (dehb_retry_new_not_excluded C M meqb ms Hm n e cands c).
  - exact (dehb_retry_none C M meqb ms Hm n e cands).
Qed.
Print Assumptions c06_dehb_retry_loop.

(* what the exclusion list of a tuning-job state contains *)
Theorem c06_exclusion_list_is_pending_failed_observed :
  forall (C M : Type) (meqb : M -> M -> bool) (ms : C -> M),
  (forall a b, meqb a b = true <-> a = b) ->
  forall (tj : tj_state C) skip_observed m,
  In m (tj_excl C M meqb ms tj skip_observed) <->
  exists t c, In t (tj_pending C tj ++ tj_failed C tj ++ (if skip_observed then [] else tj_obs C tj)) /\
              lookupZ t (tj_cfg C tj) = Some c /\ m = ms c.
Proof. intros C M meqb ms Hm. exact (tj_excl_In C M meqb ms Hm). Qed.
Print Assumptions c06_exclusion_list_is_pending_failed_observed.

(* _pick_from_locally_optimized falls back to the unoptimised candidate, never to an excluded one *)
Theorem c06_bo_pick_not_excluded :
  forall (C M : Type) (meqb : M -> M -> bool) (ms : C -> M),
  (forall a b, meqb a b = true <-> a = b) ->
  forall e (opt : C -> C) cands considered c,
  bo_select C M meqb ms e considered cands opt = Some c -> ~ In (ms c) e.
Proof. intros C M meqb ms Hm. exact (bo_select_not_excluded C M meqb ms Hm). Qed.
Print Assumptions c06_bo_pick_not_excluded.

(* batch suggestions (get_batch_configs, greedy selection): for EVERY ranking and local optimiser of
   every greedy iteration, the members of a batch have pairwise different match strings and none
   has the match string of an excluded (observed / pending / failed) configuration *)
Theorem c06_bo_batch_no_repeat :
  forall (C M : Type) (meqb : M -> M -> bool) (ms : C -> M),
  (forall a b, meqb a b = true <-> a = b) ->
  forall size n e (oracles : list (list C * (C -> C))),
  NoDup (map ms (bo_batch C M meqb ms size n e oracles)) /\
  forall c, In c (bo_batch C M meqb ms size n e oracles) -> ~ In (ms c) e.
Proof. intros C M meqb ms Hm size n e oracles. exact (bo_batch_fresh C M meqb ms Hm size n e oracles). Qed.
Print Assumptions c06_bo_batch_no_repeat.

(* --- grid search ---------------------------------------------------------------------------
   allow_duplicates = False, any grid (product order, or any shuffle of it), any initial points,
   any history with k get_config calls: the answers are exactly
   initial points, then every grid point whose match string is not that of an initial point,
   in grid order, each once, then None forever. *)
Theorem c06_grid_once :
  forall (C M : Type) (meqb : M -> M -> bool) (ms : C -> M),
  (forall a b, meqb a b = true <-> a = b) ->
  forall (Seed : Type) (base : list C) (shuffle : Seed -> list C -> list C) (init : list C)
         (seed : Seed) (sh : bool) (history : list gs_event),
  let grid := if sh then shuffle seed base else base in
  let ok := grid_ok C M meqb ms (fold_left (excl_add C M meqb ms) init []) in
  let k := count_gets history in
  snd (gs_run C M meqb ms (gs_ctor C M base shuffle init seed sh false) history) =
    firstn k (map Some (init ++ filter ok grid) ++ repeat None k) /\
  (forall g, In g (filter ok grid) <-> In g grid /\ ~ In (ms g) (map ms init)) /\
  (NoDup init -> NoDup grid -> NoDup (init ++ filter ok grid)).
Proof.
  intros C M meqb ms Hm Seed base shuffle init seed sh es.
  exact (gs_grid_once C M meqb ms Hm base shuffle init seed sh es).
Qed.
Print Assumptions c06_grid_once.

(* ... and ACROSS a get_state / clone_from_state restore at any point of any history (incl. on-grid initial
   points consumed before the snapshot): the answers of the original up to the snapshot followed by the answers
   of the clone are the answers of the uninterrupted run, i.e. initial points, then each remaining grid point
   once, then None forever *)
Theorem c06_grid_once_across_restore :
  forall (C M : Type) (meqb : M -> M -> bool) (ms : C -> M),
  (forall a b, meqb a b = true <-> a = b) ->
  forall (Seed : Type) (base : list C) (shuffle : Seed -> list C -> list C) (default_seed : Seed) (default_pts init : list C)
         (seed : Seed) (sh : bool) (history continuation : list gs_event),
  let grid := if sh then shuffle seed base else base in
  let ok := grid_ok C M meqb ms (fold_left (excl_add C M meqb ms) init []) in
  let s0 := gs_ctor C M base shuffle init seed sh false in
  let s1 := fst (gs_run C M meqb ms s0 history) in
  let k := count_gets (history ++ continuation) in
  snd (gs_run C M meqb ms s0 history) ++
  snd (gs_run C M meqb ms (gs_clone C M base shuffle default_seed default_pts s1 (gs_get_state C M s1)) continuation)
    = firstn k (map Some (init ++ filter ok grid) ++ repeat None k).
Proof.
  intros C M meqb ms Hm Seed base shuffle dseed dpts init seed sh hist cont grid ok s0 s1 k.
  rewrite (gs_clone_identity C M base shuffle dseed dpts s1).
  unfold s1. rewrite <- (gs_run_app C M meqb ms hist s0 cont).
  exact (proj1 (gs_grid_once C M meqb ms Hm base shuffle init seed sh (hist ++ cont))).
Qed.
Print Assumptions c06_grid_once_across_restore.

Example c06_example_grid_across_restore :
  let idf := fun c : nat => c in
  let s0 := gs_ctor nat nat [0; 1; 2]%nat (fun (_ : unit) l => rev l) [1%nat] tt true false in
  let s1 := fst (gs_run nat nat Nat.eqb idf s0 [GGet; GGet]) in
  snd (gs_run nat nat Nat.eqb idf s0 [GGet; GGet]) = [Some 1; Some 2]%nat /\
  snd (gs_run nat nat Nat.eqb idf (gs_clone nat nat [0; 1; 2]%nat (fun (_ : unit) l => rev l) tt [] s1 (gs_get_state nat nat s1))
         [GGet; GGet]) = [Some 0%nat; None].
Proof. split; reflexivity. Qed.

(* the grid itself: itertools.product of duplicate-free value lists = every combination once *)
Theorem c06_grid_is_product :
  forall (V : Type) (ls : list (list V)),
  (forall x, In x (cart ls) <-> Forall2 (fun v l => In v l) x ls) /\
  (Forall (@NoDup V) ls -> NoDup (cart ls)).
Proof. intros V ls. split; [apply cart_In | apply cart_NoDup]. Qed.
Print Assumptions c06_grid_is_product.

(* --- 'nothing left' from the random searcher ------------------------------------------------
   Finite space with match strings [space]; allow_duplicates = False. What IS true for every
   history: None is answered only if every configuration of the space has been suggested, or
   MAX_RETRIES consecutive draws all hit configurations suggested before. *)
Theorem c06_random_none_exhausted_or_retries :
  forall (C M : Type) (meqb : M -> M -> bool) (ms : C -> M),
  (forall a b, meqb a b = true <-> a = b) ->
  forall (space : list M) (init : list C) dl retries s (history : list (rs_event C)) ds s2 ds',
  NoDup space -> (forall c, In (ms c) space) -> NoDup init ->
  rs_ctor C M meqb ms init dl false None (Some (length space)) retries = Ok s ->
  rs_get_config C M meqb ms (fst (rs_run C M meqb ms s history)) ds = Ok (s2, None, ds') ->
  let outs := suggested C (snd (rs_run C M meqb ms s history)) in
  (forall m, In m space -> In m (map ms outs)) \/
  (exists pre, ds = map DCfg pre ++ ds' /\ length pre = retries /\
               forall c, In c pre -> In (ms c) (map ms outs)).
Proof.
  intros C M meqb ms Hm space init dl rt s es ds s2 ds'.
  exact (rs_none_exhausted_or_retries C M meqb ms Hm space init dl rt s es ds s2 ds').
Qed.
Print Assumptions c06_random_none_exhausted_or_retries.

(* The full statement "None only once the finite space is used up" is FALSE of the code:
   MAX_RETRIES = 100; a two-element space, one configuration suggested, then 100 draws of the
   same configuration: None although [false] was never suggested.
   (Replayed on the real RandomSearcher by the driver: finding F-C06-1.) *)
Theorem c06_none_only_when_exhausted_refuted :
  exists (space : list bool) (history : list (rs_event bool)) (ds : list (draw bool)) s s2,
    NoDup space /\ (forall c : bool, In c space) /\
    rs_ctor bool bool Bool.eqb (fun c => c) [] (DLBool false) false None (Some (length space)) 100 = Ok s /\
    rs_get_config bool bool Bool.eqb (fun c => c) (fst (rs_run bool bool Bool.eqb (fun c => c) s history)) ds
      = Ok (s2, None, []) /\
    ~ (forall m, In m space ->
         In m (suggested bool (snd (rs_run bool bool Bool.eqb (fun c => c) s history)))).
Proof.
  exists [true; false], [RGet bool [DCfg true]], (repeat (DCfg true) 100).
  eexists. eexists. split; [|split; [|split; [reflexivity|split]]].
  - constructor; [intros [H|[]]; discriminate | constructor; [intros [] | constructor]].
  - intros [|]; simpl; auto.
  - vm_compute. reflexivity.
  - intro H. specialize (H false (or_intror (or_introl eq_refl))). vm_compute in H.
    destruct H as [H|[]]. discriminate.
Qed.
Print Assumptions c06_none_only_when_exhausted_refuted.

(* non-vacuity of the run-level GP theorem and of the resume post-processing *)
Example c06_example_model_based_run :
  let idf := fun c : nat => c in
  let s := mb_ctor nat nat [7%nat] 1 false (Some 4%nat) 100 50 in
  let hist := [MSuggest nat 0%Z [] [] idf; MNonFinite nat 0%Z; MSuggest nat 1%Z [DCfg 7%nat; DCfg 3%nat] [] idf;
               MUpdate nat 1%Z 3%nat; MSuggest nat 2%Z [] [3%nat; 5%nat] (fun _ => 7%nat); MFailed nat 2%Z] in
  mb_new_ids nat nat Nat.eqb idf s hist /\
  snd (mb_run nat nat Nat.eqb idf s hist) = [Ok (Some 7%nat); Ok (Some 3%nat); Ok (Some 5%nat)].
Proof. vm_compute. repeat split; auto; intros [H|H]; try discriminate; auto. Qed.

Example c06_example_resume_postprocess :
  postprocess_config nat nat nat Nat.eqb (fun _ v => v)
    (with_milestone nat nat Nat.eqb [(1, 40)]%nat 2%nat 3%nat)
    [(0%nat, EConst 99%nat); (1%nat, EDom 0%nat); (2%nat, EConst 9%nat)]
  = [(0%nat, OVal 99%nat); (1%nat, OVal 40%nat); (2%nat, OVal 3%nat)].
Proof. reflexivity. Qed.

(* non-vacuity: concrete runs of the three searchers *)
Local Open Scope nat_scope.
Example c06_example :
  let ms := fun c : nat => c in
  (* random: initial points 7, 8; draws 8 (excluded), 3; then 3 again x2 with MAX_RETRIES 2 *)
  (exists s, rs_ctor nat nat Nat.eqb ms [7; 8] (DLBool false) false None (Some 4) 2 = Ok s /\
     snd (rs_run nat nat Nat.eqb ms s
            [RGet nat []; RPending nat 0%Z 7; RGet nat []; RGet nat [DCfg 8; DCfg 3]; RFailed nat 0%Z;
             RGet nat [DCfg 3; DCfg 3]])
     = [Ok (Some 7); Ok (Some 8); Ok (Some 3); Ok None]) /\
  (* grid: initial point 1 is skipped on the grid, then None *)
  snd (gs_run nat nat Nat.eqb ms (gs_ctor nat nat [0; 1; 2] (fun (_ : unit) l => rev l) [1; 9] tt true false)
         [GGet; GGet; GOther; GGet; GGet; GGet])
  = [Some 1; Some 9; Some 2; Some 0; None] /\
  (* BO pick: optimised candidate 5 is excluded, original 4 is not *)
  bo_select nat nat Nat.eqb ms [5; 6] [] [6; 4] (fun c => 5) = Some 4.
Proof. vm_compute. split; [eexists; split; reflexivity | split; reflexivity]. Qed.
