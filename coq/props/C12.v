(* C12 — Tuning terminates on the stopping criterion and leaves nothing running.
   Only statements; every proof is [exact <lemma of proofs/TunerProofs.v>] (tiny glue allowed).
   Model: model/Tuner.v. [run_loop] = the try block of Tuner.run (state at loop exit, for every fuel =
   every prefix of the run), [run] = run_loop followed by the finally block. Scheduler, workers, poll
   order, wall-clock and an extra user criterion are arbitrary oracles [o]. Every theorem is for all parameters,
   in particular for BOTH settings of start_jobs_without_delay ([sjwd]), of asynchronous_scheduling ([async]) and -
   unless the statement says otherwise - of wait_trial_completion_when_stopping ([wait_completion]).
   Traces are newest-first. [flag_of tr] = value of the most recent _stop_condition evaluation in tr;
   [guarded P tr] = every event of class P occurred while the most recent evaluation before it was False. *)
From Verif Require Import model.Base model.Tuner proofs.TunerProofs proofs.TunerLivenessProofs proofs.TunerEvalProofs
  proofs.TunerComposeProofs.

(* WHEN the stop condition is evaluated: the trace of every run starts with on_tuning_start followed by an evaluation
   (i.e. before the first iteration), and the event recorded right after EVERY on_loop_end is an evaluation
   ([evals_ok], newest first) - also in the iterations in which the loop only waits for running trials (search
   space exhausted, or wait_trial_completion_when_stopping after the criterion held). The value of an evaluation is
   criterion OR extra user criterion OR num_trials_failed > max_failures of the state at that point ([stop_condition]). *)
Theorem c12_stop_condition_evaluation_points :
  forall prm o fuel st x, run_loop prm o fuel = (st, x) ->
    evals_ok (s_trace st) /\ exists c f rest, s_trace st = rest ++ [EStopCond c f; ECbTuningStart].
Proof. exact run_loop_evals. Qed.
Print Assumptions c12_stop_condition_evaluation_points.

(* wait_trial_completion_when_stopping = False: once _stop_condition held at the end of an iteration,
   NO event of a loop iteration occurs any more (no on_loop_start, poll, result, suggest, start, resume,
   sleep, on_loop_end): the loop body is never entered again. [body_ev] = all events an iteration can emit. *)
Theorem c12_exit_at_first_true :
  forall prm o fuel st x, wait_completion prm = false -> run_loop prm o fuel = (st, x) ->
    guarded body_ev (s_trace st).
Proof. exact exit_at_first_true. Qed.
Print Assumptions c12_exit_at_first_true.

(* both settings of the flag, monotone criterion or not: once the stop condition holds at an evaluation point, no
   suggest / start_trial / resume_trial happens until an evaluation at which it no longer holds
   ([guarded sched_ev]: every such event occurred while the most recent evaluation before it was False);
   with wait=False the loop exits at that point (c12_exit_at_first_true). *)
Theorem c12_no_start_while_stop_holds :
  forall prm o fuel st x, run_loop prm o fuel = (st, x) -> guarded sched_ev (s_trace st).
Proof. exact no_start_after_stop. Qed.
Print Assumptions c12_no_start_while_stop_holds.

(* "no start after the condition held FOR THE FIRST TIME" is false for wait=True when the condition can become
   False again (here: an extra user criterion that is True at the second evaluation only): witness *)
Fixpoint start_after_hold (seen : bool) (chrono : list event) : bool :=
  match chrono with
  | [] => false
  | EStopCond _ true :: r => start_after_hold true r
  | EBStart _ _ _ :: r => seen || start_after_hold seen r
  | _ :: r => start_after_hold seen r
  end.
Definition ex12r_oracles : oracles :=
  {| o_world := fun n => if Nat.eqb n 0 then ([{| r_metric := 1; r_cost := 0; r_ts := 1 |}], WCompleted)%Q else ([], WInProgress);
     o_ord := fun _ => []; o_dec := fun _ => CONTINUE; o_sug := fun n => SStart (Z.of_nat n) None;
     o_clk := fun _ => 0%Q; o_ext := fun n => Nat.eqb n 1 |}.
Definition ex12r_params : params :=
  {| n_workers := 2; async := true; wait_completion := true; max_failures := 1; sjwd := true; c_wallclock := None; c_evals := None;
     c_started := None; c_completed := None; c_finished := None; c_cost := None; c_min_metric := None; c_max_metric := None |}.
Theorem c12_no_start_after_first_hold_refuted :
  exists prm o fuel, wait_completion prm = true /\
    start_after_hold false (rev (s_trace (fst (run_loop prm o fuel)))) = true.
Proof. exists ex12r_params, ex12r_oracles, 4%nat. vm_compute. split; reflexivity. Qed.
Print Assumptions c12_no_start_after_first_hold_refuted.

(* how the loop ends when no exception is raised: the stop condition holds, or suggest returned None
   (StopIteration) and no trial is running; with wait=True additionally no trial is running;
   and scheduler.suggest is never called again after it returned None. *)
Theorem c12_normal_exit :
  forall prm o fuel st x, run_loop prm o fuel = (st, x) ->
    no_suggest_after_none (s_trace st) /\
    (x = LExit None ->
       (flag_of (s_trace st) = true \/ (exhausted (s_trace st) = true /\ s_running st = [])) /\
       (wait_completion prm = true -> s_running st = [])).
Proof. exact run_loop_exit. Qed.
Print Assumptions c12_normal_exit.

(* overshoot of count budgets, measured at loop exit (before the finally block marks running trials as
   stopped, which by itself makes every started trial "finished"). *)
Theorem c12_overshoot_started :
  forall prm o b fuel st x, c_started prm = Some b -> (0 <= b)%Z -> run_loop prm o fuel = (st, x) ->
    (Z.of_nat (length (s_smap st)) <= b + Z.of_nat (n_workers prm))%Z.
Proof. exact overshoot_started. Qed.
Print Assumptions c12_overshoot_started.

Theorem c12_overshoot_completed :
  forall prm o b fuel st x, wait_completion prm = false -> c_completed prm = Some b -> (0 <= b)%Z ->
    run_loop prm o fuel = (st, x) ->
    (Z.of_nat (num_status is_completed (s_smap st)) <= b + Z.of_nat (n_workers prm))%Z.
Proof. exact overshoot_completed. Qed.
Print Assumptions c12_overshoot_completed.

Theorem c12_overshoot_finished :
  forall prm o b fuel st x, wait_completion prm = false -> c_finished prm = Some b -> (0 <= b)%Z ->
    run_loop prm o fuel = (st, x) ->
    (Z.of_nat (num_status is_finished (s_smap st)) <= b + Z.of_nat (n_workers prm))%Z.
Proof. exact overshoot_finished. Qed.
Print Assumptions c12_overshoot_finished.
(* With wait=True the running trials are allowed to finish after the criterion holds, so completed /
   finished can exceed budget + n_workers (up to budget + 2*n_workers); that is the documented purpose of
   the flag and not claimed. *)

(* max_num_evaluations. "Overshoot <= n_workers" is FALSE when a poll returns several results per trial
   (c12_overshoot_evaluations_n_workers_refuted); what holds, with wait=False: at loop exit the count exceeds the
   budget by at most the number of results the LAST poll returned ([last_fetch]); and whenever the stop condition was
   False at an iteration end the count was within budget. (With wait=True the running trials keep reporting while the
   loop waits for them, by design.) *)
Theorem c12_overshoot_evaluations :
  forall prm o v fuel st x, wait_completion prm = false -> c_evals prm = Some v -> (0 <= v)%Z ->
    run_loop prm o fuel = (st, x) -> (s_count st <= v + Z.of_nat (last_fetch (s_trace st)))%Z.
Proof. exact overshoot_evaluations. Qed.
Print Assumptions c12_overshoot_evaluations.

Theorem c12_evaluations_within_budget_while_running :
  forall prm o st st' v, c_evals prm = Some v -> iteration_end prm o st = (st', false) -> (s_count st' <= v)%Z.
Proof. exact evals_bound_at_false_end. Qed.
Print Assumptions c12_evaluations_within_budget_while_running.

Definition ex12e_oracles : oracles :=
  {| o_world := fun _ => ([{| r_metric := 1; r_cost := 0; r_ts := 1 |}; {| r_metric := 1; r_cost := 0; r_ts := 2 |};
                           {| r_metric := 1; r_cost := 0; r_ts := 3 |}], WInProgress)%Q;
     o_ord := fun _ => []; o_dec := fun _ => CONTINUE; o_sug := fun n => SStart (Z.of_nat n) None;
     o_clk := fun _ => 0%Q; o_ext := fun _ => false |}.
Definition ex12e_params : params :=
  {| n_workers := 1; async := true; wait_completion := false; max_failures := 1; sjwd := true; c_wallclock := None;
     c_evals := Some 0%Z; c_started := None; c_completed := None; c_finished := None; c_cost := None; c_min_metric := None;
     c_max_metric := None |}.
Theorem c12_overshoot_evaluations_n_workers_refuted :
  exists prm o fuel v, wait_completion prm = false /\ c_evals prm = Some v /\
    (v + Z.of_nat (n_workers prm) < s_count (fst (run_loop prm o fuel)))%Z.
Proof. exists ex12e_params, ex12e_oracles, 5%nat, 0%Z. vm_compute. repeat split. Qed.
Print Assumptions c12_overshoot_evaluations_n_workers_refuted.

(* run() returned, normally or by exception (every outcome except running out of model fuel):
   callbacks' on_tuning_end and backend.stop_all ran exactly once, the trace is the loop's trace followed by
   on_tuning_end, stop_all and stop_all's stop_trial calls, and no trial is InProgress in the backend. *)
Theorem c12_nothing_running :
  forall prm o fuel st out, run prm o fuel = (st, out) -> out <> OutOfFuel ->
    (forall t, (t < s_ntrials st)%nat -> b_w (s_bt st t) <> InProgress) /\
    count_ev is_tuning_end (s_trace st) = 1%nat /\ count_ev is_stop_all (s_trace st) = 1%nat /\
    exists stops st0 err, run_loop prm o fuel = (st0, LExit err) /\
      s_trace st = stops ++ EBStopAll :: ECbTuningEnd :: s_trace st0 /\
      forallb (fun e => match e with EBStop _ => true | _ => false end) stops = true.
Proof.
  intros prm o fuel st out H Hne.
  destruct (run_counters prm o fuel st out H Hne) as (_ & _ & Hw).
  destruct (run_finally_once prm o fuel st out H Hne) as (A & B & C). auto.
Qed.
Print Assumptions c12_nothing_running.

(* the counters are functions of the status map (num_trials_started = its length, the others count
   entries by status: model [criterion] / tuning_status.py); the map has exactly one entry per started
   trial, in id order, and after run() no entry is InProgress (num_trials_running = 0). *)
Theorem c12_counters :
  forall prm o fuel st out, run prm o fuel = (st, out) -> out <> OutOfFuel ->
    map fst (s_smap st) = seq 0 (s_ntrials st) /\ num_status is_in_progress (s_smap st) = 0%nat.
Proof.
  intros prm o fuel st out H Hne. destruct (run_counters prm o fuel st out H Hne) as (A & B & _). auto.
Qed.
Print Assumptions c12_counters.

Theorem c12_counters_during_run :
  forall prm o fuel st x, run_loop prm o fuel = (st, x) ->
    map fst (s_smap st) = seq 0 (s_ntrials st) /\
    (forall t, In t (s_running st) -> (t < s_ntrials st)%nat) /\
    (forall t, aget t (s_smap st) = Some Failed -> aget t (s_doneall st) = Some Failed).
Proof. exact run_loop_sinv. Qed.
Print Assumptions c12_counters_during_run.

(* failures are recorded (the statement seeded change C12-G breaks): after a poll that raised no exception, a trial
   has the status-map entry Failed - and therefore counts in num_trials_failed, which [too_many_failures] compares with
   max_failures - IFF this poll listed it as Failed (whatever the scheduler decided on its results in the same poll),
   or the poll did not list it and its entry was Failed before. [sd] is the status dictionary of the poll as recorded
   by the ECbFetch event; NoDup of the running set is part of c01_budget. Together with c12_counters_during_run
   (entries only change by polls and by start/resume, which write InProgress) this is "num_trials_failed = number of
   trials whose last observed status is Failed and that were not resumed since". *)
Theorem c12_failures_recorded :
  forall prm o st st' done, process_new_results prm o st = (st', done, None) -> NoDup (s_running st) ->
  exists sd rs,
    (exists post, s_trace st' = post ++ ECbFetch sd rs :: EBFetch (map fst sd) :: s_trace st /\
                  forallb (fun e => result_ev e || status_ev e) post = true) /\
    map fst sd = poll_order (s_running st) (o_ord o (s_np st)) /\
    forall t, aget t (s_smap st') = Some Failed <->
              (In (t, Failed) sd \/ (~ In t (map fst sd) /\ aget t (s_smap st) = Some Failed)).
Proof. exact failures_recorded. Qed.
Print Assumptions c12_failures_recorded.

(* non-vacuity: the poll shows trial 0 Failed together with a report on which the scheduler answers STOP; the
   status map records Failed (not Stopped), max_failures = 0 is exceeded and run() raises naming trial 0. *)
Definition ex12f_oracles : oracles :=
  {| o_world := fun _ => ([{| r_metric := 1; r_cost := 0; r_ts := 1 |}], WFailed)%Q;
     o_ord := fun _ => []; o_dec := fun _ => STOP; o_sug := fun n => SStart (Z.of_nat n) None;
     o_clk := fun _ => 0%Q; o_ext := fun _ => false |}.
Definition ex12f_params : params :=
  {| n_workers := 1; async := true; wait_completion := false; max_failures := 0; sjwd := true; c_wallclock := None;
     c_evals := None; c_started := None; c_completed := None; c_finished := None; c_cost := None; c_min_metric := None;
     c_max_metric := None |}.
Example c12_failures_recorded_example :
  let '(st, out) := run ex12f_params ex12f_oracles 5 in
  out = Raised (EFailureLimit 0) /\ s_smap st = [(0%nat, Failed); (1%nat, Stopped)] /\
  existsb (fun e => match e with ECbResult 0 Failed 0 STOP => true | _ => false end) (s_trace st) = true.
Proof. vm_compute. repeat split. Qed.

(* THE WHOLE-RUN FAILURE COUNT. [lastobs t tr] (proofs/TunerEvalProofs.v) is the status trial t was last OBSERVED in on
   the newest-first trace tr: the entry of the most recent poll's status dictionary that lists t (ECbFetch), or
   InProgress if t's own start / resume is more recent; [obs_failed tr t] = that status is Failed. At EVERY iteration
   boundary of EVERY run (any fuel) and at a normal loop exit, num_trials_failed - the number the failure limit and
   _stop_condition compare with max_failures - equals the number of started trials whose last observed status is
   Failed: no failure is lost (C12-G, C12-P), none is counted twice, and a resumed trial stops counting. (After a poll
   that raised, the status map is the one of the previous boundary; that case is not in this statement.) *)
Theorem c12_failed_count_whole_run :
  forall prm o fuel st x, run_loop prm o fuel = (st, x) -> x = LFuel \/ x = LExit None ->
    num_status is_failed (s_smap st) = length (filter (obs_failed (s_trace st)) (seq 0 (s_ntrials st))).
Proof. exact run_loop_failed_count. Qed.
Print Assumptions c12_failed_count_whole_run.

(* ... and in the state run() returns with after a loop that ended without an exception (outcome Normal, or the
   failure-limit error raised after stop_all): the count [too_many_failures] is evaluated on. *)
Theorem c12_failed_count_at_return :
  forall prm o fuel st out st0, run prm o fuel = (st, out) -> run_loop prm o fuel = (st0, LExit None) ->
    num_status is_failed (s_smap st) = length (filter (obs_failed (s_trace st)) (seq 0 (s_ntrials st))).
Proof. exact run_failed_count. Qed.
Print Assumptions c12_failed_count_at_return.

Example c12_failed_count_example :
  let '(st, out) := run ex12f_params ex12f_oracles 5 in
  filter (obs_failed (s_trace st)) (seq 0 (s_ntrials st)) = [0%nat] /\ num_status is_failed (s_smap st) = 1%nat /\
  lastobs 1 (s_trace st) = Some InProgress.
Proof. vm_compute. repeat split. Qed.

(* more failed trials than max_failures when run() ends: it ends with ValueError("Trial - t failed") for a
   trial t whose end was observed as Failed *)
Theorem c12_failure_limit :
  forall prm o fuel st out, run prm o fuel = (st, out) -> out <> OutOfFuel -> too_many_failures prm st = true ->
    exists t, out = Raised (EFailureLimit t) /\ In (t, Failed) (s_doneall st).
Proof. exact run_failure_limit. Qed.
Print Assumptions c12_failure_limit.

(* WHICH EXCEPTIONS CAN LEAVE THE TRY BLOCK, and the state they leave behind. The model's start_trial can fail
   half-way: [schedule_k] asks the scheduler, and when the suggestion is a new trial that copies the checkpoint of a
   trial the backend never started ([ckpt_missing]; TrialBackend.start_trial: new_trial_id, copy_checkpoint RAISES,
   before trial_ids.append and _schedule) the exception ECkptMissing leaves the loop. Every exception that ends the
   loop is a poll error (worker-budget assertion / missing metric), a resume the backend refuses, or such a failed
   start - and in that last case the newest event is the suggest call for the id that would have been issued
   (s_ntrials, unchanged: nothing was registered, no EBStart, no status-map entry), [failed_start_shape]. *)
Theorem c12_exceptions_leaving_loop :
  forall prm o fuel st e, run_loop prm o fuel = (st, LExit (Some e)) ->
    poll_error e \/ resume_error e \/
    exists j cfg tr, e = ECkptMissing j /\ s_trace st = ESSuggest (s_ntrials st) (SStart cfg (Some j)) :: tr /\
                     (s_ntrials st <= j)%nat.
Proof. exact run_loop_error_kinds. Qed.
Print Assumptions c12_exceptions_leaving_loop.

(* THE FINALLY BLOCK AFTER ANY EXIT (the statement seeded change C12-M breaks): whatever ended the try block - normal
   exit or any of the exceptions above, a start that failed half-way included - when run() returns no trial the
   backend issued an id for is InProgress, the number of issued ids is the one at loop exit, and the exception that
   escapes run() is exactly the one that left the try block (Normal if none), or the failure-limit error raised after
   stop_all, naming a trial whose end was observed as Failed. *)
Theorem c12_finally_after_any_exit :
  forall prm o fuel st out, run prm o fuel = (st, out) -> out <> OutOfFuel ->
    exists st0 err, run_loop prm o fuel = (st0, LExit err) /\
      (forall t, (t < s_ntrials st)%nat -> b_w (s_bt st t) <> InProgress) /\
      s_ntrials st = s_ntrials st0 /\
      (match err with Some e => exit_error_kind st0 e | None => True end) /\
      (out = match err with Some e => Raised e | None => Normal end \/
       exists t, out = Raised (EFailureLimit t) /\ too_many_failures prm st = true /\ In (t, Failed) (s_doneall st)).
Proof. exact run_finally_any_exit. Qed.
Print Assumptions c12_finally_after_any_exit.

(* non-vacuity: trial 0 starts; the second suggestion wants the checkpoint of trial 7, which does not exist: the
   copy raises, trial 1 is never registered, stop_all stops trial 0, the exception escapes unchanged. *)
Definition ex12s_oracles : oracles :=
  {| o_world := fun _ => ([], WInProgress); o_ord := fun _ => []; o_dec := fun _ => CONTINUE;
     o_sug := fun n => match n with O => SStart 0%Z None | _ => SStart 1%Z (Some 7%nat) end;
     o_clk := fun _ => 0%Q; o_ext := fun _ => false |}.
Definition ex12s_params : params :=
  {| n_workers := 2; async := true; wait_completion := false; max_failures := 0; sjwd := true; c_wallclock := None;
     c_evals := None; c_started := None; c_completed := None; c_finished := None; c_cost := None; c_min_metric := None;
     c_max_metric := None |}.
Example c12_failed_start_example :
  let '(st, out) := run ex12s_params ex12s_oracles 5 in
  out = Raised (ECkptMissing 7) /\ s_smap st = [(0%nat, Stopped)] /\ s_ntrials st = 1%nat /\
  b_w (s_bt st 0%nat) = Stopped /\
  firstn 4 (s_trace st) = [EBStop 0; EBStopAll; ECbTuningEnd; ESSuggest 1 (SStart 1%Z (Some 7%nat))].
Proof. vm_compute. repeat split. Qed.

(* LIVENESS of the drain phase (wait_trial_completion_when_stopping=True), under an explicit fairness
   hypothesis on the world oracle: if after f0 loop iterations the loop is still running ([LFuel]), and from the
   oracle cursors of that moment on (i) every look at an active worker shows a final status (Completed / Failed /
   Stopped: [looks_final_from], i.e. every running job ends within ONE more look) and (ii) the stop criterion holds
   at every evaluation, then the loop ends within two more iterations - for every scheduler oracle and every
   decision it takes on the final reports - and if it ends without an exception no trial is running.
   (A bound of K looks per worker instead of one is not stated; the world oracle is indexed by a global look
   counter.) *)
Theorem c12_drain_terminates :
  forall prm o f0 st0, wait_completion prm = true -> run_loop prm o f0 = (st0, LFuel) ->
    looks_final_from o (s_nw st0) -> (forall n, (s_nc st0 <= n)%nat -> o_ext o n = true) ->
    exists st x, run_loop prm o (f0 + 2) = (st, x) /\ x <> LFuel /\ (x = LExit None -> s_running st = []).
Proof. exact drain_terminates. Qed.
Print Assumptions c12_drain_terminates.

(* non-vacuity of the liveness hypotheses: 2 workers, wait=True; after 3 iterations two trials are running and the
   loop is still going; from then on all looks are final and the criterion holds; it ends with nothing running. *)
Definition ex12l_oracles : oracles :=
  {| o_world := fun n => if Nat.ltb n 4 then ([{| r_metric := 1; r_cost := 0; r_ts := 1 |}], WInProgress)%Q
                         else ([{| r_metric := 2; r_cost := 0; r_ts := 2 |}], WCompleted)%Q;
     o_ord := fun _ => []; o_dec := fun _ => CONTINUE;
     o_sug := fun n => SStart (Z.of_nat n) None; o_clk := fun _ => 0%Q; o_ext := fun n => Nat.leb 3 n |}.
Definition ex12l_params : params :=
  {| n_workers := 2; async := true; wait_completion := true; max_failures := 1; sjwd := true; c_wallclock := None; c_evals := None;
     c_started := None; c_completed := None; c_finished := None; c_cost := None; c_min_metric := None; c_max_metric := None |}.
Example c12_drain_example :
  (let '(st0, x0) := run_loop ex12l_params ex12l_oracles 3 in
   x0 = LFuel /\ s_running st0 = [0; 1]%nat /\ s_nw st0 = 4%nat /\ s_nc st0 = 4%nat) /\
  (let '(st, x) := run_loop ex12l_params ex12l_oracles 5 in x = LExit None /\ s_running st = []).
Proof. vm_compute. repeat split. Qed.

(* non-vacuity: max_num_trials_started = 1 with 2 workers: 2 trials get started in the first iteration
   (1 > 1 is False before), the condition holds at the end of that iteration, the run ends, both trials are
   stopped by stop_all, counters: started 2 = budget + 1 <= budget + n_workers. *)
Definition ex12_oracles : oracles :=
  {| o_world := fun _ => ([], WInProgress); o_ord := fun _ => []; o_dec := fun _ => CONTINUE;
     o_sug := fun n => SStart (Z.of_nat n) None; o_clk := fun _ => 0%Q; o_ext := fun _ => false |}.
Definition ex12_params : params :=
  {| n_workers := 2; async := true; wait_completion := false; max_failures := 1; sjwd := true; c_wallclock := None; c_evals := None;
     c_started := Some 1%Z; c_completed := None; c_finished := None; c_cost := None; c_min_metric := None; c_max_metric := None |}.
Example c12_example :
  let '(st, out) := run ex12_params ex12_oracles 10 in
  out = Normal /\ s_smap st = [(0, Stopped); (1, Stopped)]%nat /\ flag_of (s_trace st) = true /\
  map (fun t => b_w (s_bt st t)) [0; 1]%nat = [Stopped; Stopped] /\
  firstn 4 (s_trace st) = [EBStop 1; EBStop 0; EBStopAll; ECbTuningEnd].
Proof. vm_compute. repeat split. Qed.
