(* C17 — The results log and the reported best configuration reflect what happened.
   Only statements; every proof is [exact <lemma of proofs/ResultsProofs.v>]. *)
From Verif Require Import model.Base model.Results proofs.ResultsProofs.

(* ---- running statistics --------------------------------------------------
   For EVERY history of TuningStatus.update calls (any interleaving of trials,
   any status dictionaries): the overall statistics are exactly the statistics
   of the list of all results handed to the loop, the statistics of trial t are
   exactly those of the results of t (in the order handed), every trial seen in
   a status dictionary or a result has an entry, each trial once. *)
Theorem c17_stats_fold :
  forall history : list (list Z * list (Z * dict)),
    let ts := ts_run history in
    ts_overall ts = stats_of (map snd (handed history)) /\
    (forall t, aget_d Z.eqb t (ts_trials ts) stats_empty = stats_of (of_trial t (handed history))) /\
    NoDup (map fst (ts_trials ts)) /\
    (forall t, In t (map fst (handed history)) \/ In t (flat_map fst history) -> In t (map fst (ts_trials ts))).
Proof. exact stats_interleaved_is_batch. Qed.
Print Assumptions c17_stats_fold.

(* What the statistics of a list of results are, metric by metric.
   [counted k rs] = ALL numbers among the values of metric k in rs when the first value
   of the metric is a number (non-numbers in between are skipped); empty when the first
   value is not a number ("the type of the first value of a metric defines its type",
   MetricsStatistics after the repair of finding F-C17-3; before it, numbers following
   the first non-number were ignored). See c17_counted_* below.
   count = number of results; min/max/sum = Python folds over the counted values. *)
Theorem c17_stats :
  forall (k : key) (rs : list dict),
    st_count (stats_of rs) = length rs /\
    aget key_eqb k (st_min (stats_of rs)) = fold_opt py_min (counted k rs) None PInf /\
    aget key_eqb k (st_max (stats_of rs)) = fold_opt py_max (counted k rs) None NInf /\
    aget key_eqb k (st_sum (stats_of rs)) = fold_opt num_add (counted k rs) None (Fin 0).
Proof. exact stats_of_closed. Qed.
Print Assumptions c17_stats.

(* which values count *)
Theorem c17_counted_all_numeric :
  forall k rs x0 r,
    flat_map (vals_of k) rs = VNum x0 :: r ->
    counted k rs = nums (flat_map (vals_of k) rs) /\
    forall x, In x (counted k rs) <-> In (VNum x) (flat_map (vals_of k) rs).
Proof.
  intros k rs x0 r H. split; [exact (counted_first_numeric k rs x0 r H) | intro x; exact (counted_in_numeric k rs x0 r x H)].
Qed.
Print Assumptions c17_counted_all_numeric.

Theorem c17_counted_non_numeric_first :
  forall k rs t r, flat_map (vals_of k) rs = VTok t :: r -> counted k rs = [].
Proof. exact counted_first_non_numeric. Qed.
Print Assumptions c17_counted_non_numeric_first.

(* ... and their mathematical reading, NaN and +-inf included: the minimum is never
   NaN, is one of the counted values (or inf when all of them are NaN) and no
   counted value is smaller; dually for the maximum. *)
Theorem c17_stats_min :
  forall (k : key) (rs : list dict),
    match aget key_eqb k (st_min (stats_of rs)) with
    | None => counted k rs = []
    | Some m => counted k rs <> [] /\ m <> NaN /\ (m = PInf \/ In m (counted k rs)) /\
                (forall x, In x (counted k rs) -> num_lt x m = false)
    end.
Proof. exact stats_min_spec. Qed.
Print Assumptions c17_stats_min.

Theorem c17_stats_max :
  forall (k : key) (rs : list dict),
    match aget key_eqb k (st_max (stats_of rs)) with
    | None => counted k rs = []
    | Some m => counted k rs <> [] /\ m <> NaN /\ (m = NInf \/ In m (counted k rs)) /\
                (forall x, In x (counted k rs) -> num_lt m x = false)
    end.
Proof. exact stats_max_spec. Qed.
Print Assumptions c17_stats_max.

(* a NaN among the counted values makes the sum NaN (as float addition does) *)
Theorem c17_stats_sum_nan :
  forall np a, In NaN np -> fold_left num_add np a = NaN.
Proof. exact sum_fold_nan. Qed.
Print Assumptions c17_stats_sum_nan.

(* every value of the metric an ordinary number: textbook minimum, maximum, sum *)
Theorem c17_stats_finite :
  forall (k : key) (rs : list dict) (qs : list Q),
    flat_map (vals_of k) rs = map (fun x => VNum (Fin x)) qs -> qs <> [] ->
    exists mn mx,
      aget key_eqb k (st_min (stats_of rs)) = Some (Fin mn) /\ In mn qs /\ (forall x, In x qs -> mn <= x) /\
      aget key_eqb k (st_max (stats_of rs)) = Some (Fin mx) /\ In mx qs /\ (forall x, In x qs -> x <= mx) /\
      aget key_eqb k (st_sum (stats_of rs)) = Some (Fin (fold_left Qplus qs 0)).
Proof. exact stats_finite_spec. Qed.
Print Assumptions c17_stats_finite.

(* ---- the results table ----------------------------------------------------
   For EVERY list of deliveries (on_trial_result calls) and every choice of the
   moments at which the RegularCallback stores ([ev_fire], i.e. every
   results_update_interval and clock): after on_tuning_start, the deliveries and
   on_tuning_end, the table has exactly one row per delivery, in delivery order,
   and row i reflects delivery i: trial id, decision, status, the trial's full
   configuration at delivery time, every reported value under its own name
   (names of the form st_* / plain names / config_* not naming a hyperparameter),
   the tuner time stamp (an existing stamp is kept; otherwise the clock when
   add_wallclock_time), and NOTHING else ([row_reflects] fixes every column);
   the file holds exactly these rows. *)
Theorem c17_rows :
  forall (add_wallclock_time : bool) (evs : list event),
    exists s, cb_run add_wallclock_time evs = Some s /\
              cb_results s = map (make_row add_wallclock_time) evs /\
              Forall2 (row_reflects add_wallclock_time) evs (cb_results s) /\
              cb_disk s = Some (cb_results s).
Proof. exact cb_run_spec. Qed.
Print Assumptions c17_rows.

(* An experiment that is interrupted and resumed any number of times (Tuner.load + run()
   again, possibly under another results root): every phase = on_tuning_start, its
   deliveries, on_tuning_end, on the SAME callback object (it travels in tuner.dill with
   its rows).  The table after the last phase has exactly one row per delivery of ALL
   phases, in order, each reflecting its delivery, and the file holds exactly these rows. *)
Theorem c17_rows_across_resume :
  forall (add_wallclock_time : bool) (phases : list (list event)), phases <> [] ->
    exists s, cb_run_phases add_wallclock_time phases = Some s /\
              cb_results s = map (make_row add_wallclock_time) (concat phases) /\
              Forall2 (row_reflects add_wallclock_time) (concat phases) (cb_results s) /\
              cb_disk s = Some (cb_results s).
Proof. exact cb_run_phases_spec. Qed.
Print Assumptions c17_rows_across_resume.

(* [row_reflects w e row]: row = the base row (trial id, decision, status, configuration, every
   reported value, time stamp: [row_reflects_base] fixes every column) overridden / extended
   by the columns the extra_results_composer returned for this call; no composer, or a
   composer returning None, leaves the base row (the row is never dropped: rows stay 1:1). *)
Theorem c17_row_cells :
  forall (w : bool) (e : event),
    exists base, row_reflects_base w e base /\
      forall k, dget k (make_row w e) = match extra_binding e k with Some v => Some v | None => dget k base end.
Proof. exact make_row_reflects. Qed.
Print Assumptions c17_row_cells.

Theorem c17_row_extra_columns :
  forall e x k v, ev_extra e = Some x -> NoDup (map fst x) -> In (k, v) x -> extra_binding e k = Some v.
Proof. exact extra_binding_in. Qed.
Print Assumptions c17_row_extra_columns.

Theorem c17_row_no_extra :
  forall e k, match ev_extra e with Some x => ~ In k (map fst x) | None => True end -> extra_binding e k = None.
Proof. exact extra_binding_none. Qed.
Print Assumptions c17_row_no_extra.

Example c17_row_extra_example :
  let e x := {| ev_trial := 1; ev_status := 0; ev_result := [(KUser 0, VNum (Fin 2))]; ev_decision := 1;
                ev_config := []; ev_clock := 3; ev_fire := false; ev_extra := x |} in
  dget (KUser 5) (make_row true (e (Some [(KUser 5, VNum (Fin 9))]))) = Some (VNum (Fin 9)) /\
  dget (KUser 0) (make_row true (e (Some [(KUser 5, VNum (Fin 9))]))) = Some (VNum (Fin 2)) /\
  make_row true (e None) = make_row_base true (e None) /\
  exists s, cb_run true [e (Some [(KUser 5, VNum (Fin 9))]); e None] = Some s /\ length (cb_results s) = 2%nat.
Proof. vm_compute. repeat split. eexists. split; reflexivity. Qed.

(* at any moment before the end the file (if written) holds a prefix of the rows *)
Theorem c17_rows_disk_prefix :
  forall (add_wallclock_time : bool) (evs : list event) (s : cb_state),
    cb_feed (cb_on_tuning_start (cb_init add_wallclock_time)) evs = Some s ->
    match cb_disk s with None => True | Some d => exists rest, cb_results s = d ++ rest end.
Proof. exact cb_disk_prefix. Qed.
Print Assumptions c17_rows_disk_prefix.

(* ---- one run of Tuner.run, body and `finally` block -------------------------------
   Model: a fresh StoreResultsCallback and TuningStatus; [old_disk] = ANY earlier content of
   results.csv.zip (an earlier run under the same name) or no file; the loop body is ANY list
   of steps - polls handing over batches of results (with the trial's status and
   configuration of that poll), trial starts, and exceptions (Fault) at any point; the
   scheduler is an oracle stream of answers (decision, STOP/PAUSE?) and an exhausted stream
   is an exception inside on_trial_result; the `finally` block runs print_best, the callbacks'
   on_tuning_end, save, stop_all, mark-stopped in THIS order and ANY of save / stop_all /
   mark may raise; carrying out a STOP / PAUSE may raise too (the row of that result has been
   appended before).  Then, however the run ends (returns or raises, wherever):
   the table has exactly one row per result delivered to the scheduler in this run, in
   order, each reflecting its delivery; the file holds exactly these rows (an older table
   is overwritten, also by an empty one); the tuning status is the one of ALL results
   handed to the loop in the completed polls (c17_stats / c17_best_tuner apply to it);
   the run raises iff the body raised or one of the later `finally` steps did. *)
Theorem c17_run :
  forall (add_wallclock_time : bool) (old_disk : option (list dict)) (answers : list answer)
         (steps : list step) (fails : fin_step -> bool),
    fails FPrintBest = false -> fails FCallbacksEnd = false ->
    let '(st, raised, tr) := tuner_run add_wallclock_time old_disk answers steps fails in
    cb_results (rs_cb st) = map (make_row add_wallclock_time) (run_delivered answers steps) /\
    Forall2 (row_reflects add_wallclock_time) (run_delivered answers steps) (cb_results (rs_cb st)) /\
    cb_disk (rs_cb st) = Some (cb_results (rs_cb st)) /\
    rs_ts st = ts_run (run_history answers steps) /\
    raised = (snd (run_trace answers steps) || (fails FSaveTuner || fails FStopAll || fails FMarkStopped)) /\
    (exists tr', tr = FPrintBest :: FCallbacksEnd :: tr').
Proof. exact tuner_run_spec. Qed.
Print Assumptions c17_run.

(* Which results of a poll are delivered (Tuner._update_running_trials): every delivered
   event is an item of the batch whose trial was not stopped before; nothing else is lost:
   an item is delivered unless its trial got STOP / PAUSE from an earlier delivered result
   of the same batch; the scheduler is asked once per delivery, in order. *)
Theorem c17_deliver_batch :
  forall batch answers done evs rem ok,
    deliver_batch answers done batch = (evs, rem, ok) ->
    (forall e s, In (e, s) evs ->
       ~ In (ev_trial e) done /\ exists h a, In h batch /\ e = event_of h a /\ s = an_stops a) /\
    (ok = true -> forall h, In h batch ->
       In (hi_trial h) done \/
       (exists a, In (event_of h a, an_stops a) evs) \/
       (exists e, In (e, true) evs /\ ev_trial e = hi_trial h)) /\
    (ok = true -> exists used, answers = used ++ rem /\ length used = length evs).
Proof. exact deliver_batch_spec. Qed.
Print Assumptions c17_deliver_batch.

(* no STOP / PAUSE among the answers: every result handed over is delivered, 1:1, in order *)
Theorem c17_deliver_all :
  forall batch answers,
    (length batch <= length answers)%nat ->
    forallb (fun a => negb (an_stops a)) (firstn (length batch) answers) = true ->
    deliver_batch answers [] batch =
      (map (fun ha => (event_of (fst ha) (snd ha), false)) (combine batch answers),
       skipn (length batch) answers, true).
Proof. exact deliver_batch_all. Qed.
Print Assumptions c17_deliver_all.

Example c17_run_example :
  let r (x : Q) : dict := [(KUser 0, VNum (Fin x))] in
  let h t x := {| hi_trial := t; hi_result := r x; hi_status := 0; hi_config := [(0%nat, VNum (Fin 1))];
                  hi_clock := 1; hi_fire := false; hi_extra := None |} in
  let go := {| an_decision := 1; an_stops := false; an_exec_fails := false |} in
  let stop := {| an_decision := 2; an_stops := true; an_exec_fails := false |} in
  (* an old table on disk; trial 0 is stopped by its first result, its second result of the
     same poll is not delivered; the next poll raises; stop_all raises as well *)
  let '(st, raised, tr) :=
    tuner_run true (Some [r 7; r 8]) [stop; go; go]
              [Started 0; Started 1; Batch [0%Z; 1%Z] [h 0%Z 3; h 0%Z 2; h 1%Z 5]; Fault; Batch [1%Z] [h 1%Z 4]]
              (fun f => match f with FStopAll => true | _ => false end) in
  map ev_result (run_delivered [stop; go; go]
                   [Started 0; Started 1; Batch [0%Z; 1%Z] [h 0%Z 3; h 0%Z 2; h 1%Z 5]; Fault; Batch [1%Z] [h 1%Z 4]])
    = [r 3; r 5] /\
  length (cb_results (rs_cb st)) = 2%nat /\ cb_disk (rs_cb st) = Some (cb_results (rs_cb st)) /\
  st_count (ts_overall (rs_ts st)) = 3%nat /\ raised = true /\
  tr = [FPrintBest; FCallbacksEnd; FSaveTuner; FStopAll] /\
  (* carrying out a STOP raises (backend.stop_trial fails): the result was delivered, its row is stored *)
  (let '(st2, raised2, _) :=
     tuner_run true None [go; {| an_decision := 2; an_stops := true; an_exec_fails := true |}; go]
               [Batch [0%Z; 1%Z] [h 0%Z 3; h 1%Z 5; h 0%Z 2]] (fun _ => false) in
   map (dget KDecision) (cb_results (rs_cb st2)) = [Some (VTok 1); Some (VTok 2)] /\
   cb_disk (rs_cb st2) = Some (cb_results (rs_cb st2)) /\ raised2 = true) /\
  (* a second run under the same name that delivers nothing overwrites the table *)
  cb_disk (rs_cb (fst (fst (tuner_run true (Some [r 7; r 8]) [] [Started 0] (fun _ => false))))) = Some [].
Proof. vm_compute. repeat split. Qed.

(* ---- ONE Tuner object run several times ------------------------------------------
   run(), then (larger stop criterion) run() again, ...: the callbacks and the TuningStatus
   belong to the Tuner object and are carried from leg to leg.  For EVERY list of legs (each
   with its own steps, scheduler answers and finally-faults): the table holds one row per
   result delivered in ANY leg, in order, the file holds exactly these rows, and the
   tuning status is the status of ALL results handed to the loop in all legs - so
   c17_stats / c17_best_tuner / c17_best_config_attains speak about all legs. *)
Theorem c17_run_legs :
  forall (add_wallclock_time : bool) (old_disk : option (list dict)) (legs : list leg),
    legs <> [] -> Forall leg_ok legs ->
    let st := tuner_legs (tuner_new add_wallclock_time old_disk) legs in
    cb_results (rs_cb st) = map (make_row add_wallclock_time) (legs_delivered legs) /\
    Forall2 (row_reflects add_wallclock_time) (legs_delivered legs) (cb_results (rs_cb st)) /\
    cb_disk (rs_cb st) = Some (cb_results (rs_cb st)) /\
    rs_ts st = ts_run (legs_history legs).
Proof. exact tuner_legs_table. Qed.
Print Assumptions c17_run_legs.

(* the first leg is exactly [tuner_run] *)
Theorem c17_first_leg_is_run :
  forall w old l, tuner_leg (tuner_new w old) l = tuner_run w old (lg_answers l) (lg_steps l) (lg_fails l).
Proof. exact tuner_leg_first. Qed.
Print Assumptions c17_first_leg_is_run.

Example c17_run_legs_example :
  let r (x : Q) : dict := [(KUser 0, VNum (Fin x))] in
  let h t x := {| hi_trial := t; hi_result := r x; hi_status := 0; hi_config := []; hi_clock := 1; hi_fire := false;
                  hi_extra := None |} in
  let go := {| an_decision := 1; an_stops := false; an_exec_fails := false |} in
  let nofail := fun _ : fin_step => false in
  (* the optimum 1 is reported in the first leg, the second leg only sees 5 and 4 *)
  let legs := [ {| lg_answers := [go; go]; lg_steps := [Started 0; Batch [0%Z] [h 0%Z 3; h 0%Z 1]]; lg_fails := nofail |};
                {| lg_answers := [go; go]; lg_steps := [Started 1; Batch [1%Z] [h 1%Z 5; h 1%Z 4]]; lg_fails := nofail |} ] in
  let st := tuner_legs (tuner_new true None) legs in
  Forall leg_ok legs /\ length (cb_results (rs_cb st)) = 4%nat /\
  st_count (ts_overall (rs_ts st)) = 4%nat /\
  print_best (rs_ts st) (KUser 0) Min = Some (0%Z, Fin 1).
Proof. vm_compute. repeat split; repeat constructor. Qed.

(* ---- the data frame of the table: columns and cells ------------------------------
   DataFrame(rows): the columns are exactly the keys that occur in SOME row (a key first
   seen in a later row is a column too), each once; the cell of row r in column c is r's
   value for c, or missing when r has no such key (or the value is NaN / None). *)
Theorem c17_table_frame :
  forall rows : list dict,
    NoDup (columns rows) /\
    (forall k, In k (columns rows) <-> exists r v, In r rows /\ dget k r = Some v) /\
    (forall (is_na : value -> bool) r j, (j < length (columns rows))%nat ->
       nth j (map (frame_cell is_na r) (columns rows)) None = frame_cell is_na r (nth j (columns rows) KTrialId)).
Proof. exact frame_spec. Qed.
Print Assumptions c17_table_frame.

Example c17_table_frame_example :
  columns [[(KUser 0, VNum (Fin 1))]; [(KUser 0, VNum (Fin 2)); (KUser 1, VNum (Fin 3))]] = [KUser 0; KUser 1] /\
  map (frame_cell (fun _ => false) [(KUser 0, VNum (Fin 1))]) [KUser 0; KUser 1] = [Some (VNum (Fin 1)); None].
Proof. vm_compute. split; reflexivity. Qed.

(* ---- reading the table back from disk ----------------------------------------
   results.csv.zip = DataFrame(rows).to_csv, read with pd.read_csv.  Modelled: the columns
   (union of the row keys), one line per row in order, a missing / NaN / None cell written
   as an empty field and read back as "no value".  The TEXT level is an explicit
   hypothesis [text_ok]: a value that is not NA, written with [render] and read with
   [parse], comes back as a value related by [R] ("the same up to the last digits of
   floating-point text"; R = eq is "a finite float printed with repr and parsed back is
   the same float").  pandas' writer/reader themselves are exercised by the driver only.
   Then, for EVERY table: same number of rows, same order, and every cell of every row
   comes back R-related; cells without a value come back without a value. *)
Theorem c17_csv_roundtrip :
  forall (T : Type) (render : value -> T) (parse : T -> option value) (is_na : value -> bool)
         (R : value -> value -> Prop)
         (text_ok : forall v, is_na v = false -> exists v', parse (render v) = Some v' /\ R v v')
         (rows : list dict),
    let back := csv_read parse (csv_write render is_na rows) in
    length back = length rows /\
    forall i r, nth_error rows i = Some r ->
      exists b, nth_error back i = Some b /\
        forall k, match dget k r with
                  | Some v => if is_na v then dget k b = None
                              else exists v', dget k b = Some v' /\ R v v'
                  | None => dget k b = None
                  end.
Proof. exact @csv_roundtrip. Qed.
Print Assumptions c17_csv_roundtrip.

(* the columns of the file: each once, and every key of every row is a column *)
Theorem c17_csv_columns :
  forall rows : list dict,
    NoDup (columns rows) /\ forall r k v, In r rows -> dget k r = Some v -> In k (columns rows).
Proof. exact columns_spec. Qed.
Print Assumptions c17_csv_columns.

(* ---- best trial reported by the tuner ---------------------------------------
   For EVERY history of update calls, metric and mode: nothing handed -> None
   (Tuner.best_config then fails); otherwise the reported (t, v) is the entry of the
   FIRST trial (insertion order of trial_metric_statistics) whose per-trial optimum is
   not beaten; v is the optimum of the counted values of t, is never NaN, is one of
   them (or the default +-inf when t has no counted non-NaN value), and NO counted
   value of the metric in any result handed to the loop is strictly better than v. *)
Theorem c17_best_tuner :
  forall (history : list (list Z * list (Z * dict))) (metric : key) (m : mode),
    let ts := ts_run history in
    let h := handed history in
    (h = [] -> print_best ts metric m = None) /\
    (h <> [] -> exists t v pre post,
        print_best ts metric m = Some (t, v) /\
        per_table m metric ts = pre ++ (t, v) :: post /\
        In t (map fst (ts_trials ts)) /\
        v = opt_val m (counted metric (of_trial t h)) /\
        v <> NaN /\
        (v = opt_dflt m \/ In v (counted metric (of_trial t h))) /\
        (forall e, In e pre -> better m v (snd e) = true) /\
        (forall t' x, In x (counted metric (of_trial t' h)) -> better m x v = false)).
Proof. exact print_best_spec. Qed.
Print Assumptions c17_best_tuner.

(* all counted values ordinary numbers and at least one: the reported value was
   reported by the reported trial and is the minimum (maximum) of all of them *)
Theorem c17_best_tuner_finite :
  forall history metric m t v,
    print_best (ts_run history) metric m = Some (t, v) ->
    (forall t' x, In x (counted metric (of_trial t' (handed history))) -> exists q, x = Fin q) ->
    (exists t' x, In x (counted metric (of_trial t' (handed history)))) ->
    exists q, v = Fin q /\ In (Fin q) (counted metric (of_trial t (handed history))) /\
              forall t' q', In (Fin q') (counted metric (of_trial t' (handed history))) ->
                            match m with Min => q <= q' | Max => q' <= q end.
Proof. exact print_best_finite. Qed.
Print Assumptions c17_best_tuner_finite.

(* over ALL numeric values handed to the loop: no number reported for the metric by any
   trial whose first value of the metric is a number is strictly better than the
   reported value (numbers after a non-numeric value included) *)
Theorem c17_best_tuner_all_numeric :
  forall history metric m t v,
    print_best (ts_run history) metric m = Some (t, v) ->
    forall t' x0 r x,
      flat_map (vals_of metric) (of_trial t' (handed history)) = VNum x0 :: r ->
      In (VNum x) (flat_map (vals_of metric) (of_trial t' (handed history))) ->
      better m x v = false.
Proof. exact print_best_all_numeric. Qed.
Print Assumptions c17_best_tuner_all_numeric.

(* Tuner.best_config = metric_name_mode, then print_best_metric_found, then the
   backend's current configuration of the reported trial *)
Theorem c17_best_config :
  forall names ms metric ts backend t cfg,
    tuner_best_config names ms metric ts backend = Ok (t, cfg) <->
    exists name m v, metric_name_mode names ms metric = Some (name, m) /\
                     print_best ts name m = Some (t, v) /\ aget Z.eqb t backend = Some cfg.
Proof. exact tuner_best_config_spec. Qed.
Print Assumptions c17_best_config.

(* end to end, per-metric modes included: the configuration returned by Tuner.best_config is
   the backend's configuration of a trial t which was seen, the metric is the one named /
   indexed, the mode is THAT metric's mode (the single mode or the entry of the mode list
   at the metric's index), and under that mode no counted value of the metric handed to
   the loop is strictly better than t's optimum v (v is attained by t unless it is the
   default +-inf) *)
Theorem c17_best_config_attains :
  forall names ms metric history backend t cfg,
    tuner_best_config names ms metric (ts_run history) backend = Ok (t, cfg) ->
    exists i name m v,
      nth_error names i = Some name /\
      match metric with
      | ByIndex j => j = i
      | ByName n => n = name /\ forall j, (j < i)%nat -> nth_error names j <> Some name
      end /\
      match ms with OneMode m' => m' = m | ModeList l => nth_error l i = Some m end /\
      aget Z.eqb t backend = Some cfg /\
      In t (map fst (ts_trials (ts_run history))) /\
      v = opt_val m (counted name (of_trial t (handed history))) /\
      (v = opt_dflt m \/ In v (counted name (of_trial t (handed history)))) /\
      (forall t' x, In x (counted name (of_trial t' (handed history))) -> better m x v = false).
Proof. exact best_config_attains. Qed.
Print Assumptions c17_best_config_attains.

Example c17_best_config_example :
  let a := KUser 0 in let b := KUser 1 in
  let r (x y : Q) : dict := [(a, VNum (Fin x)); (b, VNum (Fin y))] in
  let hist := [([0%Z], [(0%Z, r 1 5)]); ([1%Z], [(1%Z, r 2 9)]); ([2%Z], [(2%Z, r 3 7)])] in
  let backend := [(0%Z, [(0%nat, VNum (Fin 10))]); (1%Z, [(0%nat, VNum (Fin 11))]); (2%Z, [(0%nat, VNum (Fin 12))])] in
  tuner_best_config [a; b] (ModeList [Min; Max]) (ByIndex 0) (ts_run hist) backend = Ok (0%Z, [(0%nat, VNum (Fin 10))]) /\
  tuner_best_config [a; b] (ModeList [Min; Max]) (ByName b) (ts_run hist) backend = Ok (1%Z, [(0%nat, VNum (Fin 11))]) /\
  tuner_best_config [a; b] (OneMode Max) (ByIndex 0) (ts_run hist) backend = Ok (2%Z, [(0%nat, VNum (Fin 12))]).
Proof. vm_compute. repeat split. Qed.

Theorem c17_best_config_no_results :
  forall names ms metric history backend,
    handed history = [] -> tuner_best_config names ms metric (ts_run history) backend = Err.
Proof. exact tuner_best_config_no_results. Qed.
Print Assumptions c17_best_config_no_results.

(* metric_name_mode: the name at the index (or the first index of the name) and
   the mode at the same index of a mode list *)
Theorem c17_metric_name_mode :
  forall names ms metric name m,
    metric_name_mode names ms metric = Some (name, m) ->
    exists i, nth_error names i = Some name /\
              match metric with
              | ByIndex j => j = i
              | ByName n => n = name /\ forall j, (j < i)%nat -> nth_error names j <> Some name
              end /\
              match ms with OneMode m' => m' = m | ModeList l => nth_error l i = Some m end.
Proof. exact metric_name_mode_spec. Qed.
Print Assumptions c17_metric_name_mode.

(* ---- the summary printed at the end of Tuner.run() -------------------------
   It is print_best_metric_found for the FIRST metric with THAT metric's mode (single
   mode or first entry of the mode list), so c17_best_tuner applies to it.
   History: before /repo commit 4548aec a mode LIST was read as "max" (three trials with
   loss 9/10, 1/10, 1/2 and modes [min; min] -> the summary named trial 0 with 9/10);
   the driver still detects that behaviour (signature part=final_summary,
   defect=mode_list_read_as_max; replay findings/C17-final-summary-mode-list.json). *)
Theorem c17_final_summary :
  forall names ms ts r,
    tuner_final_summary names ms ts = Some r ->
    exists name m, metric_name_mode names ms (ByIndex 0) = Some (name, m) /\ print_best ts name m = Some r.
Proof. exact final_summary_spec. Qed.
Print Assumptions c17_final_summary.

Theorem c17_final_summary_defined :
  forall name names ms m ts,
    metric_name_mode (name :: names) ms (ByIndex 0) = Some (name, m) ->
    tuner_final_summary (name :: names) ms ts = print_best ts name m.
Proof. exact final_summary_defined. Qed.
Print Assumptions c17_final_summary_defined.

(* ---- best configuration of the loaded experiment ---------------------------
   For EVERY table (pandas Series.argmin/argmax with skipna: cells without a value,
   NaN or missing, are filled with +inf for "min" / -inf for "max"): an error exactly when
   no row holds a value (or the metric does not exist); otherwise the reported row j is
   the FIRST row whose filled value is not beaten: no row is strictly better, every
   earlier row is strictly worse; the reported configuration is row j without its st_*
   columns. Hence, unless every value in the column is the worst infinity, row j holds
   a real value and it is the optimum over the rows (c17_best_experiment_attains).
   Tables whose metric column holds non-numeric objects are outside the model. *)
Theorem c17_best_experiment :
  forall names ms metric (table : list dict),
    match exp_best_config names ms metric table with
    | EBest j cfg =>
        exists name m, metric_name_mode names ms metric = Some (name, m) /\
          (j < length table)%nat /\
          cfg = strip_st (nth j table []) /\
          (exists j0, (j0 < length table)%nat /\ cell_num (cell_of name (nth j0 table [])) <> None) /\
          (forall j', (j' < length table)%nat ->
             better m (cell_fill m (cell_of name (nth j' table []))) (cell_fill m (cell_of name (nth j table []))) = false /\
             ((j' < j)%nat ->
              better m (cell_fill m (cell_of name (nth j table []))) (cell_fill m (cell_of name (nth j' table []))) = true))
    | EError =>
        metric_name_mode names ms metric = None \/
        exists name m, metric_name_mode names ms metric = Some (name, m) /\
          forall j, (j < length table)%nat -> cell_num (cell_of name (nth j table [])) = None
    | EUnmodelled =>
        exists name m j, metric_name_mode names ms metric = Some (name, m) /\
          (j < length table)%nat /\ cell_of name (nth j table []) = CObj
    end.
Proof. exact exp_best_spec. Qed.
Print Assumptions c17_best_experiment.

(* some row holds a value better than the fill value: the reported row holds a real
   value, and no real value in the table is strictly better *)
Theorem c17_best_experiment_attains :
  forall names ms metric (table : list dict) j cfg name m j0 x0,
    exp_best_config names ms metric table = EBest j cfg ->
    metric_name_mode names ms metric = Some (name, m) ->
    (j0 < length table)%nat -> cell_num (cell_of name (nth j0 table [])) = Some x0 ->
    better m x0 (opt_dflt m) = true ->
    exists x, cell_num (cell_of name (nth j table [])) = Some x /\
      forall j' x', (j' < length table)%nat -> cell_num (cell_of name (nth j' table [])) = Some x' ->
                    better m x' x = false.
Proof. exact exp_best_attains. Qed.
Print Assumptions c17_best_experiment_attains.

Theorem c17_strip_st :
  forall k row, dget k (strip_st row) = if key_is_st k then None else dget k row.
Proof. exact strip_st_get. Qed.
Print Assumptions c17_strip_st.

(* ---- non-vacuity: two trials, a NaN, a tie, a non-numeric value, a trial without
   results, a resumed trial with a changed configuration ------------------------ *)
Example c17_example :
  let loss := KUser 0 in
  let r (x : value) : dict := [(loss, x)] in
  let hist := [ ([0%Z], []); ([1%Z], []); ([2%Z], []);
                ([0%Z; 1%Z], [(0%Z, r (VNum (Fin 1))); (1%Z, r (VNum NaN)); (1%Z, r (VNum (Fin (1#2))))]);
                ([0%Z], [(0%Z, r (VNum (Fin (1#2)))); (0%Z, r (VTok 7)); (0%Z, r (VNum (Fin 0)))]);
                ([2%Z], [(2%Z, r (VTok 7)); (2%Z, r (VNum (Fin (-5))))]) ] in
  (* trial 0: the 0 after the non-number counts; trial 2: first value not a number, nothing counts *)
  print_best (ts_run hist) loss Min = Some (0%Z, Fin 0) /\
  print_best (ts_run hist) loss Max = Some (0%Z, Fin 1) /\
  st_count (ts_overall (ts_run hist)) = 8%nat /\
  aget key_eqb loss (st_sum (ts_overall (ts_run hist))) = Some NaN /\
  let e := {| ev_trial := 1; ev_status := 0; ev_result := r (VNum NaN); ev_decision := 1;
              ev_config := [(0%nat, VNum (Fin (1#10)))]; ev_clock := 3; ev_fire := false; ev_extra := None |} in
  (exists s, cb_run true [e; e] = Some s /\ length (cb_results s) = 2%nat /\
             dget KTunerTime (nth 0 (cb_results s) []) = Some (VNum (Fin 3))) /\
  exp_best_config [loss] (OneMode Min) (ByIndex 0)
     [r (VNum NaN); r (VNum (Fin 1)); []; r (VNum (Fin (1#2))); r (VNum (Fin (1#2)))] = EBest 3 (r (VNum (Fin (1#2)))).
Proof. vm_compute. repeat split. eexists. repeat split. Qed.
