(* C10 — Simulated experiments replay the benchmark table faithfully in values and time.
   Only statements; every proof is [exact <lemma of proofs/SimProofs.v>] plus unpacking glue.

   The model (model/Sim.v) is the simulator backend + tabular blackbox backend of /repo.
     S_   : all simulator settings (five delays, tuner_sleep_time, checkpointing flag, fixed
            seed, the literals 0.01 = [eps] and 1e-3 = [nudge]) — arbitrary;
     tbl  : the benchmark table, configuration -> seed -> rows of levels 1,2,.. — arbitrary
            (any sizes, any rationals: non-monotone / noisy elapsed-time columns included);
     draw : the seed oracle (np.random.randint) — any function;
     ops  : any sequence of backend calls start / resume / pause / stop / fetch / busy / sleep,
            each with any outside real time.  [run_ops] ends at the first call that raises.
   A delivered result is (trial t, (run tag k, index i, result r, st_tuner_time ts)); the tag and
   index are ghost data naming the job run ([runs st'] = log of executed job runs: trial, start
   time = time of the start event, configuration, seed, resume level, reported results). *)
From Verif Require Import model.Base model.Sim proofs.SimProofs proofs.SimDeliveryProofs proofs.SimHeapProofs.
From Coq Require Import Qminmax Sorted Permutation.
Open Scope Q_scope.

(* ---- values ------------------------------------------------------------------------------ *)
(* Every result delivered by fetch_status_results is the i-th report of a job run of that trial,
   and that report carries exactly the table row of the run's configuration, the run's seed and
   its level: the level is the j-th fidelity value (any list of fidelity values: 1..n, 2,4,6,..),
   metrics = the metrics of row j, level <= max_resource, level > resume level (= the level the
   trial was paused at, with checkpointing; none otherwise).  The levels a run reports are exactly
   the fidelity values within max_resource above the resume level, in table order, none skipped
   (for 1..n: consecutive, starting at 1 or right after the paused level).  The seed of every run of a
   trial is the trial's single seed (the fixed one, or the one stored for the trial).
   That run is the trial's LATEST run ([latest]: no later entry of the run log belongs to the
   trial): a result of an earlier run of a resumed trial is never delivered (nudge = 1e-3 >= 0). *)
Theorem c10_values :
  forall S_ tbl draw, 0 <= nudge S_ -> forall ops pre st' rs sts post,
    run_ops S_ tbl draw init_state ops = pre ++ Ok (st', OutFetch rs sts) :: post ->
    forall t k i r ts, In (t, (k, i, r, ts)) rs ->
    exists run,
      nth_error (runs st') k = Some run /\ run_trial run = t /\ latest (runs st') t k /\
      nth_error (run_results run) i = Some r /\
      (exists j rw, nth_error (fidelities S_) j = Some (res_level r) /\
                    nth_error (curve_of tbl (run_cfg run) (run_seed run)) j = Some rw /\
                    res_metrics r = r_metrics rw /\
                    lvl_in_range (run_cfg run) (res_level r) = true /\
                    lvl_above (resume_level S_ (run_rp run)) (res_level r) = true) /\
      map res_level (run_results run) =
        filter (lvl_above (resume_level S_ (run_rp run)))
               (filter (lvl_in_range (run_cfg run))
                       (firstn (length (curve_of tbl (run_cfg run) (run_seed run))) (fidelities S_))) /\
      match fixed_seed S_ with
      | Some s0 => run_seed run = s0
      | None => lookup t (seeds st') = Some (run_seed run)
      end.
Proof.
  intros S_ tbl draw Hn ops pre st' rs sts post H t k i r ts Hin.
  destruct (fetch_delivered S_ tbl draw ops pre st' rs sts post H t k i r ts Hin)
    as (run & A & B & C & D & E & F & _).
  pose proof (fetch_latest S_ tbl draw Hn ops pre st' rs sts post H t k i r ts Hin) as L.
  exists run. split; [exact A|]. split; [exact B|]. split; [exact L|]. split; [exact C|].
  split; [exact D|]. split; [exact E|exact F].
Qed.
Print Assumptions c10_values.

(* ---- time stamps ------------------------------------------------------------------------- *)
(* st_tuner_time = start time of that run + e + delay_on_trial_result, where e = the result's
   elapsed time = "the table's elapsed time since the resume point" AFTER the documented repair:
   [repaired] says e_0 = max(x_0, eps), e_{j+1} = max(x_{j+1}, e_j + eps) for the rebased column
   x_j = table(level) - table(resume level) ([raw_job]).  Whenever that column is [spaced] (first
   value >= eps, every step >= eps) e is the raw table difference itself.  Reading fixed here: the
   repair is part of "the table's elapsed time"; for columns that violate the eps spacing the
   raw-table equation is false by design and is not claimed. *)
Theorem c10_timestamp :
  forall S_ tbl draw, 0 <= nudge S_ -> forall ops pre st' rs sts post,
    run_ops S_ tbl draw init_state ops = pre ++ Ok (st', OutFetch rs sts) :: post ->
    forall t k i r ts, In (t, (k, i, r, ts)) rs ->
    exists run,
      nth_error (runs st') k = Some run /\ run_trial run = t /\ latest (runs st') t k /\
      nth_error (run_results run) i = Some r /\
      ts == run_te run + res_elapsed r + d_result S_ /\
      repaired S_ None (raw_job S_ tbl (run_cfg run) (run_seed run) (run_rp run)) (run_results run) /\
      (spaced S_ (eps S_) (raw_job S_ tbl (run_cfg run) (run_seed run) (run_rp run)) ->
       exists j rw, nth_error (fidelities S_) j = Some (res_level r) /\
                    nth_error (curve_of tbl (run_cfg run) (run_seed run)) j = Some rw /\
                    res_elapsed r == r_elapsed rw -
                      offset S_ tbl (run_cfg run) (run_seed run) (resume_level S_ (run_rp run))).
Proof.
  intros S_ tbl draw Hn ops pre st' rs sts post H t k i r ts Hin.
  destruct (fetch_delivered S_ tbl draw ops pre st' rs sts post H t k i r ts Hin)
    as (run & A & B & C & _ & _ & _ & G & H1 & H2).
  pose proof (fetch_latest S_ tbl draw Hn ops pre st' rs sts post H t k i r ts Hin) as L.
  exists run. split; [exact A|]. split; [exact B|]. split; [exact L|]. split; [exact C|].
  split; [exact G|]. split; [exact H1|exact H2].
Qed.
Print Assumptions c10_timestamp.

(* what [repaired] and [raw_job] mean, spelled out *)
Theorem c10_repair_meaning :
  forall S_ prev l l', repaired S_ prev l l' ->
    (forall j r', nth_error l' j = Some r' ->
       exists r, nth_error l j = Some r /\ res_level r' = res_level r /\ res_metrics r' = res_metrics r /\
                 res_elapsed r <= res_elapsed r') /\
    (forall a, nth_error l' 0 = Some a -> bound S_ prev <= res_elapsed a) /\
    (forall j a b, nth_error l' j = Some a -> nth_error l' (S j) = Some b ->
       res_elapsed a + eps S_ <= res_elapsed b).
Proof.
  intros S_ prev l l' H. split; [exact (repaired_nth S_ prev l l' H)|].
  split; [exact (repaired_head S_ prev l l' H) | exact (repaired_step S_ prev l l' H)].
Qed.
Print Assumptions c10_repair_meaning.

Theorem c10_raw_job_meaning :
  forall S_ tbl c seed rp i r, nth_error (raw_job S_ tbl c seed rp) i = Some r ->
    exists j rw, nth_error (fidelities S_) j = Some (res_level r) /\
                 nth_error (curve_of tbl c seed) j = Some rw /\
                 res_metrics r = r_metrics rw /\
                 res_elapsed r = r_elapsed rw - offset S_ tbl c seed (resume_level S_ rp) /\
                 in_range c r = true /\ above (resume_level S_ rp) r = true.
Proof. exact raw_job_nth. Qed.

(* [offset] = elapsed time of the table row whose level is the paused level: with distinct fidelity
   values, the elapsed time of THE result with that level *)
Theorem c10_offset_meaning :
  forall p l r, NoDup (map res_level l) -> In r l -> res_level r = p -> offset_of p l = res_elapsed r.
Proof. intros p l r H1 H2 H3. exact (offset_of_unique p l r H1 H2 H3 0). Qed.
Print Assumptions c10_offset_meaning.
Print Assumptions c10_raw_job_meaning.

(* the start time of a run: start_trial / resume_trial at simulated time c queue a start event at
   c + delay_start; the run created when the event is processed starts at the event's time, with
   the trial's configuration and the level recorded by the last pause_trial(result) *)
Theorem c10_run_start :
  forall S_ tbl draw,
    (forall st t dt st', schedule S_ tbl draw st t dt = Ok st' ->
       exists h, In h (heap st') /\ h_ev h = EvStart /\ h_trial h = t /\
                 h_time h == clock st' + d_start S_) /\
    (forall st t te st', proc_start S_ tbl draw st t te = Ok st' ->
       exists run tr, runs st' = runs st ++ [run] /\ nth_error (trials st) t = Some tr /\
                      run_trial run = t /\ run_te run = te /\ run_cfg run = t_cfg tr /\
                      run_rp run = lookup t (paused_at st)).
Proof.
  intros. split; [exact (schedule_start_event S_ tbl draw) | exact (proc_start_run S_ tbl draw)].
Qed.
Print Assumptions c10_run_start.

(* ---- delivery: once, in order, in time ----------------------------------------------------- *)
(* [deliveries outs] = everything the fetches of a call sequence hand out, in order.  For any two
   deliveries of the same run the earlier one has the smaller report index ([Rd]); the level of
   report i is resume point + i + 1 (c10_values).  Hence, over the whole call sequence, a report
   is delivered at most once and the reports of a run are delivered in level order.  This covers
   the bookkeeping after the pop: the append to _next_results_to_fetch, the concatenation over
   trial_ids and the discarding in fetch_status_results, the drop at the end of
   _stop_or_pause_trial.  (eps = 0.01 >= 0.) *)
Theorem c10_once_in_order :
  forall S_ tbl draw, 0 <= eps S_ -> forall ops,
    StronglySorted (fun a b : delivered => ptag (snd a) = ptag (snd b) -> (pidx (snd a) < pidx (snd b))%nat)
                   (deliveries (run_ops S_ tbl draw init_state ops)).
Proof. exact deliveries_once_in_order. Qed.
Print Assumptions c10_once_in_order.

(* A fetch that succeeds in a state reached by successful calls leaves nothing due in the queue and
   nothing pending, and it delivers, for every trial it polls, every report that is due by then:
   the reports queued before the call (a) and the reports of runs started inside the call (b).
   So a report still queued is delivered by the first fetch after its event time that polls the
   trial; reports leave the queue otherwise only through the stop event of a stop / pause of the
   trial (remove_events) and the pending table only through a fetch (delivered when polled,
   discarded when not) or the drop at the end of a stop / pause of the trial. *)
Theorem c10_timely :
  forall S_ tbl draw, 0 <= nudge S_ ->
  forall st ids dt st' rs sts,
    (st = init_state \/ exists ops pre o rest, run_ops S_ tbl draw init_state ops = pre ++ Ok (st, o) :: rest) ->
    step S_ tbl draw st (OpFetch ids dt) = Ok (st', OutFetch rs sts) ->
    (forall x, In x (heap st') -> clock st' < h_time x) /\ nextres st' = [] /\
    (forall x k i r, In x (heap st) -> h_ev x = EvResult k i r -> h_time x <= clock st' ->
       In (h_trial x) ids -> In (h_trial x, (k, i, r, h_time x)) rs) /\
    (forall k run i r, (length (runs st) <= k)%nat -> nth_error (runs st') k = Some run ->
       nth_error (run_results run) i = Some r -> due_time S_ (run_te run) r <= clock st' ->
       In (run_trial run) ids -> In (run_trial run, (k, i, r, due_time S_ (run_te run) r)) rs).
Proof.
  intros S_ tbl draw Hn st ids dt st' rs sts Hst.
  apply (fetch_timely S_ tbl draw Hn). destruct Hst as [->|(ops & pre & o & rest & H)].
  - constructor.
  - exact (run_ops_state_reach S_ tbl draw _ _ _ _ _ _ H).
Qed.
Print Assumptions c10_timely.

(* ---- resume level over repeated pause / resume ---------------------------------------------- *)
(* After ANY successfully executed call history the level stored for a trial (which the next run
   of the trial reads as its resume level, c10_run_start) is the level passed by the LATEST
   pause_trial(trial, result) of the history — earlier pauses of the same trial, pauses of other
   trials, pauses without result and all other calls do not matter. *)
Theorem c10_resume_level :
  forall S_ tbl draw t ops st',
    exec S_ tbl draw init_state ops = Some st' ->
    lookup t (paused_at st') = last_pause t ops None.
Proof. intros S_ tbl draw t ops st' H. exact (paused_is_last_pause S_ tbl draw t ops init_state st' H). Qed.
Print Assumptions c10_resume_level.

(* ---- the monotonicity fix-up as a whole ------------------------------------------------------ *)
(* Whatever the (rebased) time column x is — decreasing, constant, negative — the fix-up returns
   e with the same levels and metrics, e_0 >= eps, e_{j+1} >= e_j + eps and e_j >= x_j. *)
Theorem c10_repair_increasing :
  forall S_ l l', repair S_ l = Ok l' ->
    map res_level l' = map res_level l /\ map res_metrics l' = map res_metrics l /\
    (forall a, nth_error l' 0 = Some a -> eps S_ <= res_elapsed a) /\
    (forall j a b, nth_error l' j = Some a -> nth_error l' (S j) = Some b ->
       res_elapsed a + eps S_ <= res_elapsed b) /\
    (forall j r', nth_error l' j = Some r' -> exists r, nth_error l j = Some r /\ res_elapsed r <= res_elapsed r').
Proof.
  intros S_ l l' H. destruct (repair_spec S_ l l' H) as [_ HR].
  destruct (repaired_fields S_ None l l' HR) as (A & B & _).
  split; [exact A|]. split; [exact B|]. split; [exact (repaired_head S_ None l l' HR)|].
  split; [exact (repaired_step S_ None l l' HR)|].
  intros j r' Hj. destruct (repaired_nth S_ None l l' HR j r' Hj) as (r & Hr & _ & _ & Hle). exists r. split; assumption.
Qed.
Print Assumptions c10_repair_increasing.

Definition ex_settings_r : settings :=
  mkSet (1#20) (1#20) (1#20) (1#20) (1#20) (1#10) true None (1#100) (1#1000) [1; 2; 3]%nat.
Example c10_repair_example :
  map (fun r => Qred (res_elapsed r))
      (match repair ex_settings_r [mkRes 1 3 []; mkRes 2 1 []; mkRes 3 (-5) []; mkRes 4 (7#2) []] with
       | Ok l => l | Err _ => [] end)
  = [3; 301#100; 151#50; 7#2].
Proof. vm_compute. reflexivity. Qed.

(* ---- the event queue as heapq keeps it: a binary heap in an array --------------------------- *)
(* model/Sim.v bh_push / bh_pop / bh_heapify are heapq's heappush / heappop / heapify on a list,
   bhs_* are SimulatorState.push / remove_events (filter + heapify) / next_until on it; the driver
   compares the ARRAY after every call with the real SimulatorState.event_heap.
   The boolean heap check is exact; the first entry of a heap is a minimum; a heap and the sorted list
   holding the same events expose the same first event and are empty together — so next_until
   decides and pops alike in both representations and the theorems stated over the sorted list apply. *)
Theorem c10_bheap_top :
  (forall a, is_heap_b a = true <-> IsHeap a) /\
  (forall a, IsHeap a -> forall i, (i < length a)%nat -> key_le (nth 0 a hdummy) (nth i a hdummy)) /\
  (forall a l, IsHeap a -> Permutation a l -> StronglySorted key_lt l ->
     nth 0 a hdummy = hd hdummy l /\ (a = [] <-> l = [])).
Proof.
  split; [exact is_heap_b_spec|]. split; [exact heap_root_min | exact heap_top_is_sorted_head].
Qed.
Print Assumptions c10_bheap_top.

(* heappush and heappop (SimulatorState.push and next_until) on ANY heap array: the result is a heap
   again and holds the same events plus / minus the one concerned; next_until returns an event iff the
   smallest queued key is due, and the event it returns is queued, due, and <= every queued event in
   the (time, insertion counter) order.  Over every sequence of push / next_until from the empty
   queue the array is a heap after every call (last clause), so every pop of every such sequence
   returns a minimum of the events queued at that moment. *)
Theorem c10_bheap_push_pop :
  (forall s t ev time, IsHeap (fst s) ->
     IsHeap (fst (bhs_push s t ev time)) /\
     Permutation (fst (bhs_push s t ev time)) (mkH time (snd s) t ev :: fst s)) /\
  (forall s until, IsHeap (fst s) ->
     match bhs_next_until s until with
     | (Some x, s') => In x (fst s) /\ (forall y, In y (fst s) -> key_le x y) /\ h_time x <= until /\
                       Permutation (fst s) (x :: fst s') /\ IsHeap (fst s') /\ snd s' = snd s
     | (None, s') => s' = s /\ (forall y, In y (fst s) -> until < h_time y)
     end) /\
  (forall ops, IsHeap (fst (fold_left q_step ops (([], 0%nat) : bh_state)))).
Proof.
  split; [exact bhs_push_ok|]. split; [exact bhs_next_ok|].
  intro ops. exact (q_run_heap ops ([], 0%nat) heap_nil).
Qed.
Print Assumptions c10_bheap_push_pop.

(* remove_events = filter + heapify: it keeps exactly the events of the other trials (as a multiset).
   PARTIAL: that heapify re-establishes the heap condition (so that sequences containing
   remove_events are covered by the last clause of c10_bheap_push_pop as well) is NOT proved; it
   is checked at run time: [is_heap_b] (exact, c10_bheap_top) on the model's array after every
   call, the array compared with the implementation's event_heap, and the independent checker on
   the implementation's array.  Full statement:
     forall l, IsHeap (bh_heapify l). *)
Theorem c10_bheap_remove_events_partial :
  forall s t, Permutation (fst (bhs_remove s t)) (remove_events t (fst s)) /\ snd (bhs_remove s t) = snd s.
Proof. intros s t. split; [exact (bhs_remove_perm s t)|reflexivity]. Qed.
Print Assumptions c10_bheap_remove_events_partial.

(* non-vacuity: pushes with ties, pops, a remove_events: the array is a heap after every step and
   the pops come out in (time, insertion) order *)
Example c10_bheap_example :
  let s1 := bhs_push (bhs_push (bhs_push (bhs_push (bhs_push ([], 0%nat) 0 EvStart 5) 1 EvStart 3) 0 EvStart 3) 2 EvStart 1) 1 EvStart 4 in
  let '(x1, s2) := bhs_next_until s1 2 in
  let s3 := bhs_remove s2 1 in
  let '(x2, s4) := bhs_next_until s3 10 in
  let '(x3, s5) := bhs_next_until s4 10 in
  is_heap_b (fst s1) = true /\ is_heap_b (fst s3) = true /\
  map (fun x => match x with Some h => Some (h_time h, h_cnt h) | None => None end) [x1; x2; x3]
  = [Some (1, 3%nat); Some (3, 2%nat); Some (5, 0%nat)] /\ fst s5 = [].
Proof. vm_compute. repeat split. Qed.

(* ---- the clock ----------------------------------------------------------------------------- *)
(* Simulated time never runs backwards: over any operation sequence, from any state, the clock
   after a later call is >= the clock after an earlier call (and >= the initial clock). *)
Theorem c10_clock_monotone :
  forall S_ tbl draw ops st,
    (forall st1 o1, In (Ok (st1, o1)) (run_ops S_ tbl draw st ops) -> clock st <= clock st1) /\
    (forall pre st1 o1 mid st2 o2 post,
        run_ops S_ tbl draw st ops = pre ++ Ok (st1, o1) :: mid ++ Ok (st2, o2) :: post ->
        clock st1 <= clock st2).
Proof.
  intros. split; [exact (run_ops_clock S_ tbl draw ops st) | exact (run_ops_clock_between S_ tbl draw ops st)].
Qed.
Print Assumptions c10_clock_monotone.

(* Time is charged once: every successful call moves the clock by exactly
     the outside time dt                          (start, resume, fetch),
     tuner_sleep_time                             (a tuner sleep; nothing else),
     nothing                                      (busy_trial_ids),
     max(to, clock) - clock                       (a direct time_keeper.advance_to(to): never backwards),
     the blocking stop/pause formula              (stop, pause),
   and the outside time / sleep time is >= 0 (a negative step raises). *)
Theorem c10_sleep_once :
  forall S_ tbl draw st o st' out,
    step S_ tbl draw st o = Ok (st', out) ->
    0 <= outside S_ o /\ clock st' == charge S_ o (clock st).
Proof. exact step_clock. Qed.
Print Assumptions c10_sleep_once.

(* ... where the blocking stop/pause formula is dt + delay_stop + 1e-3 +
   delay_complete_after_stop + 1e-3 for the non-negative delays SimulatorConfig admits. *)
Theorem c10_stop_charge :
  forall S_ c dt, 0 <= d_stop S_ + nudge S_ -> 0 <= d_stopc S_ + nudge S_ ->
    clock_after_stop S_ c dt == c + dt + d_stop S_ + nudge S_ + d_stopc S_ + nudge S_.
Proof. exact clock_after_stop_exact. Qed.
Print Assumptions c10_stop_charge.

(* ---- the event heap ------------------------------------------------------------------------ *)
(* heapq with keys (time, insertion counter) is modelled as a list sorted by that key.  In every
   state a call sequence passes through the list is strictly sorted (so the event popped next, the
   head, has the smallest key of all queued events, FIFO on equal times) ... *)
Theorem c10_heap_sorted :
  forall S_ tbl draw ops pre st1 o1 rest,
    run_ops S_ tbl draw init_state ops = pre ++ Ok (st1, o1) :: rest ->
    StronglySorted key_lt (heap st1) /\
    (forall h tl, heap st1 = h :: tl -> forall y, In y tl -> key_lt h y).
Proof.
  intros S_ tbl draw ops pre st1 o1 rest H.
  destruct (reach_hinv S_ tbl draw _ _ (HInv_init) (run_ops_state_reach S_ tbl draw _ _ _ _ _ _ H)) as [Hs _].
  split; [exact Hs|]. intros h tl E. rewrite E in Hs. exact (sorted_head_min h tl Hs).
Qed.
Print Assumptions c10_heap_sorted.

(* ... and the key order is a strict total order on queued events, so the sorted arrangement of a
   set of events is unique: any priority queue popping minimal keys (heapq) pops in list order. *)
Theorem c10_heap_order_unique :
  forall l1 l2, StronglySorted key_lt l1 -> StronglySorted key_lt l2 -> Permutation l1 l2 -> l1 = l2.
Proof. exact sorted_unique. Qed.
Print Assumptions c10_heap_order_unique.

Theorem c10_heap_push_pop :
  forall x l, Permutation (insert x l) (x :: l) /\
              (StronglySorted key_lt l -> (forall y, In y l -> h_cnt y <> h_cnt x) ->
               StronglySorted key_lt (insert x l)) /\
              (forall f, StronglySorted key_lt l -> StronglySorted key_lt (filter f l)).
Proof.
  intros x l. split; [exact (insert_perm x l)|]. split; [exact (insert_sorted x l)|].
  intros f. exact (filter_sorted f l).
Qed.
Print Assumptions c10_heap_push_pop.

(* The reports of a job run leave the event queue in index order, each once: [J] (every queued
   report names its run; queued reports of one run are keyed in index order; the heap is sorted) holds
   initially, after every call and after every iteration of the event loop, and under [J] the
   event popped next, if it is report i of run k, has the smallest index of all queued reports of
   run k.  (eps >= 0: the repaired elapsed times of a run do not decrease.)
   The bookkeeping after the pop is covered by c10_once_in_order above. *)
Theorem c10_pop_in_order :
  forall S_ tbl draw, 0 <= eps S_ ->
    let J := fun st => IO S_ tbl st /\ HInv st in
    J init_state /\
    (forall st o st' out, J st -> step S_ tbl draw st o = Ok (st', out) -> J st') /\
    (forall st h rest st', J st -> heap st = h :: rest ->
       proc_event S_ tbl draw (set_heap st rest) h = Ok st' -> J st') /\
    (forall st h rest, J st -> heap st = h :: rest ->
       forall k i, is_res h k i -> forall h' i', In h' rest -> is_res h' k i' -> (i < i')%nat).
Proof.
  intros S_ tbl draw He J. split; [split; [exact (IO_init S_ tbl) | exact HInv_init]|].
  split; [intros st o st' out [A B] Hs; split;
          [exact (step_io S_ tbl draw He st o st' out A Hs) | exact (step_hinv S_ tbl draw st o st' out B Hs)]|].
  split.
  - intros st h rest st' [[A1 A2] B] Hh Hp. split; [split|].
    + exact (proc_event_inv S_ tbl draw st rest h st' A1 Hh Hp).
    + exact (proc_event_ord S_ tbl draw He st rest h st' A1 A2 Hh Hp).
    + exact (proc_event_hinv S_ tbl draw st rest h st' B Hh Hp).
  - intros st h rest [A B] Hh. exact (pop_in_order S_ tbl st h rest A B Hh).
Qed.
Print Assumptions c10_pop_in_order.

(* the event loop of the model never stops for lack of fuel: it ends because no queued event is due *)
Theorem c10_event_loop_total :
  forall S_ tbl draw st, process_now S_ tbl draw st <> Err EFuel.
Proof. exact process_now_enough. Qed.
Print Assumptions c10_event_loop_total.

(* ---- non-vacuity (values, time stamps, resume level) --------------------------------------------------------------------------- *)
(* one configuration, one seed, three levels with elapsed times 1, 2, 2 (flat step: repaired),
   default delays: start, fetch (level 1), pause at level 1, resume, fetch (levels 2 and 3 of the
   second run, elapsed 1 and 1.01 since the resume point) *)
Definition ex_settings : settings :=
  mkSet (1#20) (1#20) (1#20) (1#20) (1#20) (1#10) true None (1#100) (1#1000) [1; 2; 3]%nat.
Definition ex_table : table := [[[mkRow 1 [5]; mkRow 2 [6]; mkRow 2 [7]]]].
Definition ex_ops : list op :=
  [OpStart (mkCfg 0 None) 0; OpFetch [0%nat] (3#2); OpPause 0 (Some 1%nat) 0;
   OpResume 0 None 0; OpSleep; OpFetch [0%nat] 5].
Example c10_example :
  map (fun x => match x with
                | Ok (_, OutFetch rs _) =>
                    map (fun d : delivered => let '(_, (_, _, r, ts)) := d in
                                              (res_level r, Qred (res_elapsed r), res_metrics r, Qred ts)) rs
                | _ => []
                end)
      (run_ops ex_settings ex_table (fun _ => 0%nat) init_state ex_ops)
  = [[]; [(1%nat, 1, [5], 11#10)]; []; []; [];
     [(2%nat, 1, [6], 1351#500); (3%nat, 101#100, [7], 339#125)]].
Proof. vm_compute. reflexivity. Qed.

(* two pauses of the same trial at levels 1 and 2: the stored level is the latest one, and the third
   run reports level 3 only *)
Definition ex_ops2 : list op :=
  [OpStart (mkCfg 0 None) 0; OpFetch [0%nat] (3#2); OpPause 0 (Some 1%nat) 0; OpResume 0 None 0;
   OpFetch [0%nat] (6#5); OpPause 0 (Some 2%nat) 0; OpResume 0 None 0; OpFetch [0%nat] 5].
Example c10_resume_level_example :
  (match exec ex_settings ex_table (fun _ => 0%nat) init_state ex_ops2 with
   | Some st' => lookup 0 (paused_at st')
   | None => None
   end) = Some 2%nat /\
  last_pause 0 ex_ops2 None = Some 2%nat /\
  map (fun x => match x with
                | Ok (_, OutFetch rs _) => map (fun d : delivered => let '(_, (_, _, r, _)) := d in res_level r) rs
                | _ => []
                end)
      (run_ops ex_settings ex_table (fun _ => 0%nat) init_state ex_ops2)
  = [[]; [1%nat]; []; []; [2%nat; 3%nat]; []; []; [3%nat]].
Proof. vm_compute. repeat split. Qed.

(* a non-standard fidelity grid 2, 4, 6: paused at level 2 the trial resumes at level 4 (the next
   fidelity VALUE, not the position), elapsed time rebased against the row of level 2 *)
Definition ex_settings_f : settings :=
  mkSet (1#20) (1#20) (1#20) (1#20) (1#20) (1#10) true None (1#100) (1#1000) [2; 4; 6]%nat.
Example c10_fidelity_grid_example :
  map (fun x => match x with
                | Ok (_, OutFetch rs _) =>
                    map (fun d : delivered => let '(_, (_, _, r, _)) := d in (res_level r, Qred (res_elapsed r), res_metrics r)) rs
                | _ => []
                end)
      (run_ops ex_settings_f [[[mkRow 1 [5]; mkRow 2 [6]; mkRow 4 [7]]]] (fun _ => 0%nat) init_state
               [OpStart (mkCfg 0 None) 0; OpFetch [0%nat] (3#2); OpPause 0 (Some 2%nat) 0; OpResume 0 None 0; OpFetch [0%nat] 9])
  = [[]; [(2%nat, 1, [5])]; []; []; [(4%nat, 1, [6]); (6%nat, 3, [7])]].
Proof. vm_compute. reflexivity. Qed.

(* time_keeper.advance_to with targets above and below the clock, between backend calls: the clock
   never moves backwards *)
Example c10_advance_to_example :
  map (fun x => match x with Ok (st, _) => Qred (clock st) | Err _ => -1 end)
      (run_ops ex_settings ex_table (fun _ => 0%nat) init_state
               [OpAdvanceTo 3; OpAdvanceTo 1; OpStart (mkCfg 0 None) (1#2); OpAdvanceTo (-2); OpFetch [0%nat] 0; OpAdvanceTo 10])
  = [3; 3; 7#2; 7#2; 7#2; 10].
Proof. vm_compute. reflexivity. Qed.
