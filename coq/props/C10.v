(* C10 — Simulated experiments replay the benchmark table faithfully in values and time.
   Only statements; every proof is [exact <lemma of proofs/SimProofs.v>].
   The model (model/Sim.v) is the simulator backend + tabular blackbox backend of /repo;
   [S_] = all simulator settings (five delays, tuner_sleep_time, checkpointing flag, fixed
   seed, the literals 0.01 and 1e-3), [tbl] = any benchmark table, [draw] = any seed oracle,
   [ops] = any sequence of backend calls start/resume/pause/stop/fetch/busy/sleep with any
   outside real time.  [run_ops] ends at the first call that raises. *)
From Verif Require Import model.Base model.Sim proofs.SimProofs.
Open Scope Q_scope.

(* Simulated time never runs backwards: over any operation sequence, from any state, the clock
   after a later call is >= the clock after an earlier call (and >= the initial clock). *)
Theorem c10_clock_monotone :
  forall S_ tbl draw ops st,
    (forall st1 o1, In (Ok (st1, o1)) (run_ops S_ tbl draw st ops) -> clock st <= clock st1) /\
    (forall pre st1 o1 mid st2 o2 post,
        run_ops S_ tbl draw st ops = pre ++ Ok (st1, o1) :: mid ++ Ok (st2, o2) :: post ->
        clock st1 <= clock st2).
Proof.
  intros. split; [exact (run_ops_clock S_ tbl draw ops st) | exact (run_ops_clock_between S_ tbl draw ops st)].
Qed.
Print Assumptions c10_clock_monotone.

(* Time is charged once: every successful call moves the clock by exactly
     the outside time dt                          (start, resume, fetch),
     tuner_sleep_time                             (a tuner sleep; nothing else),
     nothing                                      (busy_trial_ids),
     the blocking stop/pause formula              (stop, pause),
   and the outside time / sleep time is >= 0 (a negative step raises). *)
Theorem c10_sleep_once :
  forall S_ tbl draw st o st' out,
    step S_ tbl draw st o = Ok (st', out) ->
    0 <= outside S_ o /\ clock st' == charge S_ o (clock st).
Proof. exact step_clock. Qed.
Print Assumptions c10_sleep_once.

(* ... where the blocking stop/pause formula is dt + delay_stop + 1e-3 +
   delay_complete_after_stop + 1e-3 for the non-negative delays SimulatorConfig admits. *)
Theorem c10_stop_charge :
  forall S_ c dt, 0 <= d_stop S_ + nudge S_ -> 0 <= d_stopc S_ + nudge S_ ->
    clock_after_stop S_ c dt == c + dt + d_stop S_ + nudge S_ + d_stopc S_ + nudge S_.
Proof. exact clock_after_stop_exact. Qed.
Print Assumptions c10_stop_charge.
